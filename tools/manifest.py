#!/venv/bin/python
"""manifest.py — regenerate /verif/MANIFEST.json from tools/manifest_entries.json
(one entry per claimed property) ; every property of properties.jsonl that has no entry is
listed under not_applicable with the reason given in manifest_entries.json["unclaimed"]."""
import json, os
V = os.path.dirname(os.path.dirname(os.path.abspath(__file__)))
src = json.load(open(os.path.join(V, "tools", "manifest_entries.json")))
props = [json.loads(l)["id"] for l in open(os.path.join(V, "properties.jsonl")) if l.strip()]
checks = []
for pid in props:
    e = src["claimed"].get(pid)
    if not e:
        continue
    checks.append({
        "property_id": pid,
        "quick_cmd": "./check %s --tier quick" % pid,
        "thorough_cmd": "./check %s --tier thorough" % pid,
        "evidence_file": "evidence/%s.json" % pid,
        "replay_cmd_template": "./check %s --replay {path}" % pid,
        "engine": "coq-proof+correspondence",
        "level_claimed": {"category": "proof", "text": e["text"], "design_ref": "DESIGN.md §6 " + pid},
        "level_note": e["note"],
        "technique": e["technique"],
    })
na = [{"property_id": p, "reason": src["unclaimed"].get(p, src["unclaimed"]["default"])}
      for p in props if p not in src["claimed"]]
m = {
    "version": 1,
    "setup_cmd": "./setup.sh",
    "hooks": src["hooks"],
    "engines": [{
        "name": "coq-proof+correspondence", "path": "check",
        "serves_properties": [c["property_id"] for c in checks],
        "kind_free_text": "Coq 8.16.1 theorems about an executable Gallina model; model tied to /repo by two fail-closed source-to-Gallina translators (tools/py2v.py: integer kernels of connection.py; tools/py2v_bytes.py: byte kernels of serializable.py, http_server.py, connection.py) and by a differential correspondence harness driving the extracted model and the real implementation"}],
    "checks": checks,
    "notes": "All checks go through ./check <id>; evidence is rewritten on every run; known_findings.json is never written at run time.",
    "not_applicable": na,
}
json.dump(m, open(os.path.join(V, "MANIFEST.json"), "w"), indent=1)
print("MANIFEST: %d checks, %d not_applicable" % (len(checks), len(na)))
