#!/usr/bin/env python3
"""py2v_bytes.py — fail-closed translator of the byte-level kernels of
mpgameserver/serializable.py and mpgameserver/http_server.py into Gallina.

  serializable.py -> coq/Gen/SerKernels.v
      MAX_BYTES_LENGTH, MAX_ARRAY_LENGTH, every SerializableBaseTypes id,
      serialize_bool / serialize_int / serialize_null / serialize_bytes (the stream writers),
      serialize_map / serialize_seq / serialize_set up to the element loop (as functions of len(value)),
      the length guards of deserialize_string / bytes / map / seq / set,
      the scalar reader lambdas and the deserialize_types table (dict literal + later
      subscript assignments)
  http_server.py -> coq/Gen/WsKernels.v
      WebSocketFrame.serializeHeader / serializeDataHeader / parseHeader
  connection.py -> coq/Gen/HdrKernels.v
      PacketIdentifier / PacketType members, PacketHeader.to_bytes

Target vocabulary: Model/StructPack.v (spack = struct.pack for fixed integer formats, reader,
dict_of_items).  Subset: integer expressions (+ - * // % ** << >> & | abs len), one-operator
comparisons, truthiness of an integer, conditional expressions, assignments to locals,
augmented assignments, if/elif/else, stream.write(...) / hdr.append(...), return, raise.
Anything else raises Untranslatable: the script then leaves the previous generated file in place (so
the rest of the development and the extracted driver still build), or writes a file that does not
compile when there is none, and exits non-zero (2 + 1 for serializable.py + 2 for http_server.py + 4 for connection.py);
harness/lib.py records that and ./check reports the broken tie for every property in that cone.
"""
import ast, sys, os

class Untranslatable(Exception):
    pass

def fail(node, why):
    raise Untranslatable("line %s: %s: %s" % (getattr(node, "lineno", "?"), why,
                                              ast.dump(node)[:160] if isinstance(node, ast.AST) else node))

BINOP = {ast.Add: "+", ast.Sub: "-", ast.Mult: "*", ast.FloorDiv: "/", ast.Mod: "mod", ast.Pow: "^"}
FUNOP = {ast.LShift: "Z.shiftl", ast.RShift: "Z.shiftr", ast.BitAnd: "Z.land", ast.BitOr: "Z.lor"}
CMP = {ast.Lt: "<?", ast.LtE: "<=?", ast.Gt: ">?", ast.GtE: ">=?", ast.Eq: "=?"}
EXC = {"ValueError": "EValue", "TypeError": "EType"}
FCH = {"B": "FB", "b": "Fb", "H": "FH", "h": "Fh", "L": "FL", "l": "Fl", "Q": "FQ", "q": "Fq",
       "?": "Fbool", "f": "Ff", "d": "Fd"}
SINGLE = set("Bb?")


def fmt_fields(node):
    """like fmt_chars, but also accepts '<N>s' fields: returns fch names and ('s', N) tuples"""
    import re as _re
    if not (isinstance(node, ast.Constant) and isinstance(node.value, str)):
        fail(node, "struct format is not a literal")
    s = node.value
    if "s" not in s:
        return fmt_chars(node)
    if s[:1] not in (">", "!"):
        fail(node, "bytes field without an explicit byte order")
    out = []
    for m in _re.finditer(r"(\d+)s|(.)", s[1:]):
        if m.group(1):
            out.append(("s", int(m.group(1))))
        elif m.group(2) in FCH:
            out.append(FCH[m.group(2)])
        else:
            fail(node, "unsupported struct format")
    return out


def raw_bytes(n, cx):
    """an expression that IS bytes (no error possible) -> Coq term of type list byte"""
    if isinstance(n, ast.Name) and (n.id in cx.bytes or n.id in cx.blocals):
        return n.id
    if isinstance(n, ast.Attribute) and n.attr == "value" and isinstance(n.value, ast.Name) and n.value.id in cx.enum_locals:
        return n.value.id
    d = dotted(n) if isinstance(n, ast.Attribute) else None
    if d in cx.attrs and cx.attrs[d][0] == "bytes":
        return cx.attrs[d][1]
    fail(n, "bytes value")


def fmt_chars(node):
    """a struct format literal -> list of fch constructors (big-endian / network order, or
    single-byte fields only when there is no byte-order prefix)"""
    if not (isinstance(node, ast.Constant) and isinstance(node.value, str)):
        fail(node, "struct format is not a literal")
    s = node.value
    if s[:1] in (">", "!"):
        body = s[1:]
    else:
        body = s
        if any(c not in SINGLE for c in body):
            fail(node, "native byte order with a multi-byte field")
    if not body or any(c not in FCH for c in body):
        fail(node, "unsupported struct format")
    return [FCH[c] for c in body]


class Cx:
    def __init__(self, ints, bytes_=(), attrs=None, mod_consts=None, cls_consts=None, funcs=None):
        self.ints = set(ints)            # integer locals / parameters
        self.bytes = set(bytes_)         # bytes parameters
        self.attrs = attrs if attrs is not None else {}         # dotted attribute path -> (kind, coq name)
        self.mod_consts = mod_consts if mod_consts is not None else {}   # module-level NAME -> coq name
        self.cls_consts = cls_consts if cls_consts is not None else {}   # (Class, attr) -> coq name
        self.funcs = funcs or {}         # python function name -> coq name of a translated writer
        self.acc = None                  # name of the python accumulator ('stream' or a list variable)
        self.sized = {}                  # parameter standing for a container: len(<param>) -> coq variable
        self.int_writer = None           # coq name serialize_value(stream, <int expr>) dispatches to
        self.blocals = set()             # local variables holding bytes built by struct.pack
        self.enum_locals = set()         # local variables holding a bytes-valued enum member (x.value = the bytes)
        self.enum_bytes = {}             # (Class, MEMBER) -> coq name of the member's bytes value


def dotted(n):
    parts = []
    while isinstance(n, ast.Attribute):
        parts.append(n.attr)
        n = n.value
    if isinstance(n, ast.Name):
        parts.append(n.id)
        return ".".join(reversed(parts))
    return None


def iexpr(n, cx):
    if isinstance(n, ast.Constant):
        if isinstance(n.value, bool) or not isinstance(n.value, int):
            fail(n, "non-integer constant")
        return "(%d)" % n.value
    if isinstance(n, ast.Name):
        if n.id in cx.ints:
            return n.id
        if n.id in cx.mod_consts:
            return cx.mod_consts[n.id]
        fail(n, "unknown integer name")
    if isinstance(n, ast.Attribute):
        d = dotted(n)
        if d in cx.attrs and cx.attrs[d][0] == "int":
            return cx.attrs[d][1]
        if d and d.count(".") == 1 and tuple(d.split(".")) in cx.cls_consts:
            return cx.cls_consts[tuple(d.split("."))]
        fail(n, "unknown attribute")
    if isinstance(n, ast.UnaryOp) and isinstance(n.op, ast.USub):
        return "(- %s)" % iexpr(n.operand, cx)
    if isinstance(n, ast.BinOp):
        a, b = iexpr(n.left, cx), iexpr(n.right, cx)
        t = type(n.op)
        if t in BINOP:
            return "(%s %s %s)" % (a, BINOP[t], b)
        if t in FUNOP:
            return "(%s %s %s)" % (FUNOP[t], a, b)
        fail(n, "operator")
    if isinstance(n, ast.IfExp):
        return "(if %s then %s else %s)" % (bexpr(n.test, cx), iexpr(n.body, cx), iexpr(n.orelse, cx))
    if isinstance(n, ast.Call) and isinstance(n.func, ast.Name) and not n.keywords and len(n.args) == 1:
        if n.func.id == "abs":
            return "(Z.abs %s)" % iexpr(n.args[0], cx)
        if n.func.id == "len":
            a = n.args[0]
            if isinstance(a, ast.Name) and a.id in cx.bytes:
                return "(len %s)" % a.id
            if isinstance(a, ast.Name) and a.id in cx.sized:
                return cx.sized[a.id]
            fail(n, "len of a non-bytes value")
        if n.func.id == "WebSocketOpCode":
            # the enum conversion is left to the caller: the kernel returns the integer
            return iexpr(n.args[0], cx)
    fail(n, "integer expression")


def bexpr(n, cx):
    if isinstance(n, ast.Compare):
        if len(n.ops) != 1 or type(n.ops[0]) not in CMP:
            fail(n, "comparison")
        return "(%s %s %s)" % (iexpr(n.left, cx), CMP[type(n.ops[0])], iexpr(n.comparators[0], cx))
    if isinstance(n, ast.UnaryOp) and isinstance(n.op, ast.Not):
        return "(negb %s)" % bexpr(n.operand, cx)
    if isinstance(n, ast.BoolOp):
        op = "&&" if isinstance(n.op, ast.And) else "||"
        return "(" + (" %s " % op).join(bexpr(v, cx) for v in n.values) + ")"
    # truthiness of an integer
    return "(negb (%s =? 0))" % iexpr(n, cx)


def bytes_expr(n, cx):
    """an expression producing bytes -> Coq term of type res (list byte)"""
    if isinstance(n, ast.Call) and dotted(n.func) == "struct.pack" and not n.keywords:
        if not n.args:
            fail(n, "struct.pack without a format")
        fields = fmt_fields(n.args[0])
        if len(fields) != len(n.args) - 1:
            fail(n, "struct.pack: number of arguments")
        parts, run_f, run_a = [], [], []

        def flush():
            if run_f:
                parts.append("(spack [%s] [%s])" % ("; ".join(run_f), "; ".join(run_a)))
                del run_f[:], run_a[:]
        for fld, a in zip(fields, n.args[1:]):
            if isinstance(fld, tuple):          # ('s', N): a bytes field, padded / cut to N bytes
                flush()
                parts.append("(pack_s %d %s)" % (fld[1], raw_bytes(a, cx)))
            else:
                run_f.append(fld)
                run_a.append(iexpr(a, cx))
        flush()
        if len(parts) == 1:
            return parts[0]
        names = ["p%d" % i for i in range(len(parts))]
        body = "(Ok (%s))" % " ++ ".join(names)
        for nm, pt in reversed(list(zip(names, parts))):
            body = "(do %s <- %s; %s)" % (nm, pt, body)
        return body
    if isinstance(n, ast.Name) and n.id in cx.blocals:
        return "(Ok %s)" % n.id
    if isinstance(n, ast.Name) and n.id in cx.bytes:
        return "(Ok %s)" % n.id
    if isinstance(n, ast.Attribute):
        d = dotted(n)
        if d in cx.attrs and cx.attrs[d][0] == "bytes":
            return "(Ok %s)" % cx.attrs[d][1]
    fail(n, "bytes expression")


def is_docstring(s):
    return isinstance(s, ast.Expr) and isinstance(s.value, ast.Constant) and isinstance(s.value.value, str)


def stmts(body, cx, fin):
    """body: remaining statements; fin: Coq term for 'fell off the end'.  The bytes written so
    far are the Coq variable out."""
    if not body:
        return fin
    s, rest = body[0], body[1:]
    if is_docstring(s) or isinstance(s, ast.Pass):
        return stmts(rest, cx, fin)
    if isinstance(s, ast.Assign) and len(s.targets) == 1 and isinstance(s.targets[0], ast.Name):
        nm = s.targets[0].id
        if isinstance(s.value, ast.List) and not s.value.elts:
            # hdr = []  : the accumulator of a join-at-the-end writer
            if cx.acc is not None:
                fail(s, "second accumulator")
            cx.acc = nm
            return "(let out := @nil byte in %s)" % stmts(rest, cx, fin)
        if nm == cx.acc or nm in cx.bytes:
            fail(s, "assignment to the accumulator / a bytes value")
        v = s.value
        if isinstance(v, ast.IfExp) and all(isinstance(x, ast.Attribute) and dotted(x) and tuple(dotted(x).split(".")) in cx.enum_bytes
                                            for x in (v.body, v.orelse)):
            # ident = Enum.A if cond else Enum.B   (bytes-valued enum members; used through ident.value)
            if nm in cx.ints or nm in cx.blocals:
                fail(s, "re-assignment with another type")
            cx.enum_locals.add(nm)
            return "(let %s := (if %s then %s else %s) in %s)" % (
                nm, bexpr(v.test, cx), cx.enum_bytes[tuple(dotted(v.body).split("."))],
                cx.enum_bytes[tuple(dotted(v.orelse).split("."))], stmts(rest, cx, fin))
        if isinstance(v, ast.Call) and dotted(v.func) == "struct.pack":
            if nm in cx.ints or nm in cx.enum_locals:
                fail(s, "re-assignment with another type")
            b = bytes_expr(v, cx)
            cx.blocals.add(nm)
            return "(do %s <- %s; %s)" % (nm, b, stmts(rest, cx, fin))
        if nm in cx.blocals or nm in cx.enum_locals:
            fail(s, "re-assignment with another type")
        e = iexpr(s.value, cx)
        cx.ints.add(nm)
        return "(let %s := %s in %s)" % (nm, e, stmts(rest, cx, fin))
    if isinstance(s, ast.AugAssign) and isinstance(s.target, ast.Name) and s.target.id in cx.blocals \
            and isinstance(s.op, ast.Add):
        nm = s.target.id
        return "(do w <- %s; let %s := %s ++ w in %s)" % (bytes_expr(s.value, cx), nm, nm, stmts(rest, cx, fin))
    if isinstance(s, ast.AugAssign) and isinstance(s.target, ast.Name) and s.target.id in cx.ints:
        fake = ast.BinOp(left=ast.Name(id=s.target.id, ctx=ast.Load()), op=s.op, right=s.value)
        return "(let %s := %s in %s)" % (s.target.id, iexpr(fake, cx), stmts(rest, cx, fin))
    if isinstance(s, ast.Expr) and isinstance(s.value, ast.Call):
        c = s.value
        d = dotted(c.func)
        if cx.acc and d in (cx.acc + ".write", cx.acc + ".append") and len(c.args) == 1 and not c.keywords:
            return "(do w <- %s; let out := out ++ w in %s)" % (bytes_expr(c.args[0], cx), stmts(rest, cx, fin))
        if isinstance(c.func, ast.Name) and c.func.id in cx.funcs and len(c.args) == 2 and not c.keywords \
                and isinstance(c.args[0], ast.Name) and c.args[0].id == cx.acc:
            return "(do w <- %s %s; let out := out ++ w in %s)" % (cx.funcs[c.func.id], iexpr(c.args[1], cx),
                                                                  stmts(rest, cx, fin))
        if isinstance(c.func, ast.Name) and c.func.id == "serialize_value" and cx.int_writer and len(c.args) == 2 \
                and not c.keywords and isinstance(c.args[0], ast.Name) and c.args[0].id == cx.acc:
            # an int argument: serialize_types[int] (checked by the caller) under serialize_value's struct.error -> ValueError
            return "(do w <- wrap_struct (%s %s); let out := out ++ w in %s)" % (cx.int_writer, iexpr(c.args[1], cx),
                                                                                stmts(rest, cx, fin))
        fail(s, "call statement")
    if isinstance(s, ast.If):
        c = bexpr(s.test, cx)
        saved = set(cx.ints)
        a = stmts(list(s.body) + rest, cx, fin)
        cx.ints = set(saved)
        b = stmts(list(s.orelse) + rest, cx, fin)
        cx.ints = saved
        return "(if %s then %s else %s)" % (c, a, b)
    if isinstance(s, ast.Return):
        v = s.value
        if v is None:
            return fin
        if isinstance(v, ast.Call) and isinstance(v.func, ast.Attribute) and v.func.attr == "join" \
                and isinstance(v.func.value, ast.Constant) and v.func.value.value == b"" \
                and len(v.args) == 1 and isinstance(v.args[0], ast.Name) and v.args[0].id == cx.acc:
            return "(Ok out)"
        if isinstance(v, ast.Name) and v.id in cx.blocals:
            return "(Ok %s)" % v.id
        if cx.acc is None or cx.acc == "stream":
            return bytes_expr(v, cx)
        fail(s, "return")
    if isinstance(s, ast.Raise):
        e = s.exc
        nm = e.func.id if isinstance(e, ast.Call) and isinstance(e.func, ast.Name) else (e.id if isinstance(e, ast.Name) else None)
        if nm in EXC:
            return "(Err %s)" % EXC[nm]
        fail(s, "raise")
    fail(s, "statement")


def find(body, kind, name):
    for n in body:
        if isinstance(n, kind) and getattr(n, "name", None) == name:
            return n
    raise Untranslatable("%s %s not found" % (kind.__name__, name))


def argnames(f):
    a = f.args
    if a.vararg or a.kwonlyargs or a.defaults or a.kw_defaults:
        fail(f, "signature")
    return [x.arg for x in a.args], (a.kwarg.arg if a.kwarg else None)


# ------------------------------------------------------------------ serializable.py

READ_FUNCS = {"deserialize_string": 1, "deserialize_bytes": 2, "deserialize_map": 3,
              "deserialize_seq": 4, "deserialize_set": 5}


def translate_ser(path):
    mod = ast.parse(open(path, encoding="utf-8").read())
    out = []
    mod_consts, cls_consts = {}, {}
    cx0 = Cx([], mod_consts=mod_consts, cls_consts=cls_consts)
    for need in ("MAX_BYTES_LENGTH", "MAX_ARRAY_LENGTH"):
        hit = [s for s in mod.body if isinstance(s, ast.Assign) and len(s.targets) == 1
               and isinstance(s.targets[0], ast.Name) and s.targets[0].id == need]
        if len(hit) != 1:
            raise Untranslatable("%s: expected exactly one module-level assignment" % need)
        out.append("Definition gen_ser_%s : Z := %s." % (need, iexpr(hit[0].value, cx0)))
        mod_consts[need] = "gen_ser_%s" % need
    sbt = find(mod.body, ast.ClassDef, "SerializableBaseTypes")
    seen = set()
    for s in sbt.body:
        if is_docstring(s):
            continue
        if not (isinstance(s, ast.Assign) and len(s.targets) == 1 and isinstance(s.targets[0], ast.Name)):
            fail(s, "SerializableBaseTypes member")
        nm = s.targets[0].id
        if nm in seen:
            fail(s, "SerializableBaseTypes member assigned twice")
        seen.add(nm)
        out.append("Definition gen_SBT_%s : Z := %s." % (nm, iexpr(s.value, cx0)))
        cls_consts[("SerializableBaseTypes", nm)] = "gen_SBT_%s" % nm

    def writer(name, coq, value_kind):
        f = find(mod.body, ast.FunctionDef, name)
        args, kw = argnames(f)
        if args != ["stream", "value"] or kw:
            fail(f, "signature of %s" % name)
        cx = Cx(["value"] if value_kind == "int" else [], ["value"] if value_kind == "bytes" else [],
                mod_consts=mod_consts, cls_consts=cls_consts,
                funcs={"serialize_int": "gen_serialize_int"} if name != "serialize_int" else {})
        cx.acc = "stream"
        body = stmts(f.body, cx, "(Ok out)")
        ty = "Z" if value_kind == "int" else "list byte"
        out.append("Definition %s (value : %s) : res (list byte) := (let out := @nil byte in %s)." % (coq, ty, body))

    writer("serialize_bool", "gen_serialize_bool", "int")
    writer("serialize_int", "gen_serialize_int", "int")
    writer("serialize_null", "gen_serialize_null", "int")
    writer("serialize_bytes", "gen_serialize_bytes", "bytes")

    # serialize_value(stream, <int>) -> serialize_types[int](stream, <int>) with struct.error turned into ValueError:
    # check the two facts the container-header kernels rely on
    st = [s for s in mod.body if isinstance(s, ast.Assign) and len(s.targets) == 1 and isinstance(s.targets[0], ast.Name)
          and s.targets[0].id == "serialize_types" and isinstance(s.value, ast.Dict)]
    if len(st) != 1:
        raise Untranslatable("serialize_types: expected exactly one dict literal")
    intmap = [v for k, v in zip(st[0].value.keys, st[0].value.values) if isinstance(k, ast.Name) and k.id == "int"]
    if len(intmap) != 1 or not (isinstance(intmap[0], ast.Name) and intmap[0].id == "serialize_int"):
        raise Untranslatable("serialize_types[int] is not serialize_int")
    sv = find(mod.body, ast.FunctionDef, "serialize_value")
    hs = [h for n in ast.walk(sv) if isinstance(n, ast.Try) for h in n.handlers]
    if not any(dotted(h.type) == "struct.error" for h in hs if h.type is not None) or \
            not any(isinstance(n, ast.Call) and isinstance(n.func, ast.Name) and n.func.id == "ValueError" for n in ast.walk(sv)):
        raise Untranslatable("serialize_value no longer turns struct.error into ValueError")

    # container writers: everything before the element loop, as a function of len(value)
    for name in ("serialize_map", "serialize_seq", "serialize_set"):
        f = find(mod.body, ast.FunctionDef, name)
        args, kw = argnames(f)
        if args != ["stream", "value"] or kw:
            fail(f, "signature of %s" % name)
        body = [s for s in f.body if not is_docstring(s)]
        loops = [i for i, s in enumerate(body) if isinstance(s, ast.For)]
        if len(loops) != 1 or loops[0] != len(body) - 1:
            fail(f, "%s: expected the element loop as the last statement" % name)
        cx = Cx([], mod_consts=mod_consts, cls_consts=cls_consts)
        cx.acc = "stream"
        cx.sized = {"value": "n"}
        cx.int_writer = "gen_serialize_int"
        out.append("Definition gen_%s_header (n : Z) : res (list byte) := (let out := @nil byte in %s)." %
                   (name, stmts(body[:-1], cx, "(Ok out)")))

    # decoder length guards: length = deserialize_value(...); if <test on length>: raise ...; ...
    for name in ("deserialize_string", "deserialize_bytes", "deserialize_map", "deserialize_seq", "deserialize_set"):
        f = find(mod.body, ast.FunctionDef, name)
        args, kw = argnames(f)
        if args != ["stream"] or kw != "kwargs":
            fail(f, "signature of %s" % name)
        body = [s for s in f.body if not is_docstring(s)]
        s0 = body[0]
        if not (isinstance(s0, ast.Assign) and len(s0.targets) == 1 and isinstance(s0.targets[0], ast.Name)
                and s0.targets[0].id == "length" and isinstance(s0.value, ast.Call)
                and isinstance(s0.value.func, ast.Name) and s0.value.func.id == "deserialize_value"):
            fail(s0, "%s: first statement is not length = deserialize_value(...)" % name)
        guards = []
        for s in body[1:]:
            if isinstance(s, ast.If) and not s.orelse and len(s.body) == 1 and isinstance(s.body[0], ast.Raise):
                guards.append(s)
            else:
                break
        rest_names = {n.id for s in body[1 + len(guards):] for n in ast.walk(s) if isinstance(n, ast.Name)}
        if not guards:
            fail(f, "%s: no length guard" % name)
        for s in body[1 + len(guards):]:
            for n in ast.walk(s):
                if isinstance(n, (ast.Raise, ast.If)) and name != "deserialize_seq":
                    fail(n, "%s: a check after the guards" % name)
        cx = Cx(["length"], mod_consts=mod_consts, cls_consts=cls_consts)
        term = "(Ok length)"
        for g in reversed(guards):
            tst = g.test
            # not isinstance(length, int)  ->  negb is_int
            if isinstance(tst, ast.UnaryOp) and isinstance(tst.op, ast.Not) and isinstance(tst.operand, ast.Call) \
                    and isinstance(tst.operand.func, ast.Name) and tst.operand.func.id == "isinstance" \
                    and len(tst.operand.args) == 2 and isinstance(tst.operand.args[0], ast.Name) \
                    and tst.operand.args[0].id == "length" and isinstance(tst.operand.args[1], ast.Name) \
                    and tst.operand.args[1].id == "int":
                c = "(negb is_int)"
            else:
                c = bexpr(tst, cx)
            e = g.body[0].exc
            nm = e.func.id if isinstance(e, ast.Call) and isinstance(e.func, ast.Name) else None
            if nm not in EXC:
                fail(g, "raise in a length guard")
            term = "(if %s then (Err %s) else %s)" % (c, EXC[nm], term)
        out.append("Definition gen_%s_guard (is_int : bool) (length : Z) : res Z := %s." % (name, term))

    # the scalar reader lambdas
    readers = {}
    for s in mod.body:
        if isinstance(s, ast.Assign) and len(s.targets) == 1 and isinstance(s.targets[0], ast.Name) \
                and s.targets[0].id.startswith("deserialize_") and isinstance(s.value, ast.Lambda):
            nm = s.targets[0].id
            lam = s.value
            la, lkw = argnames(lam)
            if la != ["stream"] or lkw != "kwargs":
                fail(s, "reader lambda signature")
            b = lam.body
            if isinstance(b, ast.Constant) and b.value is None:
                readers[nm] = "RNull"
                continue
            # struct.unpack(FMT, stream.read(N))[0]
            ok = isinstance(b, ast.Subscript) and isinstance(b.slice, ast.Constant) and b.slice.value == 0 \
                and isinstance(b.value, ast.Call) and dotted(b.value.func) == "struct.unpack" \
                and len(b.value.args) == 2 and not b.value.keywords
            if not ok:
                fail(s, "reader lambda body")
            f = fmt_chars(b.value.args[0])
            rd = b.value.args[1]
            if len(f) != 1 or not (isinstance(rd, ast.Call) and dotted(rd.func) == "stream.read"
                                   and len(rd.args) == 1 and not rd.keywords):
                fail(s, "reader lambda body")
            readers[nm] = "RUnpack %s %s" % (f[0], iexpr(rd.args[0], cx0))
    items = []
    lits = [s for s in mod.body if isinstance(s, ast.Assign) and len(s.targets) == 1
            and isinstance(s.targets[0], ast.Name) and s.targets[0].id == "deserialize_types"]
    if len(lits) != 1 or not isinstance(lits[0].value, ast.Dict):
        raise Untranslatable("deserialize_types: expected exactly one dict literal")

    def rd_of(v):
        if isinstance(v, ast.Name) and v.id in readers:
            return "(%s)" % readers[v.id]
        if isinstance(v, ast.Name) and v.id in READ_FUNCS:
            find(mod.body, ast.FunctionDef, v.id)
            return "(RFunc %d)" % READ_FUNCS[v.id]
        fail(v, "deserialize_types value")
    for k, v in zip(lits[0].value.keys, lits[0].value.values):
        items.append("(%s, %s)" % (iexpr(k, cx0), rd_of(v)))
    for s in mod.body:
        # any other top-level statement that touches deserialize_types must be a subscript assignment
        if s is lits[0]:
            continue
        names = {n.id for n in ast.walk(s) if isinstance(n, ast.Name)} if not isinstance(s, (ast.FunctionDef, ast.ClassDef)) else set()
        if "deserialize_types" not in names:
            continue
        if isinstance(s, ast.Assign) and len(s.targets) == 1 and isinstance(s.targets[0], ast.Subscript) \
                and isinstance(s.targets[0].value, ast.Name) and s.targets[0].value.id == "deserialize_types":
            items.append("(%s, %s)" % (iexpr(s.targets[0].slice, cx0), rd_of(s.value)))
        else:
            fail(s, "unexpected top-level use of deserialize_types")
    out.append("Definition gen_deserialize_types_items : list (Z * reader) := [%s]." % "; ".join(items))
    out.append("Definition gen_deserialize_types : list (Z * reader) := dict_of_items gen_deserialize_types_items.")
    return out


# ------------------------------------------------------------------ http_server.py (WebSocketFrame)

WS_ATTRS = {
    "self.flags.fin": ("int", "fin"), "self.flags.rsv1": ("int", "rsv1"), "self.flags.rsv2": ("int", "rsv2"),
    "self.flags.rsv3": ("int", "rsv3"), "self.flags.opcode.value": ("int", "opcode_value"),
    "self.flags.mask": ("int", "mask"), "self.payload_length": ("int", "payload_length"),
    "self.masking_key": ("bytes", "masking_key"),
}


def translate_ws(path):
    mod = ast.parse(open(path, encoding="utf-8").read())
    ws = find(mod.body, ast.ClassDef, "WebSocketFrame")
    out = []
    f = find(ws.body, ast.FunctionDef, "serializeHeader")
    if argnames(f) != (["self"], None):
        fail(f, "signature")
    cx = Cx([], attrs=WS_ATTRS)
    out.append("Definition gen_ws_serializeHeader (fin rsv1 rsv2 rsv3 opcode_value mask payload_length : Z) "
               ": res (list byte) := %s." % stmts(f.body, cx, "(Err EOther)"))
    f = find(ws.body, ast.FunctionDef, "serializeDataHeader")
    if argnames(f) != (["self"], None):
        fail(f, "signature")
    cx = Cx([], attrs=WS_ATTRS)
    out.append("Definition gen_ws_serializeDataHeader (mask payload_length : Z) (masking_key : list byte) "
               ": res (list byte) := %s." % stmts(f.body, cx, "(Err EOther)"))
    # parseHeader: flags, length = struct.unpack("!BB", hdr); then self.flags.<x> = <int expr>
    f = find(ws.body, ast.FunctionDef, "parseHeader")
    if argnames(f) != (["self", "hdr"], None):
        fail(f, "signature")
    body = [s for s in f.body if not is_docstring(s)]
    s0 = body[0]
    ok = isinstance(s0, ast.Assign) and len(s0.targets) == 1 and isinstance(s0.targets[0], ast.Tuple) \
        and [getattr(e, "id", None) for e in s0.targets[0].elts] == ["flags", "length"] \
        and isinstance(s0.value, ast.Call) and dotted(s0.value.func) == "struct.unpack" \
        and len(s0.value.args) == 2 and isinstance(s0.value.args[1], ast.Name) and s0.value.args[1].id == "hdr" \
        and fmt_chars(s0.value.args[0]) == ["FB", "FB"]
    if not ok:
        fail(s0, "parseHeader: first statement")
    cx = Cx(["flags", "length"])
    order = ["fin", "rsv1", "rsv2", "rsv3", "opcode", "mask", "length"]
    got = {}
    for s in body[1:]:
        if not (isinstance(s, ast.Assign) and len(s.targets) == 1):
            fail(s, "parseHeader statement")
        d = dotted(s.targets[0])
        if not d or not d.startswith("self.flags.") or d[len("self.flags."):] not in order:
            fail(s, "parseHeader target")
        k = d[len("self.flags."):]
        if k in got:
            fail(s, "parseHeader assigns a flag twice")
        got[k] = iexpr(s.value, cx)
    miss = [o for o in order if o not in got]
    if miss:
        raise Untranslatable("parseHeader does not assign %s" % miss)
    out.append("Definition gen_ws_parseHeader (flags length : Z) : Z * Z * Z * Z * Z * Z * Z := (%s)." %
               ", ".join(got[o] for o in order))
    return out


# ------------------------------------------------------------------ connection.py (PacketHeader.to_bytes)

HDR_ATTRS = {
    "self.isServer": ("int", "isServer"), "self.ctime": ("int", "ctime"), "self.seq": ("int", "seq"),
    "self.ack": ("int", "ack"), "self.pkt_type.value": ("int", "pkt_type_value"), "self.length": ("int", "length"),
    "self.count": ("int", "count"), "self.ack_bits": ("int", "ack_bits"),
}


def translate_hdr(path):
    mod = ast.parse(open(path, encoding="utf-8").read())
    out = []
    enum_bytes = {}
    pi = find(mod.body, ast.ClassDef, "PacketIdentifier")
    for s in pi.body:
        if is_docstring(s):
            continue
        if not (isinstance(s, ast.Assign) and len(s.targets) == 1 and isinstance(s.targets[0], ast.Name)
                and isinstance(s.value, ast.Constant) and isinstance(s.value.value, bytes)):
            fail(s, "PacketIdentifier member")
        nm = s.targets[0].id
        out.append("Definition gen_PacketIdentifier_%s : list byte := map byte_of_Z [%s]." % (nm, "; ".join(str(b) for b in s.value.value)))
        enum_bytes[("PacketIdentifier", nm)] = "gen_PacketIdentifier_%s" % nm
    pt = find(mod.body, ast.ClassDef, "PacketType")
    cx0 = Cx([])
    members = []
    for s in pt.body:
        if is_docstring(s):
            continue
        if not (isinstance(s, ast.Assign) and len(s.targets) == 1 and isinstance(s.targets[0], ast.Name)):
            fail(s, "PacketType member")
        nm = s.targets[0].id
        out.append("Definition gen_PacketType_%s : Z := %s." % (nm, iexpr(s.value, cx0)))
        members.append("gen_PacketType_%s" % nm)
    out.append("Definition gen_PacketType_members : list Z := [%s]." % "; ".join(members))
    ph = find(mod.body, ast.ClassDef, "PacketHeader")
    f = find(ph.body, ast.FunctionDef, "to_bytes")
    if argnames(f) != (["self"], None):
        fail(f, "signature")
    cx = Cx([], attrs=HDR_ATTRS)
    cx.enum_bytes = enum_bytes
    body = stmts(f.body, cx, "(Err EOther)")
    out.append("Definition gen_PacketHeader_to_bytes (isServer ctime seq ack pkt_type_value length count ack_bits : Z) "
               ": res (list byte) := %s." % body)
    return out


HEAD = ("(* GENERATED by tools/py2v_bytes.py from mpgameserver/%s — do not edit. *)\n"
        "From Model Require Import Base StructPack.\nOpen Scope Z_scope.\n\n")


def emit(dst, srcname, fn, path):
    try:
        defs = fn(path)
        text = HEAD % srcname + "\n".join(defs) + "\n"
        rc = 0
        msg = "py2v_bytes: %d definitions -> %s" % (len(defs), dst)
    except (Untranslatable, SyntaxError, OSError, IndexError) as e:
        text = HEAD % srcname + "UNTRANSLATABLE (* %s *).\n" % str(e).replace("*)", "* )")
        rc = 2
        msg = "py2v_bytes: UNTRANSLATABLE %s: %s" % (srcname, e)
    old = open(dst).read() if os.path.exists(dst) else None
    if rc and old is not None and "UNTRANSLATABLE" not in old:
        print(msg + " (previous %s kept)" % os.path.basename(dst))
        return rc
    if old != text:
        with open(dst, "w") as fh:
            fh.write(text)
    print(msg)
    return rc


def main():
    src = sys.argv[1] if len(sys.argv) > 1 else "/repo/mpgameserver"
    gen = sys.argv[2] if len(sys.argv) > 2 else os.path.join(os.path.dirname(os.path.abspath(__file__)), "..", "coq", "Gen")
    rc1 = emit(os.path.join(gen, "SerKernels.v"), "serializable.py", translate_ser, os.path.join(src, "serializable.py"))
    rc2 = emit(os.path.join(gen, "WsKernels.v"), "http_server.py", translate_ws, os.path.join(src, "http_server.py"))
    rc3 = emit(os.path.join(gen, "HdrKernels.v"), "connection.py", translate_hdr, os.path.join(src, "connection.py"))
    # exit status: 0 ok, else 2 + bit 0 (serializable.py) + bit 1 (http_server.py) + bit 2 (connection.py)
    sys.exit(0 if not (rc1 or rc2 or rc3) else (2 + (1 if rc1 else 0) + (2 if rc2 else 0) + (4 if rc3 else 0)))


if __name__ == "__main__":
    main()
