#!/venv/bin/python
"""seedtest.py <Cxx> [<name>] [--checks C01,C02] — evaluate a seeded change produced in /tmp/seeds/<Cxx>:
   (1) the 89 tests pass with it, (2) the demonstration fails with it and passes on /repo,
   (3) apply it to /repo, run the registered quick check(s), undo it straight afterwards,
   (4) store patch.diff, the demonstration and meta.json under /verif/seeded/<name>/."""
import sys, os, subprocess, json, shutil
pid = sys.argv[1]          # directory name under /tmp/seeds, e.g. C05 or C05b
prop = pid[:3]
name = pid
checks = [prop]
args = sys.argv[2:]
i = 0
while i < len(args):
    if args[i] == "--checks":
        checks = args[i + 1].split(","); i += 2
    else:
        name = args[i]; i += 1
wt = "/tmp/seeds/%s" % pid
demo = "/tmp/seeds/%s_demo.py" % pid
meta_p = "/tmp/seeds/%s_meta.json" % pid


def sh(cmd, **kw):
    return subprocess.run(cmd, shell=True, capture_output=True, text=True, **kw)


diff = subprocess.run(["git", "-C", wt, "diff"], capture_output=True).stdout
if not diff.strip():
    print("no change in", wt); sys.exit(2)
r = sh("cd %s && /venv/bin/python -m pytest -q -p no:cacheprovider --timeout=900 2>&1 | tail -1" % wt)
tests = r.stdout.strip()
d1 = sh("/venv/bin/python %s %s" % (demo, wt), timeout=600)
d0 = sh("/venv/bin/python %s /repo" % demo, timeout=600)
print("tests:", tests)
print("demo on seeded tree: exit", d1.returncode, "| on /repo: exit", d0.returncode)
ok_seed = ("89 passed" in tests) and d1.returncode == 1 and d0.returncode == 0
assert sh("git -C /repo status --porcelain").stdout.strip() == "", "/repo not clean"
results = {}
try:
    p = subprocess.run(["git", "-C", "/repo", "apply", "--whitespace=nowarn", "-"], input=diff, capture_output=True)
    if p.returncode != 0:
        print("patch does not apply to /repo:", p.stderr.decode()[:300]); sys.exit(2)
    for c in checks:
        r = sh("cd /verif && ./check %s 2>&1 | grep -E 'VIOLATION|KNOWN|-> ' | cut -c1-400" % c, timeout=3000)
        out = r.stdout.strip()
        print(out)
        viol = [l for l in out.split("\n") if l.startswith("VIOLATION")]
        results[c] = {"caught": bool(viol), "line": viol[0] if viol else "", "summary": out.split("\n")[-1][:300]}
        if viol:
            rp = viol[0].split("replay=")[1].split()[0]
            try:
                rd = json.load(open(rp))
                results[c]["first_failure"] = json.dumps(rd.get("failure") or rd.get("no_longer_checks"))[:600]
            except Exception:
                pass
finally:
    subprocess.run(["git", "-C", "/repo", "checkout", "--", "."])
assert sh("git -C /repo status --porcelain").stdout.strip() == ""
out = "/verif/seeded/%s" % name
os.makedirs(out, exist_ok=True)
open(os.path.join(out, "patch.diff"), "wb").write(diff)
shutil.copy(demo, os.path.join(out, "demo.py"))
meta = {}
try:
    meta = json.load(open(meta_p))
except Exception:
    pass
meta.update({"breaks_property": prop, "confirmed": {"tests_with_change": tests, "demo_exit_with_change": d1.returncode,
                                                   "demo_exit_on_repo": d0.returncode, "valid_seed": ok_seed},
             "what_i_ran": ["pytest in the scratch worktree", "demo.py <scratch worktree> / demo.py /repo",
                            "git -C /repo apply patch.diff ; ./check <id> ; git -C /repo checkout -- ."],
             "checks": results})
json.dump(meta, open(os.path.join(out, "meta.json"), "w"), indent=1)
print("valid seed:", ok_seed, "| caught by:", [c for c in results if results[c]["caught"]])
