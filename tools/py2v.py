#!/usr/bin/env python3
"""py2v.py — fail-closed translator of the pure integer kernels of
mpgameserver/connection.py into Gallina (coq/Gen/Kernels.v).

Kernels: SeqNum.__new__/__add__/__sub__/diff, BitField.insert/contains,
Packet.overhead, Packet.setMTU and the class-level integer constants of
SeqNum, PacketHeader and Packet.

Subset: integer expressions (+ - * // % ** << >> & |, comparisons, and/or/not),
assignments to locals / self attributes / Packet class attributes, augmented
assignments, if/elif/else, return, raise.  Anything else raises Untranslatable and the
script exits 2 (the caller treats that as a broken model/code tie).
"""
import ast, sys, os, re

class Untranslatable(Exception):
    pass

EXC = {"ValueError": "EValue", "TypeError": "EType", "DuplicationError": "EDup",
       "PacketError": "EPacket"}

BINOP = {ast.Add: "+", ast.Sub: "-", ast.Mult: "*", ast.FloorDiv: "/", ast.Mod: "mod",
         ast.Pow: "^"}
FUNOP = {ast.LShift: "Z.shiftl", ast.RShift: "Z.shiftr", ast.BitAnd: "Z.land", ast.BitOr: "Z.lor"}
CMP = {ast.Lt: "<?", ast.LtE: "<=?", ast.Gt: ">?", ast.GtE: ">=?", ast.Eq: "=?"}


def fail(node, why):
    raise Untranslatable("line %s: %s: %s" % (getattr(node, "lineno", "?"), why, ast.dump(node)[:200]))


class Ctx:
    """name resolution for one function"""
    def __init__(self, cls, consts, selfattrs=None, derived=None, calls=None):
        self.cls = cls              # class name
        self.consts = consts        # {(cls, name)} known class constants
        self.selfattrs = selfattrs or {}   # self.<attr> -> coq variable
        self.derived = derived or {}       # self.<attr> -> ast expression (from __init__)
        self.calls = calls or {}
        self.assigned_cls = {}      # Packet.X assigned in this function -> coq var


def expr(n, cx, boolean=False):
    """translate an integer (or boolean when boolean=True) expression"""
    if boolean:
        return bexpr(n, cx)
    if isinstance(n, ast.Constant):
        if isinstance(n.value, bool) or not isinstance(n.value, int):
            fail(n, "non-integer constant")
        return "(%d)" % n.value
    if isinstance(n, ast.Name):
        if (cx.cls, n.id) in cx.consts and n.id not in cx.selfattrs.values():
            return "gen_%s_%s" % (cx.cls, n.id.strip("_"))
        return n.id
    if isinstance(n, ast.UnaryOp) and isinstance(n.op, ast.USub):
        return "(- %s)" % expr(n.operand, cx)
    if isinstance(n, ast.BinOp):
        a, b = expr(n.left, cx), expr(n.right, cx)
        t = type(n.op)
        if t in BINOP:
            return "(%s %s %s)" % (a, BINOP[t], b)
        if t in FUNOP:
            return "(%s %s %s)" % (FUNOP[t], a, b)
        fail(n, "operator")
    if isinstance(n, ast.Attribute):
        v = n.value
        if isinstance(v, ast.Name) and v.id in ("self", "cls"):
            if n.attr in cx.selfattrs:
                return cx.selfattrs[n.attr]
            if n.attr in cx.derived:
                return expr(cx.derived[n.attr], cx)
            if (cx.cls, n.attr) in cx.consts:
                return "gen_%s_%s" % (cx.cls, n.attr.strip("_"))
            fail(n, "unknown self attribute")
        if isinstance(v, ast.Name) and (v.id, n.attr) in cx.consts:
            if v.id == cx.cls and n.attr in cx.assigned_cls:
                return cx.assigned_cls[n.attr]
            return "gen_%s_%s" % (v.id, n.attr.strip("_"))
        if isinstance(v, ast.Name) and v.id == "crypto" and ("crypto", n.attr) in cx.consts:
            return "gen_crypto_%s" % n.attr
        fail(n, "attribute")
    if isinstance(n, ast.Call):
        f = n.func
        # int(x)
        if isinstance(f, ast.Name) and f.id == "int" and len(n.args) == 1:
            return expr(n.args[0], cx)
        # super().__add__(x) / super().__sub__(x): plain integer arithmetic on self
        if (isinstance(f, ast.Attribute) and isinstance(f.value, ast.Call)
                and isinstance(f.value.func, ast.Name) and f.value.func.id == "super"
                and f.attr in ("__add__", "__sub__") and len(n.args) == 1):
            op = "+" if f.attr == "__add__" else "-"
            return "(self %s %s)" % (op, expr(n.args[0], cx))
        # <seqnum expr>.diff(x)
        if isinstance(f, ast.Attribute) and f.attr == "diff" and len(n.args) == 1:
            return "(gen_diff %s %s)" % (expr(f.value, cx), expr(n.args[0], cx))
        fail(n, "call")
    fail(n, "expression")


def bexpr(n, cx):
    if isinstance(n, ast.Compare):
        if len(n.ops) == 1:
            op = type(n.ops[0])
            a, b = expr(n.left, cx), expr(n.comparators[0], cx)
            if op in CMP:
                return "(%s %s %s)" % (a, CMP[op], b)
            if op is ast.NotEq:
                return "(negb (%s =? %s))" % (a, b)
            fail(n, "comparison")
        # chained a <= b <= c
        parts = []
        left = n.left
        for o, r in zip(n.ops, n.comparators):
            parts.append(bexpr(ast.Compare(left=left, ops=[o], comparators=[r]), cx))
            left = r
        return "(" + " && ".join(parts) + ")"
    if isinstance(n, ast.BoolOp):
        op = " && " if isinstance(n.op, ast.And) else " || "
        return "(" + op.join(bexpr(v, cx) for v in n.values) + ")"
    if isinstance(n, ast.UnaryOp) and isinstance(n.op, ast.Not):
        return "(negb %s)" % bexpr(n.operand, cx)
    if isinstance(n, ast.Call):
        f = n.func
        # super().__lt__(x) / super().__gt__(x): plain integer comparison on self
        if (isinstance(f, ast.Attribute) and isinstance(f.value, ast.Call)
                and isinstance(f.value.func, ast.Name) and f.value.func.id == "super"
                and f.attr in ("__lt__", "__gt__") and len(n.args) == 1):
            return "(self %s %s)" % ("<?" if f.attr == "__lt__" else ">?", expr(n.args[0], cx))
        # isinstance(other, SeqNum): the model is typed, the argument is a SeqNum
        if (isinstance(f, ast.Name) and f.id == "isinstance" and len(n.args) == 2
                and isinstance(n.args[0], ast.Name) and isinstance(n.args[1], ast.Name)
                and n.args[1].id == "SeqNum"):
            return "true"
    # integer used as truth value (e.g. `mask & self.bits`)
    return "(negb (%s =? 0))" % expr(n, cx)


def is_doc(s):
    return isinstance(s, ast.Expr) and isinstance(s.value, ast.Constant) and isinstance(s.value.value, str)


def stmts(body, cx, final):
    """translate a statement list to a Coq term of type `res T`; `final` renders the
    fall-off-the-end result (None = falling off the end is untranslatable)"""
    if not body:
        if final is None:
            raise Untranslatable("function may fall off its end")
        return final(cx)
    s, rest = body[0], body[1:]
    if is_doc(s) or isinstance(s, ast.Pass):
        return stmts(rest, cx, final)
    if isinstance(s, ast.Return):
        if s.value is None:
            if final is None:
                fail(s, "bare return")
            return final(cx)
        v = s.value
        # return self.__class__(e)  /  return cls(e): constructor check
        if isinstance(v, ast.Call) and (
                (isinstance(v.func, ast.Attribute) and v.func.attr == "__class__")
                or (isinstance(v.func, ast.Name) and v.func.id == "cls")) and len(v.args) == 1:
            return "(gen_SeqNum_new %s)" % expr(v.args[0], cx)
        if isinstance(v, ast.Constant) and isinstance(v.value, bool):
            return "(Ok %s)" % ("true" if v.value else "false")
        if isinstance(v, (ast.Compare, ast.BoolOp)) or (
                isinstance(v, ast.Call) and isinstance(v.func, ast.Attribute)
                and v.func.attr in ("__lt__", "__gt__")):
            return "(Ok %s)" % bexpr(v, cx)
        return "(Ok %s)" % expr(v, cx)
    if isinstance(s, ast.Raise):
        e = s.exc
        name = e.func.id if isinstance(e, ast.Call) and isinstance(e.func, ast.Name) else (
            e.id if isinstance(e, ast.Name) else None)
        if name not in EXC:
            fail(s, "raise")
        return "(Err %s)" % EXC[name]
    if isinstance(s, (ast.Assign, ast.AugAssign)):
        if isinstance(s, ast.Assign):
            if len(s.targets) != 1:
                fail(s, "multiple targets")
            tgt, val = s.targets[0], s.value
        else:
            tgt = s.target
            val = ast.BinOp(left=tgt, op=s.op, right=s.value)
        rhs = expr(val, cx)
        if isinstance(tgt, ast.Name):
            var = tgt.id
        elif isinstance(tgt, ast.Attribute) and isinstance(tgt.value, ast.Name) and tgt.value.id == "self" \
                and tgt.attr in cx.selfattrs:
            var = cx.selfattrs[tgt.attr]
        elif isinstance(tgt, ast.Attribute) and isinstance(tgt.value, ast.Name) and tgt.value.id == cx.cls \
                and (cx.cls, tgt.attr) in cx.consts:
            var = "v_" + tgt.attr
            # the rhs was computed before the assignment takes effect
            out = "(let %s := %s in " % (var, rhs)
            cx.assigned_cls[tgt.attr] = var
            return out + stmts(rest, cx, final) + ")"
        else:
            fail(s, "assignment target")
        return "(let %s := %s in %s)" % (var, rhs, stmts(rest, cx, final))
    if isinstance(s, ast.If):
        c = bexpr(s.test, cx)
        saved = dict(cx.assigned_cls)
        a = stmts(list(s.body) + rest, cx, final)
        cx.assigned_cls = dict(saved)
        b = stmts(list(s.orelse) + rest, cx, final)
        # class-attribute assignments inside branches must be the same set on both sides
        return "(if %s then %s else %s)" % (c, a, b)
    fail(s, "statement")


def find_class(mod, name):
    for n in mod.body:
        if isinstance(n, ast.ClassDef) and n.name == name:
            return n
    raise Untranslatable("class %s not found" % name)


def find_func(cls, name):
    for n in cls.body:
        if isinstance(n, ast.FunctionDef) and n.name == name:
            return n
    raise Untranslatable("method %s.%s not found" % (cls.name, name))


def class_consts(cls, consts, out, cx_extra=None):
    """emit Definitions for integer class-level constants, in order"""
    for n in cls.body:
        tgt = val = None
        if isinstance(n, ast.Assign) and len(n.targets) == 1 and isinstance(n.targets[0], ast.Name):
            tgt, val = n.targets[0].id, n.value
        elif isinstance(n, ast.AnnAssign) and isinstance(n.target, ast.Name) and n.value is not None:
            tgt, val = n.target.id, n.value
        if tgt is None:
            continue
        cx = Ctx(cls.name, consts)
        try:
            e = expr(val, cx)
        except Untranslatable:
            continue   # non-integer class attribute (e.g. None, lists): not a kernel constant
        consts.add((cls.name, tgt))
        out.append("Definition gen_%s_%s : Z := %s." % (cls.name, tgt.strip("_"), e))


def translate(src_dir):
    conn = open(os.path.join(src_dir, "connection.py"), newline="").read().replace("\r\n", "\n")
    cry = open(os.path.join(src_dir, "crypto.py"), newline="").read().replace("\r\n", "\n")
    mod = ast.parse(conn)
    cmod = ast.parse(cry)
    out = []
    consts = set()
    # crypto.ENCRYPTION_TAG_LENGTH
    for n in cmod.body:
        if isinstance(n, ast.Assign) and len(n.targets) == 1 and isinstance(n.targets[0], ast.Name) \
                and n.targets[0].id == "ENCRYPTION_TAG_LENGTH":
            out.append("Definition gen_crypto_ENCRYPTION_TAG_LENGTH : Z := %s." % expr(n.value, Ctx("crypto", consts)))
            consts.add(("crypto", "ENCRYPTION_TAG_LENGTH"))
    if ("crypto", "ENCRYPTION_TAG_LENGTH") not in consts:
        raise Untranslatable("crypto.ENCRYPTION_TAG_LENGTH not found")

    seq = find_class(mod, "SeqNum")
    class_consts(seq, consts, out)
    for need in ("_max_sequence", "_threshold"):
        if ("SeqNum", need) not in consts:
            raise Untranslatable("SeqNum.%s missing" % need)

    # SeqNum.__new__(cls, value=None)
    f = find_func(seq, "__new__")
    if [a.arg for a in f.args.args] != ["cls", "value"]:
        fail(f, "signature")
    body = [s for s in f.body if not is_doc(s)]
    # expected shape: if value is None: value = 0 / elif ...: raise / elif ...: raise ; return super().__new__(cls, value)
    if not (len(body) == 2 and isinstance(body[0], ast.If) and isinstance(body[1], ast.Return)):
        fail(f, "__new__ shape")
    first = body[0]
    t = first.test
    if not (isinstance(t, ast.Compare) and isinstance(t.ops[0], ast.Is) and isinstance(t.left, ast.Name)
            and t.left.id == "value" and isinstance(t.comparators[0], ast.Constant) and t.comparators[0].value is None):
        fail(first, "__new__ None test")
    r = body[1].value
    if not (isinstance(r, ast.Call) and isinstance(r.func, ast.Attribute) and r.func.attr == "__new__"
            and len(r.args) == 2 and isinstance(r.args[1], ast.Name) and r.args[1].id == "value"):
        fail(body[1], "__new__ return")
    cx = Ctx("SeqNum", consts)
    checks = stmts(list(first.orelse), cx, lambda cx: "(Ok value)")
    out.append("Definition gen_SeqNum_new (value : Z) : res Z := %s." % checks)

    def method(cls, name, coqname, params, cx, final=None, rettype="Z"):
        f = find_func(cls, name)
        args = [a.arg for a in f.args.args]
        if args != params:
            fail(f, "signature %s" % args)
        if f.args.defaults and name not in ("__init__",):
            fail(f, "defaults")
        return f

    # diff first (used by others)
    f = method(seq, "diff", "gen_diff", ["self", "other"], None)
    cx = Ctx("SeqNum", consts)
    body = stmts(f.body, cx, None)
    out.append("Definition gen_diff_r (self other : Z) : res Z := %s." % body)
    out.append("Definition gen_diff (self other : Z) : Z := match gen_diff_r self other with Ok z => z | Err _ => 0 end.")
    for nm, cq in (("__add__", "gen_add"), ("__sub__", "gen_sub")):
        f = method(seq, nm, cq, ["self", "other"], None)
        out.append("Definition %s (self other : Z) : res Z := %s." % (cq, stmts(f.body, Ctx("SeqNum", consts), None)))
    for nm, cq in (("newer_than", "gen_newer_than"), ("__lt__", "gen_lt"), ("__gt__", "gen_gt")):
        f = method(seq, nm, cq, ["self", "other"], None)
        out.append("Definition %s (self other : Z) : res bool := %s." % (cq, stmts(f.body, Ctx("SeqNum", consts), None)))

    # BitField
    bf = find_class(mod, "BitField")
    init = find_func(bf, "__init__")
    derived = {}
    for s in init.body:
        if isinstance(s, ast.Assign) and len(s.targets) == 1 and isinstance(s.targets[0], ast.Attribute) \
                and isinstance(s.targets[0].value, ast.Name) and s.targets[0].value.id == "self":
            a = s.targets[0].attr
            if a in ("mask", "onehot"):
                derived[a] = s.value
            elif a == "bits":
                if not (isinstance(s.value, ast.Constant) and s.value.value == 0):
                    fail(s, "BitField.bits initial value")
            elif a == "nbits":
                if not (isinstance(s.value, ast.Name) and s.value.id == "nbits"):
                    fail(s, "BitField.nbits")
            elif a == "current_seqnum":
                if not (isinstance(s.value, ast.Call) and isinstance(s.value.func, ast.Name)
                        and s.value.func.id == "SeqNum" and not s.value.args):
                    fail(s, "BitField.current_seqnum initial value")
            else:
                fail(s, "unexpected BitField attribute")
    if "onehot" not in derived:
        raise Untranslatable("BitField.onehot missing")
    attrs = {"nbits": "nbits", "bits": "bits", "current_seqnum": "cur"}
    f = method(bf, "insert", "gen_insert", ["self", "seqnum"], None)
    cx = Ctx("BitField", consts, selfattrs=attrs, derived=derived)
    body = stmts(f.body, cx, lambda cx: "(Ok (bits, cur))")
    out.append("Definition gen_insert (nbits bits cur seqnum : Z) : res (Z * Z) := %s." % body)
    f = method(bf, "contains", "gen_contains", ["self", "seqnum"], None)
    cx = Ctx("BitField", consts, selfattrs=attrs, derived=derived)
    out.append("Definition gen_contains (nbits bits cur seqnum : Z) : res bool := %s." % stmts(f.body, cx, None))

    # PacketHeader / Packet constants
    ph = find_class(mod, "PacketHeader")
    class_consts(ph, consts, out)
    pk = find_class(mod, "Packet")
    class_consts(pk, consts, out)
    for need in ("MTU", "UDP_HEADER_SIZE", "MAX_SIZE", "MAX_SIZE_CRC", "MAX_PAYLOAD_SIZE",
                 "MAX_FRAGMENT_SIZE", "MAX_FRAGMENTS", "RECV_SIZE", "MESSAGE_OVERHEAD_1",
                 "MESSAGE_OVERHEAD_N", "FRAGMENT_OVERHEAD"):
        if ("Packet", need) not in consts:
            raise Untranslatable("Packet.%s missing" % need)
    f = find_func(pk, "overhead")
    if [a.arg for a in f.args.args] != ["n"]:
        fail(f, "signature")
    out.append("Definition gen_overhead (n : Z) : res Z := %s." % stmts(f.body, Ctx("Packet", consts), None))
    f = find_func(pk, "setMTU")
    if [a.arg for a in f.args.args] != ["mtu"]:
        fail(f, "signature")
    cx = Ctx("Packet", consts)
    order = ["MTU", "MAX_SIZE", "MAX_SIZE_CRC", "MAX_PAYLOAD_SIZE", "MAX_FRAGMENT_SIZE", "RECV_SIZE"]

    def fin(cx):
        miss = [o for o in order if o not in cx.assigned_cls]
        if miss:
            raise Untranslatable("setMTU does not assign %s on some path" % miss)
        return "(Ok (%s))" % ", ".join(cx.assigned_cls[o] for o in order)
    out.append("Definition gen_setMTU (mtu : Z) : res (Z * Z * Z * Z * Z * Z) := %s." % stmts(f.body, cx, fin))
    out.append("Definition gen_defaults : Z * Z * Z * Z * Z * Z := (%s)." %
               ", ".join("gen_Packet_%s" % o for o in order))
    return out


def main():
    src = sys.argv[1] if len(sys.argv) > 1 else "/repo/mpgameserver"
    dst = sys.argv[2] if len(sys.argv) > 2 else os.path.join(os.path.dirname(__file__), "..", "coq", "Gen", "Kernels.v")
    try:
        defs = translate(src)
    except (Untranslatable, SyntaxError) as e:
        sys.stderr.write("py2v: UNTRANSLATABLE: %s\n" % e)
        sys.exit(2)
    text = ("(* GENERATED by tools/py2v.py from mpgameserver/connection.py — do not edit. *)\n"
            "From Model Require Import Base.\nOpen Scope Z_scope.\n\n" + "\n".join(defs) + "\n")
    old = None
    if os.path.exists(dst):
        old = open(dst).read()
    if old != text:
        with open(dst, "w") as fh:
            fh.write(text)
    print("py2v: %d definitions -> %s%s" % (len(defs), dst, "" if old != text else " (unchanged)"))


if __name__ == "__main__":
    main()
