#!/usr/bin/env python3
"""mkdesign.py — assemble /verif/DESIGN.md from tools/design_parts/*.md (hand-written), the
manifest entries, the property theorem files, known_findings.json and seeded/*/meta.json."""
import json, os, re, glob
V = os.path.dirname(os.path.dirname(os.path.abspath(__file__)))
P = lambda *a: os.path.join(V, *a)
part = lambda n: open(P("tools", "design_parts", n)).read()
ent = json.load(open(P("tools", "manifest_entries.json")))
props = {}
for l in open(P("properties.jsonl")):
    if l.strip():
        d = json.loads(l); props[d["id"]] = d
known = json.load(open(P("known_findings.json")))["findings"]


def theorems(pid):
    f = P("coq", "Properties", pid + ".v")
    if not os.path.exists(f):
        return []
    return re.findall(r"^\s*Theorem\s+(\w+)", open(f).read(), flags=re.M)


def units(pid):
    f = P("harness", "props", pid + ".py")
    if not os.path.exists(f):
        return []
    txt = open(f).read()
    return sorted(set(re.findall(r'run\.compare\(\s*"(\w+)"', txt)))


out = [part("00_head.md"), "\n| id | title | theorems | strength | correspondence units |\n|---|---|---|---|---|\n"]
for pid in sorted(props):
    e = ent["claimed"].get(pid)
    th = theorems(pid)
    strength = "-"
    if e:
        n = e["note"].lower()
        strength = "partial" if n.startswith("partial") else "full on the stated domain"
    out.append("| %s | %s | %d | %s | %s |\n" % (pid, props[pid]["title"], len(th), strength, ", ".join(units(pid)) or "-"))
out += ["\n", part("10_approach.md"), "\n", part("40_trusted.md"), "\n", part("50_defects.md"), "\n"]
out.append("--------------------------------------------------------------------------------------------\n\n"
           "## 6. Per-property results\n\nFor each property: what the theorems say (text of the MANIFEST entry), "
           "the theorem names in `coq/Properties/Cxx.v`, limits / trusted parts, findings.\n")
for pid in sorted(props):
    e = ent["claimed"].get(pid)
    out.append("\n### %s — %s\n" % (pid, props[pid]["title"]))
    if not e:
        out.append("\nNot claimed: %s\n" % ent["unclaimed"].get(pid, ent["unclaimed"]["default"]))
        continue
    out.append("\n*Proved and tied.* %s\n" % e["text"])
    out.append("\n*Theorems* (`coq/Properties/%s.v`): %s.\n" % (pid, ", ".join("`%s`" % t for t in theorems(pid))))
    out.append("\n*Limits, trusted parts.* %s\n" % e["note"])
    out.append("\n*Technique.* %s. Correspondence units: %s.\n" % (e["technique"], ", ".join("`%s`" % u for u in units(pid)) or "-"))
    ks = [k for k in known if k.get("property") == pid]
    if ks:
        out.append("\n*Findings.* " + " ".join("%s (%s%s): %s." % (k["id"], k["status"], (" " + k["commit"]) if k.get("commit") else "",
                                                                   k["what"][:260].rstrip(".")) for k in ks) + "\n")
out.append("\n--------------------------------------------------------------------------------------------\n\n"
           "## 7. Not applicable\n\nNone. Every property has a logical core that an executable model expresses; where the truth lives "
           "partly in the runtime (threads, CPU/memory, real clocks, the peer's half of a two-party statement) the property is claimed "
           "*partial* and the unproved part is named in §6 and in each evidence file.\n\n")
out.append(part("80_seeds_head.md"))
out.append("| seed | property | change (summary) | needs to manifest | tests with change | caught by |\n|---|---|---|---|---|---|\n")
for d in sorted(glob.glob(P("seeded", "*", "meta.json"))):
    m = json.load(open(d))
    name = os.path.basename(os.path.dirname(d))
    caught = []
    for c, r in (m.get("checks") or {}).items():
        if r.get("caught"):
            caught.append(c + (" (no failing input)" if "no-failing-input-found" in r.get("line", "") else " (replay)"))
    conf = m.get("confirmed", {})
    valid = "" if conf.get("valid_seed", True) else " — **invalid seed** (a repository test fails with it)"
    clean = lambda s: " ".join(str(s).split()).replace("|", "/")
    out.append("| %s | %s | %s | %s | %s%s | %s |\n" % (
        name, m.get("breaks_property", "?"), clean(m.get("summary", ""))[:330], clean(m.get("needs_to_manifest", ""))[:220],
        clean(conf.get("tests_with_change", ""))[:22], valid, ", ".join(caught) or "**missed**"))
out.append(part("85_seeds_tail.md"))
out.append("\n")
out.append(part("90_policy.md"))
open(P("DESIGN.md"), "w").write("".join(out))
print("DESIGN.md: %d bytes" % len("".join(out)))
