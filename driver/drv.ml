(* drv.ml — generic line-protocol driver around the extracted model.
   request :  <unit-id decimal> <sexp>          reply :  <sexp>
   sexp    :  i<hex> | i-<hex> | x<hex bytes> | ( sexp* )
   Trusted glue: this parser/printer and the byte <-> constructor-index mapping
   (self-checked at start-up against the extracted Byte.to_N). *)
open Model

let byte_of_int (i : int) : byte = Obj.magic i
let int_of_byte (b : byte) : int = Obj.magic b

let rec int_of_pos = function XH -> 1 | XO p -> 2 * int_of_pos p | XI p -> 2 * int_of_pos p + 1
let int_of_n = function N0 -> 0 | Npos p -> int_of_pos p

let () =
  for i = 0 to 255 do
    if int_of_n (drv_byte_code (byte_of_int i)) <> i then (prerr_endline "drv: byte mapping broken"; exit 3)
  done

let hexval c = match c with
  | '0'..'9' -> Char.code c - 48 | 'a'..'f' -> Char.code c - 87 | 'A'..'F' -> Char.code c - 55
  | _ -> failwith "hex"

(* positive from hex digits, most significant first *)
let pos_of_hex (s : string) (start : int) : z =
  let acc = ref None in
  for i = start to String.length s - 1 do
    let d = hexval s.[i] in
    for b = 3 downto 0 do
      let bit = (d lsr b) land 1 in
      acc := (match !acc with
        | None -> if bit = 1 then Some XH else None
        | Some p -> Some (if bit = 1 then XI p else XO p))
    done
  done;
  match !acc with None -> Z0 | Some p -> Zpos p

let z_of_tok (s : string) : z =
  (* s starts with 'i' *)
  if String.length s >= 2 && s.[1] = '-' then
    (match pos_of_hex s 2 with Zpos p -> Zneg p | z -> z)
  else pos_of_hex s 1

let bytes_of_tok (s : string) : byte list =
  let n = (String.length s - 1) / 2 in
  List.init n (fun i -> byte_of_int (16 * hexval s.[1 + 2*i] + hexval s.[2 + 2*i]))

let rec parse (toks : string list) : v * string list =
  match toks with
  | [] -> failwith "eof"
  | "(" :: rest ->
      let rec items acc ts = match ts with
        | ")" :: r -> (VL (List.rev acc), r)
        | _ -> let (x, r) = parse ts in items (x :: acc) r in
      items [] rest
  | t :: rest ->
      if t.[0] = 'i' then (VI (z_of_tok t), rest)
      else if t.[0] = 'x' then (VB (bytes_of_tok t), rest)
      else failwith ("token " ^ t)

let hexdig = "0123456789abcdef"
let pos_to_hex (p : positive) (buf : Buffer.t) =
  (* collect bits least significant first *)
  let rec bits p acc = match p with XH -> 1 :: acc | XO q -> bits q (0 :: acc) | XI q -> bits q (1 :: acc) in
  (* bits returns most-significant-first list because we cons as we descend *)
  let rec collect p acc = match p with XH -> 1 :: acc | XO q -> collect q (0 :: acc) | XI q -> collect q (1 :: acc) in
  ignore bits;
  let msb_first = collect p [] in  (* descending from lsb pushes lsb first -> list has msb first *)
  let n = List.length msb_first in
  let pad = (4 - n mod 4) mod 4 in
  let arr = Array.of_list (List.init pad (fun _ -> 0) @ msb_first) in
  let i = ref 0 in
  while !i < Array.length arr do
    let d = arr.(!i) * 8 + arr.(!i+1) * 4 + arr.(!i+2) * 2 + arr.(!i+3) in
    Buffer.add_char buf hexdig.[d]; i := !i + 4
  done

let rec print (buf : Buffer.t) (x : v) =
  match x with
  | VI Z0 -> Buffer.add_string buf "i0"
  | VI (Zpos p) -> Buffer.add_char buf 'i'; pos_to_hex p buf
  | VI (Zneg p) -> Buffer.add_string buf "i-"; pos_to_hex p buf
  | VB bs -> Buffer.add_char buf 'x';
      List.iter (fun b -> let i = int_of_byte b in
        Buffer.add_char buf hexdig.[i lsr 4]; Buffer.add_char buf hexdig.[i land 15]) bs
  | VL l -> Buffer.add_string buf "(";
      List.iter (fun y -> Buffer.add_char buf ' '; print buf y) l; Buffer.add_string buf " )"

let () =
  let buf = Buffer.create 65536 in
  (try
    while true do
      let line = input_line stdin in
      let toks = List.filter (fun s -> s <> "") (String.split_on_char ' ' line) in
      (match toks with
       | u :: rest ->
           let (arg, _) = parse rest in
           let uz = z_of_tok ("i" ^ Printf.sprintf "%x" (int_of_string u)) in
           let r = dispatch uz arg in
           Buffer.clear buf; print buf r;
           print_string (Buffer.contents buf); print_newline ()
       | [] -> print_string "( i2 )"; print_newline ())
    done
  with End_of_file -> ())
