#!/bin/sh
# setup_cmd: offline build of the whole framework from files on disk:
# regenerate Gen/Kernels.v from /repo, full .vo build of the Coq development, extraction,
# OCaml driver.  Everything else is Python run by /venv/bin/python.
set -e
cd "$(dirname "$0")"
/venv/bin/python - <<'PY'
import sys, os
sys.path.insert(0, os.getcwd())
from harness import lib
st = lib.build(verbose=True)
print(st["make_log"][-1500:])
sys.exit(0 if (st["make_ok"] and st["driver_ok"] and st["translator_ok"] and st["translator_ser_ok"] and st["translator_ws_ok"] and st["translator_hdr_ok"]) else 1)
PY
