"""netsim.py — two real endpoints (UdpClient + ServerClientConnection) joined by a simulated
network with loss / duplication / reordering / delay / replay, under the virtual clock.
Every event applied to an endpoint is logged so that the same per-endpoint history can be
replayed on the Conn.v model (correspondence), and a global trace is kept for the
implementation-level oracles of C03..C07, C09, C12."""
from harness import lib
from harness import connsim as S

T = S.TICKS


class Endpoint:
    def __init__(self, role, keys, key, established=True, pinned=True, seq0=None):
        self.role = role
        self.impl = S.Impl(role, keys, key=key, established=established, pinned=pinned)
        self.seq0 = seq0
        self.snap = True       # compare full state snapshots after every event (off for very long runs)
        if seq0 is not None:
            # start the datagram / message counters just below the ring wrap (the model side
            # starts from the same values through unit conn_run_from)
            from mpgameserver.connection import SeqNum
            self.impl.conn.seq_sending = SeqNum(seq0[0])
            self.impl.conn.seq_message = SeqNum(seq0[1])
        self.keys = keys
        self.key = key
        self.established = established
        self.now0 = S.CLOCK.t
        self.mevs = []
        self.index = []
        self.itrace = []
        self.events = []

    def apply(self, ev, snap=None):
        if snap is None:
            snap = self.snap
        outs, mev = self.impl.apply(ev)
        if mev and isinstance(mev[0], list):
            self.mevs.extend(mev)
        else:
            self.mevs.append(mev)
        self.index.append(len(self.mevs) - 1)
        self.events.append(ev)
        self.itrace.append([S.canon(outs), S.snapshot(self.impl.conn, self.keys) if snap else None])
        return outs

    def check_model(self, run, env, unit_name="conn_run"):
        """replay the logged history on the model; returns None or the first difference"""
        init = [1 if self.role == "server" else 0, (self.key if (self.established and self.key is not None) else -1),
                2 if self.established else 4, self.now0 if self.established else -1]
        if self.seq0 is not None:
            unit_name = "conn_run_from"
            init = init + [self.seq0[0], self.seq0[1]]
        reply = run.model.call(unit_name, [env, init, self.mevs, 1 if self.snap else 0])
        for n, i in enumerate(self.index):
            a = self.itrace[n]
            b = [S.canon(reply[i][0]), reply[i][1]]
            if a[0] != b[0]:
                return {"endpoint": self.role, "event": n, "ev": lib.jsonable(self.events[n])[:3], "what": "outputs",
                        "impl": lib.jsonable(a[0])[:6], "model": lib.jsonable(b[0])[:6]}
            if a[1] is not None and a[1] != b[1]:
                diff = [j for j, (x, y) in enumerate(zip(a[1], b[1])) if x != y]
                return {"endpoint": self.role, "event": n, "ev": lib.jsonable(self.events[n])[:3],
                        "what": "state fields %s" % diff,
                        "impl": lib.jsonable([a[1][j] for j in diff])[:4], "model": lib.jsonable([b[1][j] for j in diff])[:4]}
        return None


class Net:
    """scheduler + trace.  cfg keys: loss, dup, reorder (probabilities), max_delay (ticks),
    sizes (callable rng -> payload length), retry_modes, steps, heal_after (step index after
    which the network is perfect and no new sends happen), mtu, tick (ticks per step)"""

    def __init__(self, run, rng, cfg, mtu=1500, key=7, established=True, seq0=None, pinned=True, seq0_server=None):
        """seq0 (optional) = [datagram counter, message counter] both endpoints start with; seq0_server (optional)
        = the same for the server-side connection alone (default: seq0)"""
        self.run, self.rng, self.cfg = run, rng, cfg
        self.mtu = mtu
        self.keys = S.Keys()
        self.env = S.env_for_mtu(mtu)
        S.CLOCK.t = T * 100
        self.t = S.CLOCK.t
        self.A = Endpoint("client", self.keys, key, established=established, seq0=seq0, pinned=pinned)   # client
        self.B = Endpoint("server", self.keys, key, established=established,
                          seq0=seq0_server if seq0_server is not None else seq0)                           # server-side connection
        self.key = key
        self.flight = []           # (deliver_at, dst, bytes, dgram_index)
        self.emitted = {"client": [], "server": []}   # every datagram ever emitted (bytes, time)
        self.sent = {"client": {}, "server": {}}      # msg id -> dict(payload, retry, time, cb)
        self.delivered = {"client": [], "server": []}  # (time, payload) delivered TO that endpoint's application
        self.callbacks = {"client": [], "server": []}  # (time, cbid, ok)
        self.accepted = {"client": [], "server": []}  # (time, datagram index of the peer) accepted by _recv_datagram
        self.raised = []
        self.next_id = 0
        self.dgram_lens = []
        self.healed = False
        self.drop_filter = None      # optional callable (who, emitted record) -> True to lose that datagram

    def ep(self, who):
        return self.A if who == "client" else self.B

    def other(self, who):
        return "server" if who == "client" else "client"

    # -- application actions
    def send(self, who, length, retry, with_cb=True, fill=None, api=False, raises=0):
        """raises (optional, see connsim): the user callback raises after recording its invocation"""
        mid = self.next_id
        self.next_id += 1
        tag = b"%08d|" % mid
        body = fill if fill is not None else bytes((mid * 7 + i) % 251 for i in range(max(0, length - len(tag))))
        payload = (tag + body)[:length] if length >= len(tag) else (b"%d" % mid)[-length:] if length else b""
        cbid = mid if with_cb else None
        ev = ("sendg", payload, cbid) if (api and retry == -1) else ("send", payload, retry, cbid)
        if raises:
            ev = ev + (raises,)
        outs = self.ep(who).apply(ev)
        rec = {"payload": payload, "retry": retry, "time": self.t, "cb": cbid, "len": length, "raises": raises,
               "accepted": not any(o[0] == 3 for o in outs) and self.ep(who).impl.conn.status.value == 2}
        self.sent[who][mid] = rec
        for o in outs:
            if o[0] == 3:
                self.raised.append((self.t, who, "send", o[1], length))
        return mid

    def send_fresh(self, who, make, retry, api=False):
        """(optional) identity-vs-equality mode: the payload is built by make() INSIDE the send call, the way an application
        writes conn.send(state.serialize()), and the harness keeps NO reference to it — only sha256, length and the integer
        id() are recorded (self.sent[who][mid] has "digest"/"len"/"id" and no "payload"), so the object is freed as soon as
        the implementation lets go of it and a later payload may get the same address.  make must be deterministic: it is
        called again after the session to give the model its send events (check_models does that).  Goes through the public
        entry points UdpClient.send / send_guaranteed and ServerClientConnection.send / send_guaranteed."""
        import hashlib
        e = self.ep(who)
        impl = e.impl
        mid = self.next_id
        self.next_id += 1
        probe = []

        def build():
            p = make()
            probe.append((id(p), hashlib.sha256(p).digest(), len(p)))
            return p
        outs = []
        impl.cblog = []
        try:
            if api and retry == -1:
                (impl.client if who == "client" else impl.conn).send_guaranteed(build())
            elif who == "client":
                impl.client.send(build(), retry=retry)
            else:
                impl.conn.send(build(), retry=retry)
        except Exception as ex:   # noqa
            outs.append([3, lib.exc_code(ex)])
        ident, digest, length = probe[0]
        e.mevs.append([0, None, retry, -1])
        if not hasattr(e, "fresh"):
            e.fresh = []
        e.fresh.append((len(e.mevs) - 1, make))
        e.index.append(len(e.mevs) - 1)
        e.events.append(("send_fresh", length, retry))
        e.itrace.append([S.canon(outs), None])       # no snapshot here: a snapshot would hold the queued payload object
        self.sent[who][mid] = {"digest": digest, "len": length, "id": ident, "retry": retry, "time": self.t, "cb": None,
                               "accepted": not outs and impl.conn.status.value == 2}
        for o in outs:
            self.raised.append((self.t, who, "send", o[1], length))
        return mid

    def disconnect(self, who):
        """(optional) the application closes the connection: UdpClient.disconnect() / the server-side kick
        ServerClientConnection.disconnect()"""
        return self.ep(who).apply(("disc",))

    def setmtu(self, mtu):
        """(optional) Packet.setMTU(mtu) while both connections exist (process-wide class attributes): logged in
        both endpoint histories; the histories must then be replayed with unit conn_run_mtu (check_models does)"""
        for e in (self.A, self.B):
            e.apply(("setmtu", mtu))
        self.mtu = mtu
        self.mtu_changed = True

    def _note(self, who, outs):
        for o in outs:
            if o[0] == 1:
                self.callbacks[who].append((self.t, o[1], bool(o[2])))
            elif o[0] == 3:
                self.raised.append((self.t, who, "update", o[1]))

    def tick(self, who, rx=None):
        """one UdpClient.update / server update + delivery of incoming messages"""
        e = self.ep(who)
        before = len(self.emitted[who])
        if who == "client":
            outs = e.apply(("ctick", self.t, rx))
        else:
            outs = []
            if rx is not None:
                outs += e.apply(("recv", self.t, rx[1], rx[2] if len(rx) > 2 else [self.key]))
            o2 = e.apply(("stick", self.t))
            outs += o2
        self._note(who, outs)
        # emissions (raw bytes exactly as the implementation produced them)
        raws = list(e.impl.last_sent)
        k = 0
        for o in outs:
            if o[0] == 0:
                self.emitted[who].append({"hdr": o[1], "sealed": o[2], "payload": o[3], "time": self.t, "raw": raws[k]})
                k += 1
        for idx in range(before, len(self.emitted[who])):
            rec = self.emitted[who][idx]
            self.dgram_lens.append(len(rec["raw"]))
            self._transmit(who, idx)
        # deliveries to the application
        conn = e.impl.conn
        if conn.incoming_messages:
            for s, p in conn.incoming_messages:
                self.delivered[who].append((self.t, bytes(p)))
            e.apply(("getmsgs",))
        return outs

    def _transmit(self, who, idx):
        r, c = self.rng, self.cfg
        dst = self.other(who)
        if self.drop_filter is not None and self.drop_filter(who, self.emitted[who][idx]):
            return                      # targeted loss (scenario-controlled), also while healed
        if self.healed:
            self.flight.append((self.t + c.get("healed_delay", 0), dst, idx))
            return
        if r.random() < c.get("loss", 0):
            return
        delay = c.get("delay", 0)            # fixed one-way latency (multiples of 15 ticks)
        if r.random() < c.get("reorder", 0):
            delay += r.randrange(0, c.get("max_delay", 2 * T) // 15 + 1) * 15
        self.flight.append((self.t + delay, dst, idx))
        if r.random() < c.get("dup", 0):
            self.flight.append((self.t + r.randrange(0, c.get("max_delay", 2 * T) // 15 + 1) * 15, dst, idx))

    def replay(self, dst, idx, at=None):
        self.flight.append((self.t if at is None else at, dst, idx))

    def pump(self, who):
        """deliver every due datagram addressed to `who` (one per update call, as the code does)"""
        due = [f for f in self.flight if f[1] == who and f[0] <= self.t]
        due.sort(key=lambda f: f[0])
        n = 0
        for f in due:
            self.flight.remove(f)
            src = self.other(who)
            rec = self.emitted[src][f[2]]
            hint = [rec["sealed"]] if rec["sealed"] >= 0 else []
            e = self.ep(who)
            before = e.impl.conn.stats.received
            self.tick(who, ("dg", rec["raw"], hint))
            if e.impl.conn.stats.received > before:
                self.accepted[who].append((self.t, f[2]))
            n += 1
        return n

    def advance(self, dt):
        if dt % 15:
            # clock values must stay exact binary fractions of a second (1/1024 s = 15 ticks): off the grid the float
            # comparisons of the implementation and the integer comparisons of the model differ at equality boundaries
            raise RuntimeError("netsim clock step %r is not a multiple of 15 ticks" % (dt,))
        self.t += dt
        S.CLOCK.t = self.t

    def step(self):
        """advance one frame: both sides pump due datagrams, then tick"""
        self.advance(self.cfg.get("tick", 300))
        for who in ("client", "server"):
            if self.pump(who) == 0:
                self.tick(who)

    def close(self):
        S.restore_mtu()

    def check_models(self):
        out = []
        for e in (self.A, self.B):
            for i, make in getattr(e, "fresh", []):
                if e.mevs[i][1] is None:
                    e.mevs[i][1] = bytes(make())       # send_fresh: the model's send event gets the payload now
            if getattr(self, "mtu_changed", False):
                # self.env is the environment the session STARTED with; the [9, env'] events carry the changes
                d = check_model_mtu(self.run, e, self.env, list(e.seq0) if e.seq0 is not None else [0, 0])
                if d:
                    out.append(d)
                continue
            d = e.check_model(self.run, self.env)
            if d:
                out.append(d)
        return out


def check_model_mtu(run, e, env, seq):
    """replay an endpoint history that contains setmtu events on unit conn_run_mtu"""
    init = [1 if e.role == "server" else 0, (e.key if (e.established and e.key is not None) else -1),
            2 if e.established else 4, e.now0 if e.established else -1, seq[0], seq[1]]
    reply = run.model.call("conn_run_mtu", [env, init, e.mevs, 1 if e.snap else 0])
    for n, i in enumerate(e.index):
        a = e.itrace[n]
        b = [S.canon(reply[i][0]), reply[i][1]]
        if a[0] != b[0]:
            return {"endpoint": e.role, "event": n, "ev": lib.jsonable(e.events[n])[:3], "what": "outputs",
                    "impl": lib.jsonable(a[0])[:6], "model": lib.jsonable(b[0])[:6]}
        if a[1] is not None and a[1] != b[1]:
            diff = [j for j, (x, y) in enumerate(zip(a[1], b[1])) if x != y]
            return {"endpoint": e.role, "event": n, "ev": lib.jsonable(e.events[n])[:3],
                    "what": "state fields %s" % diff,
                    "impl": lib.jsonable([a[1][j] for j in diff])[:4], "model": lib.jsonable([b[1][j] for j in diff])[:4]}
    return None
