"""livesim.py — C05, the liveness composition: joint timed schedules (as harness/idlesim.py: real UdpClient +
real ServerClientConnection, virtual clock, events of Model/TimedNet.v) of an established pair whose sender
application has just called send_guaranteed(payload).  The network loses / delays / duplicates / reorders /
injects; from a time th on it shows every datagram of the SENDER to the receiver within d.
Every schedule is replayed on the model (unit live_pair_run: full private state of both endpoints after
every event) and the hypotheses of the liveness theorem (LiveNet.hvalid / hnow) are recomputed here in
Python, independently of the Coq text."""
from harness import idlesim
from harness import connsim as S

T = S.TICKS
SI = idlesim.SI


class LivePair(idlesim.Pair):
    def __init__(self, run, rng, KC, KS, Tconn, side, payload, cbid):
        super().__init__(run, rng, KC, KS, Tconn)
        self.side = side                                  # 0: the client sends, 1: the server-side connection sends
        self.payload, self.cbid = payload, cbid
        self.sender = "client" if side == 0 else "server"
        self.receiver = "server" if side == 0 else "client"
        self.send_outs = (self.A if side == 0 else self.B).apply(("sendg", payload, cbid))
        self.start = [S.snapshot(self.A.impl.conn, self.net.keys), S.snapshot(self.B.impl.conn, self.net.keys)]
        self.pre = []          # per event: what the hypotheses need from the state before it
        self.incoming = []     # per event: the receiver's incoming_messages afterwards
        self.done = []         # per event: the sender's RetrySender done?

    def _conn(self, who):
        return (self.A if who == "client" else self.B).impl.conn

    def _before(self, kind, now, src):
        a, b = self.A.impl.conn, self.B.impl.conn
        self.pre.append({"kind": kind, "now": now, "swept": self.swept,
                         "cli_last_recv": S.ticks(a.last_recv_time),
                         "srv_last_recv": S.ticks(b.last_recv_time), "srv_status": b.status.value,
                         "n_client": len(self.em["client"]), "n_server": len(self.em["server"]),
                         "src": src})

    def _observe(self):
        super()._observe()
        self.obs[-1] = [self.obs[-1], S.snapshot(self.A.impl.conn, self.net.keys), S.snapshot(self.B.impl.conn, self.net.keys)]
        rc = self._conn(self.receiver)
        self.incoming.append([[int(s), bytes(p)] for s, p in rc.incoming_messages])
        self.done.append(self._sender_done())

    def _sender_done(self):
        from mpgameserver.connection import RetrySender
        sc = self._conn(self.sender)
        seen = []
        for m in sc.outgoing_messages:
            seen.append(m.callback)
        for fs in sc.pending_callbacks.values():
            seen.extend(fs)
        for m in sc.pending_retry_msg.values():
            seen.append(m.callback)
        rs = [f for f in seen if isinstance(f, RetrySender)]
        if rs:
            self._rs = rs[0]
        r = getattr(self, "_rs", None)
        return bool(r is not None and r.done)

    def client_tick(self, now, src=None):
        self._before(0, now, src)
        return super().client_tick(now, src)

    def server_recv(self, now, src):
        self._before(1, now, src)
        return super().server_recv(now, src)

    def server_sweep(self, now):
        self._before(2, now, None)
        return super().server_sweep(now)

    # -- the hypotheses of the liveness theorem, recomputed from the harness's own records
    def admissible(self, tau, d, th):
        """LiveNet.hvalid, event by event: clock monotone; the sender's update() calls at most tau apart; every
        sender datagram emitted at or after th and not yet shown to the receiver is at most d old; fewer than
        32767 datagrams; the connection stays open; sources exist / do not open"""
        last_tick = self.t0
        prev = self.t0
        pend = []                   # (index, time) of sender datagrams not shown yet
        noted = 0
        for n, (ev, pre) in enumerate(zip(self.events, self.pre)):
            now = ev[1]
            # emissions of earlier events become pending
            cnt = pre["n_client"] if self.side == 0 else pre["n_server"]
            while noted < cnt:
                noted += 1
                pend.append((noted, self.em[self.sender][noted - 1]["time"]))
            if now < prev:
                return False, "clock"
            prev = now
            if now - last_tick > tau:
                return False, "sender tick gap"
            if any(t >= th and now > t + d for (_, t) in pend):
                return False, "late or lost after healing"
            if cnt >= 32767:
                return False, "ring"
            if pre["swept"]:
                return False, "swept"
            if ev[0] == 0 and pre["cli_last_recv"] > 0 and now > pre["cli_last_recv"] + 5 * T:
                return False, "client dropped"
            if ev[0] == 2 and (pre["srv_status"] == 4 or now - pre["srv_last_recv"] >= self.Tconn):
                return False, "server removes client"
            src = pre["src"]
            if src is not None and src[0] == "peer":
                have = pre["n_server"] if ev[0] == 0 else pre["n_client"]
                if not (1 <= src[1] <= have):
                    return False, "no such datagram"
            # effects
            if (ev[0] == 0 and self.side == 0) or (ev[0] == 2 and self.side == 1):
                last_tick = now
            receiving = (ev[0] == 1 and self.side == 0) or (ev[0] == 0 and self.side == 1)
            if receiving and src is not None and src[0] == "peer":
                pend = [(i, t) for (i, t) in pend if i != src[1]]
        return True, ""

    def settled(self, tau, d, th, now_end):
        """LiveNet.hnow at now_end"""
        if now_end < self.times[-1]:
            return False
        ticks = self.ticks[self.sender]
        if now_end - ticks[-1] > tau:
            return False
        shown = set()
        for ev, pre in zip(self.events, self.pre):
            receiving = (ev[0] == 1 and self.side == 0) or (ev[0] == 0 and self.side == 1)
            if receiving and pre["src"] is not None and pre["src"][0] == "peer":
                shown.add(pre["src"][1])
        for i, rec in enumerate(self.em[self.sender]):
            if (i + 1) not in shown and rec["time"] >= th and now_end > rec["time"] + d:
                return False
        return True

    def model_args(self, tau, d, th, now_end):
        return [self.net.env, [tau, d, self.Tconn, th], [self.net.key, self.t0, self.KC, self.KS], self.side,
                self.payload, -1 if self.cbid is None else self.cbid, self.events, now_end]


def random_live_session(run, rng, side, KC, KS, tau, d, th_off, payload, loss, dup, junk, rloss,
                        post_loss=0.0, y_gap=None, max_events=900):
    """the sender ticks with gaps <= tau; before th its datagrams are lost with probability `loss` or delayed at
    random, from th on each is planned for the receiver within d (lost with probability post_loss: then the
    schedule is outside the hypotheses); copies of older datagrams and tampered copies are mixed in; the
    receiver's datagrams are lost with probability rloss at all times (the ack direction need not heal)"""
    p = LivePair(run, rng, KC, KS, 5 * T, side, payload, 77)
    q15 = lambda x: (x // 15) * 15
    th = p.t0 + th_off
    Ksend = KC if side == 0 else KS
    bound = max(Ksend, SI) + tau + d
    t_stop = max(th, p.t0) + bound + 15 * rng.randrange(1, 30)
    y_gap = y_gap or (2 * tau)
    gx = lambda: 15 * rng.randrange(max(1, tau // 30), tau // 15 + 1)
    gy = lambda: 15 * rng.randrange(1, y_gap // 15 + 1)
    next_x, next_y = p.t0 + gx(), p.t0 + gy()
    to_recv, to_send = [], []          # (due, index)
    seen = {"client": 0, "server": 0}
    snd, rcv = p.sender, p.receiver

    def plan():
        while seen[snd] < len(p.em[snd]):
            seen[snd] += 1
            rec = p.em[snd][seen[snd] - 1]
            if rec["time"] >= th:
                if rng.random() >= post_loss:
                    to_recv.append((rec["time"] + q15(rng.randrange(0, d + 1)), seen[snd]))
            elif rng.random() >= loss:
                to_recv.append((rec["time"] + q15(rng.randrange(0, 4 * d + 900)), seen[snd]))
            while rng.random() < dup:
                to_recv.append((rec["time"] + q15(rng.randrange(0, 6000)), seen[snd]))
        while seen[rcv] < len(p.em[rcv]):
            seen[rcv] += 1
            rec = p.em[rcv][seen[rcv] - 1]
            if rng.random() >= rloss:
                to_send.append((rec["time"] + q15(rng.randrange(0, 2 * d + 300)), seen[rcv]))
            while rng.random() < dup:
                to_send.append((rec["time"] + q15(rng.randrange(0, 6000)), seen[rcv]))

    def x_tick(now, src=None):
        if side == 0:
            p.client_tick(now, src)
        else:
            if src is not None:
                p.server_recv(now, src)
            p.server_sweep(now)

    def y_tick(now, src=None):
        if side == 0:
            if src is not None:
                p.server_recv(now, src)
            else:
                p.server_sweep(now)
        else:
            p.client_tick(now, src)

    plan()
    for _ in range(max_events):
        now = p.times[-1]
        if now > t_stop:
            break
        cands = [(next_x, "x"), (next_y, "y")]
        if to_recv:
            cands.append((max(min(to_recv)[0], now), "r"))
        if to_send:
            cands.append((max(min(to_send)[0], now), "s"))
        tmin = min(c[0] for c in cands)
        kind = rng.choice(sorted(c[1] for c in cands if c[0] == tmin))
        if kind == "x":
            src = None
            if side == 0:
                due = sorted(x for x in to_send if x[0] <= tmin)
                if due:
                    to_send.remove(due[0])
                    src = ("peer", due[0][1])
                elif p.em[rcv] and rng.random() < junk:
                    src = ("junk", idlesim.tamper(rng.choice(p.em[rcv])["raw"]))
            x_tick(tmin, src)
            next_x = tmin + gx()
        elif kind == "y":
            src = None
            if side == 1:
                due = sorted(x for x in to_recv if x[0] <= tmin)
                if due:
                    to_recv.remove(due[0])
                    src = ("peer", due[0][1])
                elif p.em[snd] and rng.random() < junk:
                    src = ("junk", idlesim.tamper(rng.choice(p.em[snd])["raw"]))
            y_tick(tmin, src)
            next_y = tmin + gy()
        elif kind == "r":
            x = min(to_recv)
            to_recv.remove(x)
            if side == 0:
                p.server_recv(tmin, ("peer", x[1]))
                if p.em[snd] and rng.random() < junk:
                    p.server_recv(tmin, ("junk", idlesim.tamper(rng.choice(p.em[snd])["raw"])))
            else:
                p.client_tick(tmin, ("peer", x[1]))
        else:
            x = min(to_send)
            to_send.remove(x)
            if side == 0:
                p.client_tick(tmin, ("peer", x[1]))
                next_x = tmin + gx()
            else:
                p.server_recv(tmin, ("peer", x[1]))
        plan()
    p.th, p.bound = th, bound
    return p
