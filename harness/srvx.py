"""srvx.py — the stepped server of harness/srvsim.py behind EVERY front door of the library, configured at
every moment of the server object's life, with clients whose connect callback talks.

srvsim.Sim builds `ServerContext -> (settings) -> TwistedServer -> a fresh UdpServerThread` and feeds
datagrams through TwistedServer.datagramReceived.  That leaves unexercised:
  * the thread object the server classes build in THEIR OWN constructor (TwistedServer.__init__,
    ThreadedServer.__init__ -> TwistedServer.__init__): front "twisted-own" / "threaded";
  * the plain socket server `_UdpServer.run` (socket receive loop -> PacketHeader.from_bytes ->
    UdpServerThread.append, thread built inside run()): front "udpserver", driven through a scripted
    socket that implements the receive calls of the socket API (recvfrom, recvfrom_into, recv,
    recv_into, recvmsg, recvmsg_into) the way the OS does — the *_into calls write into the CALLER's
    buffer;
  * the order  construct the server object -> configure the ServerContext (public setters) -> start
    (configure="between"); configure="before" is srvsim's order (settings, then construction);
  * application sends issued from inside the client's connect callback (CBClient.on_connect), and a
    lossy / duplicating network between the stepped server and its clients (WorldX.up / WorldX.down).

Everything else (virtual clock, blocking in handler.update, the linear log, the replay on Server.v
through Sim.check_model) is srvsim's, unchanged: SimX / WorldX / CBClient are subclasses.

Added later (all optional, the behaviour above is unchanged when they are not used):
  * REACTOR_FRONTS "twisted-reactor" / "threaded-reactor": the thread TwistedServer / ThreadedServer build in their
    constructor WITH its `send` left as the library set it (TwistedServer.sendPackets): the batch of built Packet
    objects goes through `reactor.callFromThread(self.sendPacketsUnsafe, batch)`.  `mpgameserver.twisted.reactor`
    is a StubReactor whose callFromThread QUEUES the call (and photographs the batch at the hand-over: header
    fields, plaintext, key and destination of every packet as they are when the server thread lets go of them);
    the harness thread plays the reactor thread and runs the queued calls, oldest first, when it decides the
    reactor gets a turn (WorldX.reactor_busy: the reactor also serves the TCP/HTTP routes and may lag by ticks).
    Like the reactor, it logs a call that raises and goes on with the next call.  `tw.transport` is a
    StubTransport: write() raises OSError for destinations the OS refuses (REFUSED_BY_OS, measured on this
    kernel the way srvsim.os_refuses_port0 does) exactly as twisted's udp.Port.write re-raises them, everything
    else is recorded in SimX.written = dicts {data, addr, snap (the photograph), step_built, step_written}.
    These fronts are implementation-only (Server.v describes UdpServerThread.send's per-packet guard, not the
    reactor hand-over): check_model is not meaningful for them.
  * SimX(hold_probe=True) on the other fronts: UdpServerThread.send is wrapped by the same photographing
    hand-over (an instance attribute, as TwistedServer itself installs one), so `written` is filled there too.
  * SimX(setter_order=...): the order in which configure="between" calls the four ServerContext setters.
  * SimX.cb_policy(sim, obj, cbid, ok) -> (actions, raises): what a user send callback DOES when the library calls
    it (actions as in do_action, issued from inside the callback; raises -> the callback raises afterwards).
  * SimX.block_op(op, ips): the block list changed on the RUNNING server (BLOCK_OPS: through ServerContext.setBlockList with
    a new set object, or by mutating the installed set), from the harness thread while the loop is blocked in handler.update
    or from inside a handler event (the policy calls it); SimX.feed_probe(addr, raw, queued) observes, datagram by datagram,
    what each front door appended to UdpServerThread.queue.
"""
import threading, types, logging, contextlib, socket as _socket
from harness import connsim as S
from harness import srvsim as V

T = S.TICKS
DEFAULT_CFG = (5 * T, 2 * T, 1536, T)          # ServerContext's defaults (5 s, 2 s, 0.1 s, 1 s), in ticks
FRONTS = ("twisted", "twisted-own", "threaded", "udpserver")
REACTOR_FRONTS = ("twisted-reactor", "threaded-reactor")
SETTERS = ("setConnectionTimeout", "setTempConnectionTimeout", "setKeepAliveInterval", "setMessageTimeout")
BLOCK_OPS = ("set-add", "set-remove", "set-replace", "set-empty", "inplace-add", "inplace-remove", "inplace-clear")
UNANSWERABLE = [("10.9.9.9", 0), ("255.255.255.255", 4000), ("240.0.0.1", 4000), ("0.0.0.0", 0)]
_REFUSED = {}


def os_refuses(addr):
    """does this kernel refuse sendto(..., addr) on a plain UDP socket?  (the real twisted UDP port re-raises every
    OSError of sendto except EINTR / EMSGSIZE / ECONNREFUSED)"""
    if addr not in _REFUSED:
        s = _socket.socket(_socket.AF_INET, _socket.SOCK_DGRAM)
        try:
            s.sendto(b"x", addr)
            _REFUSED[addr] = False
        except OSError as e:
            import errno
            _REFUSED[addr] = e.errno not in (errno.EINTR, errno.EMSGSIZE, errno.ECONNREFUSED)
        finally:
            s.close()
    return _REFUSED[addr]


def refused_by_os(addr):
    """the rule of the stub transport: port 0 always (srvsim.MockSock's rule, measured by os_refuses_port0), plus the
    limited broadcast address and class E when this kernel refuses them"""
    if addr[1] == 0:
        return True
    ip = addr[0]
    if ip == "255.255.255.255":
        return os_refuses(("255.255.255.255", 4000))
    head = ip.split(".")[0]
    if head.isdigit() and int(head) >= 240:
        return os_refuses(("240.0.0.1", 4000))
    return False


def photograph(batch):
    """the packets of one send batch as they are at the hand-over; hdr in connsim.pack_header's layout
    [to_server, ctime, seq, ack, type, len, count, ackbits]"""
    out = []
    for pkt, key, addr in batch:
        h = pkt.hdr
        out.append({"hdr": [0 if h.isServer else 1, int(h.ctime), int(h.seq), int(h.ack), h.pkt_type.value, int(h.length),
                            int(h.count), int(h.ack_bits)],
                    "plain": bytes(pkt.msg), "key": None if key is None else bytes(key), "addr": addr})
    return out


class StubReactor:
    """twisted.internet.reactor as far as mpgameserver.twisted uses it from the server thread"""

    def __init__(self, sim):
        self.sim = sim
        self.queue = []
        self.errors = []
        self.inline = False
        self.calls = 0

    def callFromThread(self, f, *a, **k):
        self.calls += 1
        item = {"f": f, "a": a, "k": k, "step": len(self.sim.steps), "snap": None, "i": 0}
        if a and isinstance(a[0], (list, tuple)) and getattr(f, "__name__", "") == "sendPacketsUnsafe":
            try:
                item["snap"] = photograph(a[0])
            except Exception as e:      # noqa
                self.sim.internal.append("photograph: %r" % (e,))
        if self.inline:
            self.run_item(item)
        else:
            self.queue.append(item)

    def run_item(self, item):
        self.sim.cur_item = item
        try:
            item["f"](*item["a"], **item["k"])
        except Exception as e:      # noqa  (the reactor logs it and serves the next call)
            self.errors.append((len(self.sim.steps), repr(e)[:120]))
        finally:
            self.sim.cur_item = None

    def turn(self, n=None):
        """the reactor thread gets a turn: the n oldest queued calls (all of them when n is None)"""
        k = len(self.queue) if n is None else min(n, len(self.queue))
        for _ in range(k):
            self.run_item(self.queue.pop(0))
        return k

    def stop(self):
        pass

    def run(self, *a, **k):
        pass

    def listenUDP(self, *a, **k):
        pass


class StubTransport:
    def __init__(self, sim):
        self.sim = sim

    def write(self, data, addr=None):
        self.sim.on_write(data, addr)


@contextlib.contextmanager
def logging_enabled():
    """srvsim observes the exceptions the server loop catches through the library's logger; a check that
    switched logging off process-wide (logging.disable) must switch it on around a stepped world"""
    saved = logging.root.manager.disable
    logging.disable(logging.NOTSET)
    try:
        yield
    finally:
        logging.disable(saved)


class ScriptedSocket(V.MockSock):
    """a UDP socket whose incoming datagrams are scripted by the harness thread.  push() returns when the
    receive loop has taken the datagram, run its loop body and come back for the next one (so the
    hand-over is synchronous and the run deterministic)."""

    def __init__(self, sim):
        super().__init__(sim)
        self.cv = threading.Condition()
        self.q = []
        self.waiting = False
        self.ended = False
        self.calls = {}
        self.bound = None

    # -- what _UdpServer.run (or any rewrite of it) may call on a socket
    def setsockopt(self, *a):
        pass

    def settimeout(self, *a):
        pass

    def setblocking(self, *a):
        pass

    def bind(self, addr):
        self.bound = addr

    def getsockname(self):
        return self.bound or ("0.0.0.0", 0)

    def _next(self, api):
        with self.cv:
            self.calls[api] = self.calls.get(api, 0) + 1
            while not self.q and not self.ended:
                self.waiting = True
                self.cv.notify_all()
                self.cv.wait(1.0)
            self.waiting = False
            if not self.q:
                raise ConnectionResetError("end of script")
            return self.q.pop(0)

    @staticmethod
    def _fill(buf, raw, nbytes):
        mv = memoryview(buf).cast("B")
        n = min(len(raw), nbytes or len(mv), len(mv))
        mv[:n] = raw[:n]
        return n

    def recvfrom(self, bufsize, flags=0):
        raw, addr = self._next("recvfrom")
        return raw[:bufsize], addr

    def recv(self, bufsize, flags=0):
        raw, addr = self._next("recv")
        return raw[:bufsize]

    def recvfrom_into(self, buf, nbytes=0, flags=0):
        raw, addr = self._next("recvfrom_into")
        return self._fill(buf, raw, nbytes), addr

    def recv_into(self, buf, nbytes=0, flags=0):
        raw, addr = self._next("recv_into")
        return self._fill(buf, raw, nbytes)

    def recvmsg(self, bufsize, ancbufsize=0, flags=0):
        raw, addr = self._next("recvmsg")
        return raw[:bufsize], [], 0, addr

    def recvmsg_into(self, buffers, ancbufsize=0, flags=0):
        raw, addr = self._next("recvmsg_into")
        n = 0
        for b in buffers:
            k = self._fill(b, raw[n:], 0)
            n += k
            if n >= len(raw):
                break
        return n, [], 0, addr

    # -- harness side
    def push(self, addr, raw, timeout=20.0):
        with self.cv:
            self.q.append((bytes(raw), addr))
            self.waiting = False
            self.cv.notify_all()
            waited = 0.0
            while self.q or not self.waiting:
                if waited >= timeout or self.ended:
                    self.sim.internal.append("scripted socket: receive loop did not come back for the next datagram")
                    return False
                self.cv.wait(0.05)
                waited += 0.05
        return True

    def end(self):
        with self.cv:
            self.ended = True
            self.cv.notify_all()


class SimX(V.Sim):
    """srvsim.Sim behind a chosen front door, configured at a chosen moment.
    configure = "before"  : ServerContext attributes set, then the server object is built (srvsim's order)
                "between" : server object built on a default context, THEN the public setters
                            (setConnectionTimeout / setTempConnectionTimeout / setKeepAliveInterval /
                            setMessageTimeout / setBlockList) are called, then start
    `api_sends`: handler actions with retry -1 go through ServerClientConnection.send_guaranteed."""

    def __init__(self, run, cfg=DEFAULT_CFG, blocklist=(), mtu=1500, policy=None, full=True, front="twisted",
                 configure="before", api_sends=False, sentinel_first=False, setter_order=None, hold_probe=False,
                 cb_policy=None):
        if front not in FRONTS + REACTOR_FRONTS:
            raise ValueError(front)
        self.front, self.configure, self.api_sends = front, configure, api_sends
        self.sentinel_first = sentinel_first
        self.runner = None
        self.server = None
        self._saved_socket = None
        self.reactor = None
        self._saved_reactor = None
        self.cur_item = None
        self.written = []
        self.refused_writes = []
        self.cb_policy = cb_policy
        self.cb_calls = []
        self.feed_probe = None          # fn(addr, raw, queued): called after every datagram fed, with the queue entries it produced
        self.block_ops = []             # (step, op, ips) of every block_op()
        first_cfg = tuple(cfg) if configure == "before" else DEFAULT_CFG
        first_bl = tuple(blocklist) if configure == "before" else ()
        super().__init__(run, cfg=first_cfg, blocklist=first_bl, mtu=mtu, policy=policy, full=full, gate=front)
        from mpgameserver.twisted import TwistedServer, ThreadedServer
        if front == "twisted-own":
            self.tw = TwistedServer(self.ctxt, ("0.0.0.0", 1474), install_signals=False)
            self._adopt(self.tw.thread)
        elif front == "threaded":
            self.outer = ThreadedServer(self.ctxt, ("0.0.0.0", 1474))
            self.tw = self.outer.server
            self._adopt(self.tw.thread)
        elif front == "udpserver":
            self.sock = ScriptedSocket(self)
            self.server = self.SV._UdpServer(self.ctxt, ("0.0.0.0", 1474))
            self.tw = None
            self.thread = None              # built by _UdpServer.run
        elif front in REACTOR_FRONTS:
            import mpgameserver.twisted as TW
            if front == "twisted-reactor":
                self.tw = TwistedServer(self.ctxt, ("0.0.0.0", 1474), install_signals=False)
            else:
                self.outer = ThreadedServer(self.ctxt, ("0.0.0.0", 1474))
                self.tw = self.outer.server
            self.thread = self.tw.thread            # its `send` stays what the library made it
            self.sock = None
            self.reactor = StubReactor(self)
            self._saved_reactor = (TW, TW.reactor)
            TW.reactor = self.reactor
            self.tw.transport = StubTransport(self)
        if hold_probe and front in ("twisted", "twisted-own", "threaded"):
            inner = self.thread.send

            def probed_send(seq, inner=inner):
                item = {"snap": None, "i": 0, "step": len(self.steps)}
                try:
                    item["snap"] = photograph(seq)
                except Exception as e:      # noqa
                    self.internal.append("photograph: %r" % (e,))
                self.cur_item = item
                try:
                    return inner(seq)
                finally:
                    self.cur_item = None
            self.thread.send = probed_send
        if configure == "between":
            c = self.ctxt
            vals = {"setConnectionTimeout": cfg[0] / T, "setTempConnectionTimeout": cfg[1] / T,
                    "setKeepAliveInterval": cfg[2] / T, "setMessageTimeout": cfg[3] / T}
            for name in (setter_order or SETTERS):
                getattr(c, name)(vals[name])
            c.setBlockList(set(blocklist))
            self.cfg = list(cfg)
            self.blocklist = list(blocklist)

    def _adopt(self, thread):
        """use the thread object the server built in its own constructor; its datagrams go to the mock
        socket through UdpServerThread.send (TwistedServer redirects send to the reactor, which is not run)"""
        thread.sock = self.sock
        thread.__dict__.pop("send", None)
        self.thread = thread

    # -- the hand-over of built packets
    def _pair(self, data, addr):
        """the photograph of the packet a datagram was made of: the i-th write of a batch is its i-th packet"""
        item = self.cur_item
        if item is None or item.get("snap") is None:
            return None, None
        i = item["i"]
        item["i"] = i + 1
        if i >= len(item["snap"]):
            return None, item["step"]
        return item["snap"][i], item["step"]

    def on_write(self, data, addr):
        """StubTransport.write"""
        snap, built = self._pair(data, addr)
        if refused_by_os(addr):
            self.refused_writes.append((len(self.steps), addr))
            raise OSError(22, "Invalid argument")
        self.written.append({"data": bytes(data), "addr": addr, "snap": snap, "step_built": built, "step_written": len(self.steps)})
        self.on_sendto(bytes(data), addr)

    def on_sendto(self, data, addr):
        if self.cur_item is not None and self.reactor is None:
            snap, built = self._pair(data, addr)
            self.written.append({"data": bytes(data), "addr": addr, "snap": snap, "step_built": built, "step_written": len(self.steps)})
        super().on_sendto(data, addr)

    def reactor_turn(self, n=None):
        if self.reactor is not None:
            return self.reactor.turn(n)
        return 0

    def user_cb(self, obj, cbid):
        f = super().user_cb(obj, cbid)
        if f is None or self.cb_policy is None:
            return f

        def g(ok, _f=f, _o=obj, _id=cbid):
            _f(ok)
            acts, raises = self.cb_policy(self, _o, _id, ok)
            self.cb_calls.append((len(self.steps), self.cid(_o), _id, 1 if ok else 0, [a[0] for a in acts], 1 if raises else 0))
            for a in acts:
                self.do_action(a)
            if raises:
                raise V.HandlerRaised("scripted callback")
        g._verif_id = cbid
        return g

    def finish(self, t):
        super().finish(t)
        if self.reactor is not None:
            self.reactor.turn()         # the reactor outlives the server thread: what is queued still goes out

    def _excepthook(self, args):
        if args.thread is self.thread or (self.runner is not None and args.thread is self.runner):
            self.thread_exc = args.exc_value
        else:
            self._saved_hook(args)

    def do_action(self, a):
        if self.api_sends and a[0] == 1 and a[3] == -1:
            obj = self.ctxt.connections.get(V.va(a[1]))
            if obj is not None:
                obj.send_guaranteed(bytes(a[2]), callback=self.user_cb(obj, a[4]))
            return
        super().do_action(a)

    def start(self, t):
        if self.front != "udpserver":
            return super().start(t)
        S.CLOCK.t = t
        self.t = t
        self.steps.append([t, [], [], {}])
        sock = self.sock
        self._saved_socket = self.SV.socket
        self.SV.socket = types.SimpleNamespace(
            socket=lambda *a, **k: sock, AF_INET=_socket.AF_INET, AF_INET6=_socket.AF_INET6, SOCK_DGRAM=_socket.SOCK_DGRAM,
            SOL_SOCKET=_socket.SOL_SOCKET, SO_REUSEADDR=_socket.SO_REUSEADDR, error=_socket.error, timeout=_socket.timeout)
        self.runner = threading.Thread(target=self.server.run, daemon=True)
        self.runner.start()
        ev = threading.Event()
        for _ in range(20000):
            th = getattr(self.server, "thread", None)
            if th is not None and th.ident is not None:
                break
            if not self.runner.is_alive():
                break
            ev.wait(0.001)
        self.thread = getattr(self.server, "thread", None)
        if self.thread is None or self.thread.ident is None:
            self.internal.append("_UdpServer.run did not start its UdpServerThread")
            self.thread = self.runner
            self.died = True
            return
        if not self._wait_block():
            self.died = True
        self._after_block()

    def advance(self, t, batch, rand=()):
        """srvsim.Sim.advance; with sentinel_first the wake-up datagram from the dummy address is the FIRST of
        the tick instead of the last, so that the last datagram the front door receives before the loop
        runs is one of the scenario's own"""
        if not self.sentinel_first:
            return super().advance(t, batch, rand)
        if self.died or self.finished:
            return False
        batch = [(V.SENTINEL, V.SENTINEL_RAW)] + list(batch)
        for addr, raw in batch:
            self.recv_bytes.append((len(self.steps), addr, len(raw)))
            self.feed(addr, raw)
        rand = list(rand)
        nfresh = 8 + 2 * len(batch)
        rand += [0x20000000 + self.fallback + i for i in range(nfresh)]
        self.fallback += nfresh
        self.rand, self.rand_used = rand, 0
        S.CLOCK.t = t
        self.t = t
        self.steps.append([t, batch, rand, {}])
        self.sem_go.release()
        if not self._wait_block():
            self.died = True
            self.log.append([8, 2])
            return False
        self._after_block()
        return True

    def feed(self, addr, raw):
        probe = self.feed_probe
        if probe is not None:
            # the loop thread is blocked in handler.update while the harness feeds: what the front door lets through is
            # exactly what UdpServerThread.queue grows by
            q = self.thread.queue
            n0 = len(q)
        if self.front == "udpserver":
            self.sock.push(addr, raw)
        else:
            self.tw.datagramReceived(raw, addr)
        if probe is not None:
            q2 = self.thread.queue
            probe(addr, raw, list(q2[n0:]) if q2 is q else list(q2))

    def block_op(self, op, ips):
        """change the block list of the (running) server.  'set-*': through the documented setter with a NEW set object
        (ServerContext.setBlockList replaces the attribute); 'inplace-*': by mutating the set object that is installed."""
        c = self.ctxt
        ips = list(ips)
        if op == "set-add":
            c.setBlockList(set(c.blocklist) | set(ips))
        elif op == "set-remove":
            c.setBlockList(set(c.blocklist) - set(ips))
        elif op == "set-replace":
            c.setBlockList(set(ips))
        elif op == "set-empty":
            c.setBlockList(set())
        elif op == "inplace-add":
            for x in ips:
                c.blocklist.add(x)
        elif op == "inplace-remove":
            for x in ips:
                c.blocklist.discard(x)
        elif op == "inplace-clear":
            c.blocklist.clear()
        else:
            raise ValueError(op)
        self.block_ops.append((len(self.steps), op, ips))

    def close(self):
        try:
            if self.front == "udpserver":
                # end of the script: the receive call raises ConnectionResetError, _UdpServer.run leaves its loop
                self.sock.end()
                if self.runner is not None:
                    self.runner.join(timeout=5)
                    if self.runner.is_alive():
                        self.internal.append("_UdpServer.run did not return after the end of the script")
            if self.thread is None:
                self.thread = threading.Thread(target=lambda: None)
        finally:
            try:
                super().close()
            finally:
                if self._saved_socket is not None:
                    self.SV.socket = self._saved_socket
                if self._saved_reactor is not None:
                    self._saved_reactor[0].reactor = self._saved_reactor[1]


class CBClient(V.HClient):
    """HClient whose connect callback can act: on_connect(hclient, ok) runs INSIDE the library's
    connection_callback (i.e. inside _recvServerHello, right after the CHALLENGE_RESP was queued)"""

    def __init__(self, sim, addr, pinned=True, on_connect=None):
        super().__init__(sim, addr, pinned=pinned)
        self.on_connect = on_connect

    def connect(self):
        def cb(ok):
            self.connected_cb.append(ok)
            if self.on_connect is not None:
                self.on_connect(self, ok)
        self.client.connect(V.SERVER_ADDR, cb)
        self.client.conn.clock = S.CLOCK.time


class WorldX(V.World):
    """srvsim.World over SimX; optional faults between the clients and the server:
    up(addr, raw)   -> list of datagrams that reach the server instead (client -> server)
    down(addr, raw) -> list of datagrams that reach the client instead (server -> client)"""

    def __init__(self, run, rng, cfg=DEFAULT_CFG, blocklist=(), mtu=1500, policy=None, full=True, t0=100 * T,
                 front="twisted", configure="before", api_sends=False, before_start=None, sentinel_first=False,
                 setter_order=None, hold_probe=False, cb_policy=None, reactor_busy=None):
        self.rng = rng
        self.reactor_busy = reactor_busy        # fn(world) -> True: the reactor thread gets no turn after this tick
        self.sim = SimX(run, cfg=cfg, blocklist=blocklist, mtu=mtu, policy=policy, full=full, front=front,
                        configure=configure, api_sends=api_sends, sentinel_first=sentinel_first,
                        setter_order=setter_order, hold_probe=hold_probe, cb_policy=cb_policy)
        self.t = t0
        self.clients = []
        self.by_addr = {}
        self.sent_hist = []
        self.batches = []
        self.up = None
        self.down = None
        self.recv_size = None
        if front == "udpserver":
            from mpgameserver.connection import Packet
            self.recv_size = Packet.RECV_SIZE
        if before_start is not None:
            before_start(self.sim)
        self.sim.start(self.t)

    def add_client(self, addr, pinned=True, on_connect=None):
        hc = CBClient(self.sim, addr, pinned=pinned, on_connect=on_connect)
        hc.connect()
        rec = {"hc": hc, "ticking": True, "addr": addr, "edit": None}
        self.clients.append(rec)
        self.by_addr[addr] = rec
        return rec

    def step(self, dt, extra=(), rand=(), transform=None):
        self.t += dt
        S.CLOCK.t = self.t
        batch = []
        for rec in self.clients:
            if not rec["ticking"]:
                continue
            for d in rec["hc"].tick():
                self.sent_hist.append((rec["addr"], d))
                if rec["edit"] is not None:
                    d = rec["edit"](rec, d)
                    if d is None:
                        continue
                for d2 in ([d] if self.up is None else self.up(rec["addr"], d)):
                    batch.append((rec["addr"], d2))
        batch += list(extra)
        if transform:
            batch = transform(batch)
        if self.recv_size is not None:
            # a UDP socket read with recvfrom(RECV_SIZE) hands over at most RECV_SIZE bytes of a datagram
            batch = [(a, d[:self.recv_size]) for a, d in batch]
        n0 = len(self.sim.sends)
        self.batches.append(batch)
        alive = self.sim.advance(self.t, batch, rand)
        if self.sim.reactor is not None and not (self.reactor_busy is not None and self.reactor_busy(self)):
            self.sim.reactor_turn()
        for (k, addr, data) in self.sim.sends[n0:]:
            rec = self.by_addr.get(addr)
            if rec is not None and rec["ticking"]:
                for d2 in ([data] if self.down is None else self.down(addr, data)):
                    rec["hc"].deliver(d2)
        return alive


def new_log(sim, n0):
    """log entries appended since position n0"""
    return sim.log[n0:]


def handler_events(entries, kind=None):
    return [o[1] for o in entries if o[0] == 0 and (kind is None or o[1][0] == kind)]
