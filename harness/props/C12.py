"""C12 — keep-alives and time-outs: idle links stay up, dead peers are detected, settings take effect.

Correspondence:
  * uclient_run (1201): random sequences of UdpClient.setKeepAliveInterval / setConnectionTimeout /
    setMessageTimeout / connect / update on the REAL UdpClient (fake socket, virtual clock) vs Model/Client.v:
    exception outcome of every call, the three settings of the client and of its connection, status,
    hello timer, connect-callback invocations.
  * scfg_run (1202): ServerContext setter sequences + the settings a new ServerClientConnection gets
    from the real server code path (UdpServerThread's new-address branch, driven with one client hello).
  * sweep_drops (1203): ConnectionBase.timedout / the sweep's drop test.
  * conn_run: idle / cut-link sessions of two real endpoints on a configuration grid (keep-alive interval K,
    tick tau, server connection time-out T) replayed on Conn.v with full state snapshots.
Oracle (implementation only): idle phase — per direction the gap between consecutive datagrams is at most
max(K, send_interval) + tau, nobody times out, nobody is DROPPED; after the cut — the server-side test
timedout(T) turns true at the first sweep with now - last_recv >= T and not before, the client reports DROPPED
at the first update later than last_recv + 5 s and not before; unanswered connect — DISCONNECTED at the first
update later than the configured time-out, callback exactly once with False; setters never raise and the
connection carries the values set last.
Server settings at every moment (settings_world): the real server loop behind every front door (harness/srvx.py), the ServerContext
configured before the server object is built OR between construction and start through the public setters (and set again while running):
a silent client gets its disconnect event at the first sweep with now - last datagram >= the configured connection time-out and not before,
a peer stalled after its hello loses its slot after the configured handshake time-out, new connections carry the configured keep-alive
interval and message time-out, the idle client stays; replayed on Server.v with the configured values (unit srv_run).
Two-endpoint composition (Model/TimedNet.v, theorems C12_idle_pair_*):
  * idle_pair_run (1210): joint timed schedules (harness/idlesim.py) of an established idle pair — both real
    endpoints under one virtual clock, the server loop's sweep rule applied as server.py does, datagrams
    delayed up to d, duplicated, reordered, tampered copies mixed in — replayed on the joint model and
    compared observation by observation (statuses, removed flag, liveness clocks, emission counts, sequence
    counters, window heads) together with the model's verdict on the theorems' hypotheses.
  Oracle: whenever max(K,si)+tau+d < T (server) and <= 5 s (client) and the schedule is admissible (recomputed
  in Python), nobody times out and per direction consecutive datagrams are at most max(K,si)+tau apart; the
  exactness witnesses of the Coq file (max(K,si)+tau+d = T over a perfect network) are replayed on the real
  endpoints and reported as the known limitation of the property's "keep-alive < timeout" quantifier."""
import types
from harness import lib, netsim, idlesim, connsim as S

RULE = ("setter/connect/update sequences (all orders, lengths 1..8); idle+cut sessions on a grid of keep-alive "
        "interval x tick x time-out (exact binary fractions); non-trivial = sequence with a setter both before and after "
        "connect / session idle for >= 10 keep-alive periods then cut; joint timed schedules of the idle pair (random tick gaps "
        "<= tau, delays <= d, copies, tampered copies) on a grid incl. the tightest T, plus the scripted exactness witnesses")
ASSUMPTIONS = ["time values are multiples of 1/1024 s (exact in binary floating point), so every float comparison in the code "
               "has the truth value of the model's integer comparison",
               "real clocks / thread scheduling are not modelled: update() calls are the harness's ticks",
               "two-endpoint theorems: the network shows every datagram to the peer within d of its emission (further copies only "
               "within `life`; anything else offered does not open under the session key; no bytes with an unparsable header), both "
               "sides call update() at least every tau, fewer than half the sequence ring alive (life <= 32766 * (max(K, si) + 1)), "
               "and the pair starts established with nothing in flight"]
TRUSTED = ["harness/connsim.py + netsim.py virtual clock (mpgameserver.connection.time replaced by a shim)",
           "harness/srvsim.py + srvx.py (stepped real server loop behind every front door, configured at every moment; ScriptedSocket stands "
           "for the OS socket under _UdpServer.run)",
           "harness/idlesim.py applies the server loop's sweep to one connection itself (DISCONNECTING -> disconnect(); removed when "
           "DISCONNECTED or ConnectionBase.timedout(connection_timeout); update() either way) instead of running UdpServerThread; "
           "Coq: C12_server_sweep_is_the_server_loop relates the same step to the server-loop model of C10/C11"]

T = S.TICKS


# ---------------------------------------------------------------- UdpClient setters

def gen_uops(rng, n):
    """ops over the grid of exact binary fractions (multiples of 15 ticks)"""
    ops = []
    now = T * 100
    connected = False
    for _ in range(n):
        r = rng.random()
        v = rng.choice([15, 150, 300, 768, 1536, 3000, 7680, 15360, 30720, 76800]) * rng.choice([1, 1, 2])
        if r < 0.2:
            ops.append([0, v])
        elif r < 0.4:
            ops.append([1, v])
        elif r < 0.6:
            ops.append([2, v])
        elif r < 0.75 or not connected:
            ops.append([3, now, rng.randrange(2)])
            connected = True
        else:
            now += rng.choice([15, 300, 1500, 15360, 40000])
            ops.append([4, now])
    return ops


def impl_uclient(ops):
    """run ops on the real UdpClient; returns (per-op observations, model ops)"""
    keys = S.Keys()
    S.CLOCK.t = T * 100
    im = S.Impl("client", keys, key=None, established=False)
    cl = im.client
    out, mops = [], []
    for op in ops:
        outs = []
        try:
            if op[0] == 0:
                cl.setKeepAliveInterval(op[1] / T)
                mops.append([0, op[1]])
            elif op[0] == 1:
                cl.setConnectionTimeout(op[1] / T)
                mops.append([1, op[1]])
            elif op[0] == 2:
                cl.setMessageTimeout(op[1] / T)
                mops.append([2, op[1]])
            elif op[0] == 3:
                o, mev = im.apply(("hello", op[1], op[2]))
                hello = mev[1][2]
                mops.append([3, op[1], hello, op[2]])
                outs = o
            else:
                o, mev = im.apply(("ctick", op[1], None))
                mops.append([4, mev])
                outs = o
        except Exception as e:      # noqa
            outs = [[3, lib.exc_code(e)]]
            mops.append(None)
        c = cl.conn
        snap = [S.ticks(cl.keep_alive_interval), S.ticks(cl.temp_connection_timeout), S.ticks(cl.outgoing_timeout),
                [] if c is None else [S.ticks(c.send_keep_alive_interval), S.ticks(c.temp_connection_timeout),
                                      S.ticks(c.outgoing_timeout), c.status.value,
                                      S.ticks(getattr(c, "time_client_hello_sent", 0)),
                                      1 if c.connection_callback else 0]]
        out.append([S.canon(outs), snap])
    return out, mops


def uops_permutations(rng, per):
    """every order of the three UdpClient setters x every position of connect() among them, values on both sides of the
    defaults (keep-alive 1536, connect time-out 30720, message time-out 15360) and of each other, then updates"""
    import itertools
    out = []
    grid = [15, 150, 768, 1536, 3000, 15360, 30720, 76800]
    for perm in itertools.permutations([0, 1, 2]):
        for pos in range(4):
            for _ in range(per):
                now = T * 100
                vals = {k: rng.choice(grid) for k in (0, 1, 2)}
                ops = [[k, vals[k]] for k in perm]
                ops.insert(pos, [3, now, rng.randrange(2)])
                if rng.random() < 0.5:
                    k = rng.choice(perm)
                    ops.append([k, rng.choice(grid)])      # one of them set a second time
                for _ in range(2):
                    now += rng.choice([15, 300, 1500])
                    ops.append([4, now])
                out.append(ops)
    return out


def check_uclient(run, n_seq, extra_seqs=()):
    cases, impl, margs, raised = [], [], [], []
    seqs = [None] * n_seq + list(extra_seqs)
    for i, given in enumerate(seqs):
        ops = gen_uops(run.rng, run.rng.randrange(1, 9)) if given is None else given
        obs, mops = impl_uclient(ops)
        # oracle: no setter / connect / update call raises; the connection carries the last values set
        last = {0: 1536, 1: 2 * T, 2: T}
        for k, (op, ob) in enumerate(zip(ops, obs)):
            if any(o[0] == 3 for o in ob[0]):
                run.oracle_violation("client-call-raised", {"ops": ops[:k + 1], "observed": ob[0]}, "UdpClient setters")
            if op[0] in (0, 1, 2):
                last[op[0]] = op[1]
            if ob[1][3] and ob[1][3][:3] != [last[0], last[1], last[2]]:
                run.oracle_violation("setting-not-effective", {"ops": ops[:k + 1], "conn_settings": ob[1][3][:3],
                                                               "expected": [last[0], last[1], last[2]]}, "UdpClient setters")
        cases.append(ops)
        impl.append(obs)
        raised.append(None in mops)
        if None not in mops:
            margs.append([S.env_for_mtu(1500), mops])
        kinds = [o[0] for o in ops]
        if 3 in kinds and any(k in (0, 1, 2) for k in kinds[:kinds.index(3)]) and any(k in (0, 1, 2) for k in kinds[kinds.index(3):]):
            run.nt(("uops", tuple(map(tuple, ops))))
        run.count("uclient_ops", len(ops))
    S.restore_mtu()
    replies = iter(run.model.call_many("uclient_run", margs))
    mod = []
    for r in raised:
        if r:
            mod.append("the model never raises here; the implementation did")
        else:
            mod.append([[S.canon(x[0]), x[1]] for x in next(replies)])
    run.compare("uclient_run", cases, impl, mod)
    if cases:
        run.sample({"unit": "uclient_run", "ops": cases[0], "observed": lib.jsonable(impl[0])[:3]})


# ---------------------------------------------------------------- ServerContext settings

def impl_scfg(ops):
    """ServerContext setters, then what a NEW connection gets from the real server loop's
    new-address branch (driven synchronously: one loop iteration on a client hello)"""
    from mpgameserver.context import ServerContext
    from mpgameserver.connection import ServerClientConnection
    ctxt = ServerContext(S.Handler(), S.root_key())
    for k, v in ops:
        [ctxt.setKeepAliveInterval, ctxt.setConnectionTimeout, ctxt.setTempConnectionTimeout, ctxt.setMessageTimeout][k](v / T)
    new = new_conn_via_server(ctxt)
    return [S.ticks(ctxt.keep_alive_interval), S.ticks(ctxt.connection_timeout), S.ticks(ctxt.temp_connection_timeout),
            S.ticks(ctxt.outgoing_timeout), S.ticks(new.send_keep_alive_interval), S.ticks(new.outgoing_timeout)]


SCFG_DEFAULTS = {0: 1536, 1: 5 * T, 2: 2 * T, 3: T}          # keep-alive, connection, handshake, message (ticks)
SCFG_NAMES = ["setKeepAliveInterval", "setConnectionTimeout", "setTempConnectionTimeout", "setMessageTimeout"]


def scfg_permutations(rng, per):
    """every order of the four ServerContext setters; value vectors: (a) everything below the defaults, keep-alive the smallest
    (a LAN configuration), (b) everything above, (c) drawn freely from a grid on both sides of the defaults and of each other;
    optionally one setter called a second time"""
    import itertools
    grid = [150, 300, 768, 1536, 3000, 15360, 30720, 76800, 153600]
    out = []
    for perm in itertools.permutations([0, 1, 2, 3]):
        vecs = [{0: rng.choice([150, 300]), 1: rng.choice([600, 768, 1200]), 2: rng.choice([450, 768, 1500]), 3: rng.choice([300, 768])},
                {0: rng.choice([3000, 15360]), 1: rng.choice([92160, 153600]), 2: rng.choice([46080, 153600]), 3: rng.choice([30720, 76800])}]
        for _ in range(per):
            vecs.append({k: rng.choice(grid) for k in range(4)})
        for v in vecs:
            ops = [[k, v[k]] for k in perm]
            if rng.random() < 0.3:
                ops.append([rng.randrange(4), rng.choice(grid)])
            out.append(ops)
    return out


def scfg_oracle(run, ops, got):
    """settings made on the ServerContext take effect: every setting holds the value given to its setter last (the default
    when the setter was never called), whatever the order of the calls; a connection the server creates carries them"""
    last = dict(SCFG_DEFAULTS)
    for k, v in ops:
        last[k] = v
    exp = [last[0], last[1], last[2], last[3], last[0], last[3]]
    if not last[0] < last[1]:
        run.count("scfg_cases_outside_the_quantifier(keep-alive >= time-out: model comparison only)")
        return
    if got != exp:
        names = ["keep_alive_interval", "connection_timeout", "temp_connection_timeout", "outgoing_timeout",
                 "new connection send_keep_alive_interval", "new connection outgoing_timeout"]
        run.oracle_violation("server-setting-not-effective",
                             {"calls_in_order": [[SCFG_NAMES[k], v] for k, v in ops], "ticks_per_second": T,
                              "wrong": {names[i]: {"holds": got[i], "set_last": exp[i]} for i in range(6) if got[i] != exp[i]}},
                             "context.py:ServerContext setters")


def new_conn_via_server(ctxt):
    """run the real UdpServerThread for one client hello and return the connection it created"""
    import mpgameserver.server as SV
    import threading
    keys = S.Keys()
    S.CLOCK.t = T * 100
    cl = S.Impl("client", keys, key=None, established=False)
    cl.apply(("hello", S.CLOCK.t, 0))
    cl.apply(("ctick", S.CLOCK.t + 300, None))
    hello = cl.last_sent[0]
    sock = types.SimpleNamespace(sendto=lambda d, a: None, close=lambda: None)
    from mpgameserver.connection import PacketHeader
    th = SV.UdpServerThread(sock, ctxt)
    addr = ("10.9.9.9", 5555)
    th.append(addr, PacketHeader.from_bytes(True, hello), hello)
    t = threading.Thread(target=th.run, daemon=True)
    t.start()
    import time as _t
    for _ in range(4000):      # up to 20 s on a loaded machine; normally the first iteration
        if addr in ctxt.temp_connections or addr in ctxt.connections:
            break
        _t.sleep(0.005)
    conn = ctxt.temp_connections.get(addr) or ctxt.connections.get(addr)
    ctxt._active = False
    th._wake()
    t.join(2.0)
    if conn is None:
        raise RuntimeError("server thread did not create a connection for the client hello")
    return conn


# ---------------------------------------------------------------- idle / cut sessions

def session_idle_cut(run, rng, K, tau, Tconn, idle_steps, label):
    """established pair; idle for idle_steps ticks of tau over a perfect network, then the link is cut"""
    cfg = {"loss": 0, "dup": 0, "reorder": 0, "tick": tau}
    net = netsim.Net(run, rng, cfg, mtu=1500)
    viol = []
    try:
        for who in ("client", "server"):
            net.ep(who).apply(("cfg", 0, K))
        si = 256
        bound = max(K, si) + tau
        cut_at = None
        first_timedout = None
        first_dropped = None
        def last_accept(who):
            """time of the last datagram that endpoint accepted, as observed by the harness (not read
            from the connection's own liveness field)"""
            acc = net.accepted[who]
            return acc[-1][0] if acc else net.ep(who).now0

        for i in range(idle_steps):
            net.step()
            srv, cli = net.B.impl.conn, net.A.impl.conn
            if srv.timedout(Tconn / T) != (net.t - last_accept("server") >= Tconn):
                viol.append(("spurious-server-timeout", {"step": i, "now": net.t, "last_accepted": last_accept("server")}))
            if cli.status.value == 5:
                viol.append(("spurious-client-dropped", {"step": i}))
        for who in ("client", "server"):
            ts = [r["time"] for r in net.emitted[who]]
            gaps = [b - a for a, b in zip(ts, ts[1:])]
            if gaps and max(gaps) > bound:
                viol.append(("keepalive-gap-too-long", {"who": who, "gap": max(gaps), "bound": bound}))
            if len(ts) < 2:
                viol.append(("no-keepalives", {"who": who}))
        # cut the link: nothing is delivered any more
        net.cfg["loss"] = 1.0
        net.flight = []
        cut_at = net.t
        last_srv = last_accept("server")
        last_cli = last_accept("client")
        steps_after = (max(Tconn, 5 * T) + 2 * T) // tau + 3
        for i in range(steps_after):
            net.step()
            srv, cli = net.B.impl.conn, net.A.impl.conn
            to = srv.timedout(Tconn / T)
            if to and first_timedout is None:
                first_timedout = net.t
            if to != (net.t - last_srv >= Tconn):
                viol.append(("server-timeout-wrong-moment", {"now": net.t, "last_recv": last_srv, "T": Tconn, "timedout": to}))
            dr = cli.status.value == 5
            if dr and first_dropped is None:
                first_dropped = net.t
            if dr != (net.t > last_cli + 5 * T):
                viol.append(("client-dropped-wrong-moment", {"now": net.t, "last_recv": last_cli, "dropped": dr}))
        diffs = net.check_models()
    finally:
        net.close()
    for what, case in viol[:3]:
        case.update({"session": label, "K": K, "tau": tau, "T": Tconn})
        run.oracle_violation(what, case, "keepalive/timeout")
    return net, diffs


def connect_timeout_case(run, rng, tt, with_cb, tau):
    """unanswered connect: DISCONNECTED at the first update later than tt, callback once with False"""
    keys = S.Keys()
    S.CLOCK.t = T * 100
    im = S.Impl("client", keys, key=None, established=False)
    im.client.setConnectionTimeout(tt / T)
    t0 = S.CLOCK.t
    im.apply(("hello", t0, with_cb))
    cbs = []
    when = None
    now = t0
    for i in range((tt + 3 * T) // tau + 2):
        now += tau
        outs, _ = im.apply(("ctick", now, None))
        cbs += [(now, o[1]) for o in outs if o[0] == 4]
        st = im.conn.status.value
        if st == 4 and when is None:
            when = now
        if (st == 4) != (now - t0 > tt) and when is None:
            run.oracle_violation("connect-timeout-wrong-moment", {"tt": tt, "now": now - t0, "status": st, "with_cb": with_cb}, "ClientServerConnection.update")
    exp = [0] if with_cb else []
    if [v for _, v in cbs] != exp or when is None:
        run.oracle_violation("connect-timeout-callback", {"tt": tt, "with_cb": with_cb, "callbacks": cbs, "disconnected_at": when}, "ClientServerConnection.update")
    return 1


# ---------------------------------------------------------------- the two endpoints together

def idle_pair_compare(run, p, tau, d, life, label, cases, impl, margs):
    ok_params = idlesim.params_ok(p.KC, p.KS, tau, d, p.Tconn, life)
    adm, why = p.admissible(tau, d, life)
    cases.append({"session": label, "KC": p.KC, "KS": p.KS, "tau": tau, "d": d, "life": life, "T": p.Tconn, "events": len(p.events),
                  "admissible": adm, "why": why})
    impl.append([1, 1 if ok_params else 0, 1 if adm else 0, p.obs])
    margs.append(p.model_args(tau, d, life))
    return ok_params, adm


def idle_pair_oracle(run, p, tau, d, label):
    """implementation only: inside the bound nobody times out and keep-alives keep their cadence"""
    bad = [i for i, st in enumerate(p.statuses) if st != (2, 2, False)]
    if bad:
        i = bad[0]
        run.oracle_violation("idle-pair-timed-out", {"session": label, "KC": p.KC, "KS": p.KS, "tau": tau, "d": d, "T": p.Tconn,
                                                     "event": i, "at": p.events[i][1] - p.t0, "statuses": list(p.statuses[i])},
                             "keepalive/timeout, two endpoints")
    for who, K in (("client", p.KC), ("server", p.KS)):
        bound = max(K, idlesim.SI) + tau
        ts = [p.t0 - max(K, idlesim.SI)] + [r["time"] for r in p.em[who]] + [p.times[-1]]
        gaps = [b - a for a, b in zip(ts, ts[1:])]
        if max(gaps) > bound:
            run.oracle_violation("keepalive-gap-too-long", {"session": label, "who": who, "gap": max(gaps), "bound": bound,
                                                            "K": K, "tau": tau, "d": d}, "keepalive/timeout, two endpoints")


def check_idle_pairs(run, rng, th):
    cases, impl, margs = [], [], []
    ps = []
    # 1. random admissible schedules on a configuration grid, inside the bound (also just inside it)
    grid = []
    for KC, KS in ((1536, 1536), (3000, 765), (15, 7680), (7680, 1530)):
        for tau in (300, 1500):
            for d in (0, 600, 4500):
                M = max(KC, KS, idlesim.SI)
                grid.append((KC, KS, tau, d, M + tau + d + 15))            # the tightest T on the 15-tick grid
                grid.append((KC, KS, tau, d, 5 * T))
    grid = [g for g in grid if idlesim.params_ok(*g, life=g[3] + 3 * T)]
    grid = grid * 4 if th else rng.sample(grid, 6)
    for n, (KC, KS, tau, d, Tc) in enumerate(grid):
        life = d + (0 if n % 2 else 3 * T)          # copies also long after the first one
        p = idlesim.random_session(run, rng, KC, KS, tau, d, Tc, 700 if th else 160, regular=(n % 3 == 0),
                                   loss=(0.1 if n % 7 == 6 else 0.0), life=life, dup=0.3)
        try:
            okp, adm = idle_pair_compare(run, p, tau, d, life, "pair%d" % n, cases, impl, margs)
            if okp and adm:
                idle_pair_oracle(run, p, tau, d, "pair%d" % n)
                run.nt(("idle_pair", KC, KS, tau, d, Tc))
            run.count("idle_pair_sessions")
            run.count("idle_pair_admissible" if adm else "idle_pair_inadmissible")
            run.evaluations += len(p.events)
            diffs = p.net.check_models()
            if diffs:
                run.oracle_violation("endpoint-model-differs", {"session": "pair%d" % n, "first": diffs[0]}, "conn_run")
        finally:
            p.close()
        ps.append(p)
    # 2. the exactness witnesses of Properties/C12.v on the real endpoints (15-tick grid)
    t0 = T * 100

    def rnd(t):
        """one exchange at time t over a perfect network: every datagram emitted at t is shown to the peer at t"""
        return [("s", t), ("c", t, "new"), ("r", t, "new")]

    def rounds(n):
        # the harness establishes the pair with both keep-alive timers overdue: both sides emit at the first round
        return [e for i in range(n) for e in rnd(t0 + 1800 * (i + 1))]

    t1 = t0 + 1800           # first exchange: the liveness clocks and keep-alive timers restart here
    wit = [
        # (label, KC, KS, T, script, expected final (client status, server status, removed), inside the bound?)
        ("keepalive-below-timeout-server", 75000, 1536, 76800,
         rounds(42) + rnd(t1 + 75000) + [("c", t1 + 76800), ("s", t1 + 76800)], (2, 2, True), False),
        ("after-the-removal", 75000, 1536, 76800,
         rounds(42) + rnd(t1 + 75000) + [("c", t1 + 76800), ("s", t1 + 76800)] + rnd(t1 + 78600) + rnd(t1 + 80400), (2, 2, True), None),
        ("keepalive-below-timeout-client", 1536, 75015, 76800 + 15 * 1000,
         rounds(42) + rnd(t1 + 75015) + [("s", t1 + 76815), ("c", t1 + 76815, "new")], (5, 2, False), False),
        ("after-dropped", 1536, 75015, 76800 + 15 * 1000,
         rounds(42) + rnd(t1 + 75015) + [("s", t1 + 76815), ("c", t1 + 76815, "new")] + rnd(t1 + 78615) + rnd(t1 + 80415), (5, 2, False), None),
        ("just-inside-server", 74985, 1536, 76800,
         rounds(42) + rnd(t1 + 74985) + [("c", t1 + 76785), ("s", t1 + 76785), ("r", t1 + 76785, "new"), ("c", t1 + 76785, "new")]
         + rnd(t1 + 78585), (2, 2, False), True),
        ("just-inside-client", 1536, 75000, 76800 + 15 * 1000,
         rounds(42) + rnd(t1 + 75000) + [("s", t1 + 76800), ("c", t1 + 76800, "new"), ("r", t1 + 76800, "new")]
         + rnd(t1 + 78600), (2, 2, False), True),
    ]
    for label, KC, KS, Tc, script, expect, inside in wit:
        p = idlesim.scripted_session(run, rng, KC, KS, Tc, script)
        try:
            okp, adm = idle_pair_compare(run, p, 1800, 0, 0, label, cases, impl, margs)
            final = p.statuses[-1]
            if not adm and inside is not None:
                run.oracle_violation("witness-schedule-not-admissible", {"session": label}, "harness/idlesim.py")
            if inside is None:
                pass        # what happens after a time-out: correspondence only (the schedule is no longer admissible)
            elif inside:
                if not okp:
                    run.oracle_violation("witness-not-inside-bound", {"session": label}, "harness/idlesim.py")
                idle_pair_oracle(run, p, 1800, 0, label)
            elif final != (2, 2, False):
                # keep-alive interval < time-out, perfect network, and yet the pair times out: the known limitation
                run.oracle_violation("idle-pair-times-out-with-keepalive-below-timeout",
                                     {"network": "perfect", "session": label, "KC": KC, "KS": KS, "tau": 1800, "d": 0, "T": Tc,
                                      "final": list(final)}, "ConnectionBase.timedout / ClientServerConnection.update vs _build_packet")
            if final != expect:
                run.oracle_violation("witness-outcome-unexpected", {"session": label, "final": list(final), "expected": list(expect)},
                                     "keepalive/timeout, two endpoints")
            run.nt(("idle_witness", label))
            run.count("idle_pair_witnesses")
            run.evaluations += len(p.events)
        finally:
            p.close()
    replies = run.model.call_many("idle_pair_run", margs)
    mod = [[r[0], r[1], r[2], r[3]] for r in replies]
    run.compare("idle_pair_run", cases, impl, mod)
    if cases:
        run.sample({"unit": "idle_pair_run", "case": cases[0], "last_observation": impl[0][3][-1]})



# ---------------------------------------------------------------- ServerContext settings at every moment of the server object's life

SRV_RULE = ("server-loop worlds (harness/srvx.py): for every front door (TwistedServer + fresh thread, the thread TwistedServer / "
            "ThreadedServer build in their constructor, _UdpServer.run) x moment of configuration (context configured, then server built | "
            "server object built on a default context, THEN the public setters, then start | the same values set again while running) x a "
            "grid of connection / handshake time-outs on both sides of the defaults, keep-alive interval and message time-out: an idle client "
            "that keeps ticking, a client that goes silent, a peer that stalls after its hello; non-trivial = world configured between "
            "construction and start whose silent client and stalled peer were both removed")


ORDER_RULE = ("setter ORDER: all 24 orders of the four ServerContext setters (unit scfg_run: value vectors all below the defaults with the "
              "keep-alive smallest, all above, free; one setter possibly repeated — and settings worlds configured between construction and "
              "start in that order, 2 of 3 with a LAN configuration below every default: connection time-out 50-100 ms, keep-alive 10-30 ms, "
              "tick 10-20 ms, clients set their keep-alive after connect()); all 6 orders of the UdpClient setters x 4 positions of connect(); "
              "non-trivial = every enumerated case")


def settings_world(run, rng, idx, front, configure, rerun_setters, order=None, lan=False):
    """order: the order in which the four public setters are called (configure="between"); lan: a configuration BELOW the defaults
    (time-outs of tens of milliseconds, keep-alive below the send interval) — the clients then set their own keep-alive interval
    through UdpClient.setKeepAliveInterval after connect() so that the idle link is legal (keep-alive + ticks < time-out)"""
    from harness import srvsim as V, srvx as X
    Tconn = rng.choice([7680, 15360, 46080, 5 * T, 8 * T])
    Ttemp = rng.choice([3840, 7680, 2 * T, 4 * T])
    K = rng.choice([k for k in (765, 1536, 3000, 7680) if k < Tconn])
    Tmsg = rng.choice([3840, T, 2 * T])
    dt_lan = None
    if lan:
        Tconn, K, dt_lan = rng.choice([(768, 150, 150), (1200, 300, 150), (1500, 150, 300), (1200, 450, 225)])
        Ttemp = rng.choice([1500, 3840, 7680])
        Tmsg = rng.choice([768, 3840])
    cfg = (Tconn, Ttemp, K, Tmsg)
    policy = V.random_policy(rng, p_raise=rng.choice([0.0, 0.3]), echo=0.0, chatty=False)     # a raising handler changes no time-out
    try:
        w = X.WorldX(run, rng, cfg=cfg, policy=policy, full=True, front=front, configure=configure, setter_order=order)
    except Exception as e:      # noqa  (a setter raised)
        run.oracle_violation("server-setting-raised", {"world": idx, "front": front, "configured": configure, "cfg": list(cfg),
                                                       "setter_order": list(order) if order else None,
                                                       "exception": repr(e)[:120]}, "ServerContext setters")
        return None, None
    sim = w.sim
    base = {"scenario": "server settings", "world": idx, "front": front, "configured": configure,
            "connection_timeout": Tconn, "temp_connection_timeout": Ttemp, "keep_alive": K, "message_timeout": Tmsg}
    if order:
        base["setter_order"] = list(order)
    a_idle, a_silent, a_stall = ("10.12.0.1", 5001), ("10.12.0.2", 5002), ("10.12.0.3", 5003)
    last_fed, prev_fed, cid_addr, disconnected, connected_before = {}, {}, {}, {}, set()
    stall_hello_at = None
    viol = []
    facts, late = set(), set()
    try:
        idle = w.add_client(a_idle)
        silent = w.add_client(a_silent)
        stall = None
        dt = rng.choice([300, 600, 1500])
        go_silent = rng.randrange(14, 24)
        horizon = go_silent + (max(Tconn, Ttemp, 5 * T) + 2 * T) // dt + 6
        if lan:
            dt = dt_lan
            horizon = go_silent + (max(Tconn, Ttemp) + 1536) // dt + 8
            for rec in (idle, silent):
                rec["hc"].client.setKeepAliveInterval(K / T)
        # the CLIENT's own message time-out is independent of every liveness setting: in half of the worlds the idle client sets
        # one BELOW the server's keep-alive interval, so that the acknowledgement of its CHALLENGE_RESP (piggy-backed on the
        # server's first keep-alive) arrives after the client has declared that datagram timed out — the link must stay up
        if idx % 2 == 0:
            below = [v for v in (150, 300, 750, 1500, 3840) if v < K]
            if below:
                idle["hc"].client.setMessageTimeout(below[-1] / T)
                base["idle_client_message_timeout"] = below[-1]
                run.count("settings_worlds_client_message_timeout_below_server_keep_alive")
        settings_seen = False
        for st in range(horizon):
            if st == go_silent:
                silent["ticking"] = False
                stall = w.add_client(a_stall)
            if stall is not None and stall["ticking"] and stall_hello_at is not None:
                stall["ticking"] = False           # the hello is out: the peer stalls mid-handshake
            if rerun_setters and st in (5, go_silent + 3):
                try:
                    c = sim.ctxt
                    if order:
                        vals = {"setConnectionTimeout": Tconn / T, "setTempConnectionTimeout": Ttemp / T,
                                "setKeepAliveInterval": K / T, "setMessageTimeout": Tmsg / T}
                        for name in order:
                            getattr(c, name)(vals[name])
                    else:
                        c.setConnectionTimeout(Tconn / T); c.setTempConnectionTimeout(Ttemp / T)
                        c.setKeepAliveInterval(K / T); c.setMessageTimeout(Tmsg / T)
                except Exception as e:      # noqa
                    viol.append(("server-setting-raised", {"exception": repr(e)[:120], "when": "running"}))
            n0 = len(sim.log)
            alive = w.step(dt)
            now = w.t
            for a, d in w.batches[-1]:
                last_fed[a] = now
                if a == a_stall and stall_hello_at is None and len(d) >= 20 and d[12] == 1:
                    stall_hello_at = now
            new_disc = []
            for o in sim.log[n0:]:
                if o[0] == 0 and o[1][0] == 3:
                    cid_addr[o[1][1]] = V.va(o[1][2])
                elif o[0] == 0 and o[1][0] == 5:
                    new_disc.append(cid_addr.get(o[1][1]))
            # (a) a connected client is dropped by the first sweep with now - last datagram >= the CONFIGURED time-out, not before;
            #     the sweep of this iteration ran at `now`, BEFORE this step's datagrams were looked at
            for a, rec in ((a_idle, idle), (a_silent, silent)):
                if a in disconnected:
                    if a in new_disc:
                        viol.append(("client-disconnected-twice", {"addr": list(a), "step": st}))
                    continue
                was_connected = a in connected_before
                lf = prev_fed.get(a)
                due = was_connected and lf is not None and now - lf >= Tconn
                if a in new_disc:
                    disconnected[a] = now
                    if a in late:
                        pass            # reported when it was due
                    elif not due:
                        viol.append(("server-timeout-wrong-moment", {"addr": list(a), "client": "idle" if a == a_idle else "silent", "step": st,
                                                                     "silence": None if lf is None else now - lf, "expected_after": Tconn,
                                                                     "direction": "early"}))
                    else:
                        facts.add("silent-dropped")
                elif due and a not in late:
                    late.add(a)
                    viol.append(("server-timeout-wrong-moment", {"addr": list(a), "client": "idle" if a == a_idle else "silent", "step": st,
                                                                 "silence": now - lf, "expected_after": Tconn, "direction": "late"}))
            # (b) the stalled peer's temporary slot
            if stall_hello_at is not None and now > stall_hello_at:
                present = a_stall in sim.ctxt.temp_connections
                expect = now - stall_hello_at < Ttemp
                if present != expect and "temp" not in facts:
                    facts.add("temp")
                    viol.append(("handshake-timeout-wrong-moment", {"addr": list(a_stall), "step": st, "since_hello": now - stall_hello_at,
                                                                    "expected_after": Ttemp, "slot_present": present}))
                if not present and expect is False:
                    facts.add("stalled-removed")
            # (c) what a connection created by the server carries
            for a in (a_idle, a_silent):
                sc = sim.ctxt.connections.get(a)
                if sc is not None and not settings_seen:
                    got = [S.ticks(sc.send_keep_alive_interval), S.ticks(sc.outgoing_timeout)]
                    if got != [K, Tmsg]:
                        viol.append(("setting-not-effective", {"addr": list(a), "connection_settings": got, "expected": [K, Tmsg]}))
                    settings_seen = True
            for a in last_fed:
                prev_fed[a] = last_fed[a]
            connected_before = set(cid_addr.values())
            if not alive:
                viol.append(("server-loop-died", {"step": st, "exception": repr(sim.thread_exc)[:120]}))
                break
        if a_idle in disconnected or idle["hc"].status() != 2:
            viol.append(("idle-link-dropped", {"client_status": idle["hc"].status(), "server_dropped_at": disconnected.get(a_idle)}))
        w.finish()
        if sim.internal:
            raise RuntimeError("harness-internal problem: %s" % sim.internal[:3])
        diff = sim.check_model()
        for what, case in viol[:4]:
            run.oracle_violation(what, dict(base, **case), "server.py sweep / ServerContext")
        run.count("settings_worlds")
        run.count("settings_worlds_" + configure)
        if order:
            run.count("settings_worlds_with_permuted_setters")
        if lan:
            run.count("settings_worlds_below_the_defaults")
        run.evaluations += len(sim.steps)
        if configure == "between" and {"silent-dropped", "stalled-removed"} <= facts:
            run.nt(("settings-world", idx, front, cfg))
        return dict(base, first_difference=lib.jsonable(diff)), diff
    finally:
        w.close()

def run(run):
    rng = run.rng
    th = run.thorough()
    # 1. UdpClient setters
    check_uclient(run, 1500 if th else 150, uops_permutations(rng, 4 if th else 1))
    run.exhaustive.append("UdpClient: all 6 orders of the three setters x 4 positions of connect()")
    # 2. ServerContext settings
    cases, impl, margs = [], [], []
    for i in range(40 if th else 6):
        ops = [[rng.randrange(4), rng.choice([150, 768, 1536, 3000, 15360, 30720, 76800])] for _ in range(rng.randrange(0, 6))]
        cases.append(ops)
        impl.append(impl_scfg(ops))
        margs.append([ops])
    for ops in scfg_permutations(rng, 6 if th else 1):
        try:
            got = impl_scfg(ops)
        except Exception as e:      # noqa
            run.oracle_violation("server-setting-raised", {"calls_in_order": [[SCFG_NAMES[k], v] for k, v in ops], "exception": repr(e)[:120]},
                                 "context.py:ServerContext setters")
            continue
        scfg_oracle(run, ops, got)
        cases.append(ops)
        impl.append(got)
        margs.append([ops])
        run.nt(("scfg", tuple(map(tuple, ops))))
        run.count("scfg_permutation_cases")
    run.exhaustive.append("ServerContext: all 24 orders of the four setters")
    run.compare("scfg_run", cases, impl, run.model.call_many("scfg_run", margs))
    # 3. the drop test
    cases, impl = [], []
    from mpgameserver.connection import ConnectionBase, ConnectionStatus
    for i in range(4000 if th else 600):
        Tm = rng.choice([1530, 15360, 30720, 76800])    # multiples of 15 ticks: exact binary fractions of a second
        last = T * 100 + rng.randrange(0, 50) * 15
        now = last + rng.choice([Tm - 15, Tm, Tm + 15, rng.randrange(0, 3 * Tm // 15) * 15])
        st = rng.choice([1, 2, 3, 4, 5])
        c = ConnectionBase(True, ("h", 1))
        c.clock = lambda now=now: now / T
        c.last_recv_time = last / T
        c.status = ConnectionStatus(st)
        cases.append([Tm, st, last, now])
        impl.append(1 if (c.status == ConnectionStatus.DISCONNECTED or c.timedout(Tm / T)) else 0)
    run.compare("sweep_drops", cases, impl, run.model.call_many("sweep_drops", cases))
    # 4. idle / cut sessions on the configuration grid
    grid = [(K, tau, Tc) for K in (768, 1536, 3000, 7680) for tau in (300, 600, 1500) for Tc in (7680, 2 * T, 5 * T)
            if max(K, 256) + 2 * tau < Tc]
    if not th:
        grid = rng.sample([g for g in grid if g[2] == 7680], 2) + rng.sample(grid, 5)
    scases, simpl, smod = [], [], []
    for n, (K, tau, Tc) in enumerate(grid):
        idle_steps = max(40, (12 * K) // tau)
        net, diffs = session_idle_cut(run, rng, K, tau, Tc, idle_steps, "idle%d" % n)
        scases.append({"K": K, "tau": tau, "T": Tc, "idle_steps": idle_steps, "first_difference": diffs[:1]})
        simpl.append("agree"); smod.append("agree" if not diffs else "differ")
        run.nt(("idle", K, tau, Tc))
        run.count("idle_sessions")
        run.evaluations += len(net.emitted["client"]) + len(net.emitted["server"])
    run.compare("conn_run", scases, simpl, smod)
    # 5. unanswered connects
    for tt in ([768, 3000, 15360, 30720, 46080] if th else [3000, 30720]):
        for with_cb in (0, 1):
            for tau in ((300, 1500, 4500) if th else (300, 1500)):
                run.evaluations += connect_timeout_case(run, rng, tt, with_cb, tau)
                run.count("connect_timeout_cases")
    # 6. the two endpoints together
    check_idle_pairs(run, rng, th)
    # 7. ServerContext settings at every moment of the server object's life, behind every front door
    from harness import srvx as X
    cases, impl, mod = [], [], []
    combos = [(f, c) for c in ("between", "before") for f in X.FRONTS]
    for i in range(120 if th else 10):
        front, configure = combos[i % len(combos)]
        with X.logging_enabled():
            c, diff = settings_world(run, rng, i, front, configure, rerun_setters=(i % 3 == 2))
        if c is not None:
            cases.append(c); impl.append("agree"); mod.append("agree" if not diff else "differ")
    # 8. every ORDER of the four public setters between construction and start, with configurations below and above the defaults
    import itertools
    perms = list(itertools.permutations(X.SETTERS))
    rng.shuffle(perms)
    for i, order in enumerate(perms * (3 if th else 1)):
        front = X.FRONTS[i % len(X.FRONTS)]
        with X.logging_enabled():
            c, diff = settings_world(run, rng, 1000 + i, front, "between", rerun_setters=(i % 4 == 3), order=order, lan=(i % 3 != 2))
        if c is not None:
            cases.append(c); impl.append("agree"); mod.append("agree" if not diff else "differ")
    run.exhaustive.append("settings worlds: all 24 orders of the four ServerContext setters between construction and start")
    run.compare("srv_run", cases, impl, mod)
    run.rules.append(ORDER_RULE)
    run.rules.append(SRV_RULE)
    run.rules.append(RULE)
