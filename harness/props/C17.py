"""C17 — path_join_safe never returns a path outside the root.
Correspondence units: path_join_safe, posix_join, posix_normpath, posix_abspath, path_strops
(model of http_server.path_join_safe and of the posixpath functions it calls, cwd as a parameter)
vs the real functions.  Oracle: containment restated on the implementation alone."""
import os, itertools, tempfile
from harness import lib

RULE = ("names = absolute prefix x up to N segments over the adversarial alphabet ('..','.','',names,'...','a.b') x both "
        "separators (N=3 quick, 5 thorough, exhaustive) x roots (absolute, relative, with '..', '/', '//', trailing slash); "
        "random unicode strings; names captured by the real router's ':path*' from URLs; cwd = several real directories "
        "(os.chdir) plus synthetic os.getcwd() values; non-trivial = the name passes the '.'/'..' filter (accepted, or "
        "rejected only by the containment test); percent-encoded names: every sequence of <= 2 (thorough 3) segments over "
        "{%2e%2e, %2e, %2E%2E, .%2e, a%2fb, %2f, %5c, ..%2f.., %252e%252e, %c0%ae%c0%ae, %00, .., a} x both separators x all "
        "prefixes x all roots, and the same shapes through the router's ':path*' capture; process history: relative and "
        "absolute roots asked again and again while the working directory changes between consecutive calls; IDENTIFICATION names: "
        "segments that a canonicalisation would turn into '..', '.', a separator or another name (full-width / one-dot-leader dots, "
        "division / full-width slashes, zero-width and blank padding of '..', case variants, NFC/NFD/NFKC variants, ligatures, "
        "trailing dot / blank, percent forms) alone, in pairs, under absolute prefixes, plus every identlib.text_variants of four "
        "sample names; every accepted result must be THE joined path (root components + the name's components unchanged)")
ASSUMPTIONS = ["os.getcwd() returns an absolute path (premise of the theorems)",
               "no symbolic links are considered: containment is lexical (component lists), as in the property statement"]
TRUSTED = ["CPython posixpath.join/normpath/abspath are modelled (PathJoin.v) and compared differentially, not verified"]

S = lambda s: [ord(c) for c in s]
U = lambda l: "".join(chr(c) for c in l)


class Cwd:
    """either a real chdir or a synthetic os.getcwd()"""
    def __init__(self, path, synthetic=False):
        self.path, self.synthetic = path, synthetic

    def __enter__(self):
        self.old = os.getcwd()
        self.oldf = os.getcwd
        if self.synthetic:
            os.getcwd = lambda p=self.path: p
        else:
            os.chdir(self.path)
            assert os.getcwd() == self.path, (os.getcwd(), self.path)
        return self

    def __exit__(self, *a):
        os.getcwd = self.oldf
        os.chdir(self.old)


def impl_pjs(root, name):
    from mpgameserver.http_server import path_join_safe
    return lib.guarded(lambda: S(path_join_safe(root, name)))


def contained(cwd, root, p):
    """the property, on strings, without the model: p is absolute, has no '.', '..' component and its
    component list extends the component list of the absolute normalised root"""
    r = root.replace("\\", "/")
    if not r.startswith("/"):
        r = cwd.rstrip("/") + "/" + r
    # lexical normalisation written out independently (stack machine)
    st = []
    for c in r.split("/"):
        if c in ("", "."):
            continue
        if c == "..":
            if st:
                st.pop()
            continue
        st.append(c)
    pc = [c for c in p.split("/") if c]
    return p.startswith("/") and "." not in pc and ".." not in pc and pc[:len(st)] == st


SEGS_Q = ["..", ".", "", "a", "etc", "a.b", "..."]
PREFIXES = ["", "/", "//", "///", "\\", "\\\\", "C:\\", "C:/", "/srv/www/", "/srv/", "\\srv\\www\\", "/srv/wwwx/"]
ROOTS = ["/srv/www", "/srv/www/", "/srv", "/", "//", "//srv", "///srv//www", "rel", "rel/sub/", "rel/../x", "..", ".", "",
         "/srv/../www", "/srv/./www/..", "srv\\www", "\\srv\\www", "/a b/\u00e9"]


def gen_names(run, nseg):
    out = []
    for k in range(0, nseg + 1):
        for segs in itertools.product(SEGS_Q if k <= 4 else SEGS_Q[:5], repeat=k):
            for sep in ("/", "\\"):
                if k <= 1 and sep == "\\":
                    continue
                out.append(sep.join(segs))
    return out


PCT_SEGS = ["%2e%2e", "%2e", "%2E%2E", ".%2e", "a%2fb", "%2f", "%5c", "..%2f..", "%252e%252e", "%c0%ae%c0%ae", "%00", "..", "a"]


def gen_pct_names(nseg):
    out = []
    for k in range(1, nseg + 1):
        for segs in itertools.product(PCT_SEGS, repeat=k):
            if all(s in ("..", "a") for s in segs):
                continue                       # already in the plain sweep
            for sep in ("/", "\\"):
                if k == 1 and sep == "\\":
                    continue
                out.append(sep.join(segs))
    return out


def joined(cwd, root, name):
    """the component list of the normalised join of root and name, written out independently: the components of the
    absolute root (dot segments resolved) followed by the non-empty components of the name AS THEY ARE (an absolute name
    starts again from '/')"""
    r = root.replace("\\", "/")
    if not r.startswith("/"):
        r = cwd.rstrip("/") + "/" + r
    st = []
    for c in r.split("/"):
        if c in ("", "."):
            continue
        if c == "..":
            if st:
                st.pop()
            continue
        st.append(c)
    n = name.replace("\\", "/")
    return ([] if n.startswith("/") else st) + [c for c in n.split("/") if c]


# names an implementation might IDENTIFY with another name (or with '.', '..', a separator): each is a name of its own
IDENT_SEGS = ["\uff0e\uff0e", "\u2025", "\u2024\u2024", ".\u200b.", "..\u200b", "\ufeff..", ".. ", " ..", "..\t", "..\x00", "...", "..;",
              "\u2215", "\uff0f", "\u2044", "\u29f8", "\uff3c", "a\u2215b", "..\uff0fetc", "\uff0e\uff0e\uff0fetc", "\u2025\u2215x",
              "A", "a", "ETC", "Etc", "etc", "etc.", "etc ", "caf\u00e9", "cafe\u0301", "CAF\u00c9", "\ufb01le", "file", "FILE", "\uff41",
              "a\u00ad", "a\u200d", "\u0130", "i\u0307", "stra\u00dfe", "strasse", "%41", "%c0%ae%c0%ae", "~", "a:b", "a::$DATA", "CON", "a.", "a "]


def gen_ident_names(r, thorough):
    from harness import identlib
    out = []
    for k in (1, 2):
        for segs in itertools.product(IDENT_SEGS, repeat=k) if k == 1 else [tuple(r.choice(IDENT_SEGS + ["..", ".", "", "a"]) for _ in range(2))
                                                                             for _ in range(4000 if thorough else 700)]:
            for sep in ("/", "\\"):
                out.append(sep.join(segs))
    for base in ("caf\u00e9/\ufb01le.txt", "Etc/Passwd", "a b/\u212bngstrom.TXT", "stra\u00dfe/\u0130x/i.png"):
        out.append(base)
        out += [t for _, t in identlib.text_variants(base)]
    return list(dict.fromkeys(out))


def rand_str(r, n):
    alpha = ["/", "\\", ".", "..", "a", "b", " ", "\u00e9", "\u4e2d", "\U0001f600", "~", ":", "\t", "%2e", "\x00", "\x7f", "-"]
    return "".join(r.choice(alpha) for _ in range(n))


def run(run):
    M = run.model
    r = run.rng
    tmp = tempfile.mkdtemp(prefix="verif c17 \u00e9")
    sub = os.path.join(tmp, "srv", "www")
    os.makedirs(sub)
    cwds = [Cwd("/"), Cwd(tmp), Cwd(sub), Cwd("//", True), Cwd("/x/../y/", True), Cwd("/a//b", True)]

    # ---- string primitives and the posixpath model
    strs = ["", "/", "//", "///", "a", "a/", "/a", "a//b", "a/b/", "a/./b", "a/../b", "../a", "../../a", "/..", "/../a", "//..",
            "//a/..", "///a/../..", "a/..", "a/../..", ".", "./", "./a", "..", "a/b/../../..", "a/\x00/..", "/a/b/../c/./d//"]
    for _ in range(3000 if run.thorough() else 600):
        strs.append(rand_str(r, r.randrange(0, 9)))
    for segs in itertools.product(["..", ".", "", "a", "bc"], repeat=4):
        for pre in ("", "/", "//", "///"):
            strs.append(pre + "/".join(segs))
    cases = [(s,) for s in strs]
    run.compare("posix_normpath", cases, [S(os.path.normpath(s)) for s in strs],
                M.call_many("posix_normpath", [[S(s)] for s in strs]))
    pairs = [(a, b) for a in strs[:60] for b in strs[:60]] + [(r.choice(strs), r.choice(strs)) for _ in range(3000)]
    run.compare("posix_join", pairs, [S(os.path.join(a, b)) for a, b in pairs],
                M.call_many("posix_join", [[S(a), S(b)] for a, b in pairs]))
    run.compare("path_strops", pairs,
                [[[S(x) for x in a.split("/")], S(a.rstrip("/")), a.startswith(b), S(a.replace("\\", "/"))] for a, b in pairs],
                [[m[0], m[1], bool(m[2]), m[3]] for m in M.call_many("path_strops", [[S(a), S(b)] for a, b in pairs])])
    for cw in cwds:
        with cw:
            impl = [S(os.path.abspath(s)) for s in strs]
        run.compare("posix_abspath", [(cw.path, s) for s in strs], impl,
                    M.call_many("posix_abspath", [[S(cw.path), S(s)] for s in strs]))

    # ---- path_join_safe: exhaustive structured names, all roots, several cwds
    NSEG = 5 if run.thorough() else 3
    names = gen_names(run, NSEG)
    run.count("structured_names", len(names))
    full = []
    for pre in PREFIXES:
        for n in names:
            full.append(pre + n)
    run.exhaustive.append("names: %d prefixes x all sequences of <= %d segments over %d-symbol alphabet x 2 separators = %d names, "
                          "each x %d roots" % (len(PREFIXES), NSEG, len(SEGS_Q), len(full), len(ROOTS)))
    # random unicode / junk names
    junk = [rand_str(r, r.randrange(0, 14)) for _ in range(40000 if run.thorough() else 4000)]
    # names captured by the router's ':path*' from URLs (composition with C16)
    from mpgameserver.http_server import Router, Route
    rt = Router()
    rt.registerRoutes([Route("static", "GET", "/static/:path*", lambda req: None)])
    captured = []
    urls = ["/static" + u for u in ["", "/", "//etc/passwd", "/../x", "/a/b", "/a//b/", "///", "/%2e%2e/x", "/\\etc\\passwd", "/a/../../etc"]]
    urls += ["/static/" + rand_str(r, r.randrange(0, 10)).replace("\n", "") for _ in range(3000 if run.thorough() else 500)]
    urls += ["/static/" + "/".join(segs) for segs in itertools.product(PCT_SEGS, repeat=2)] + ["/static//" + s for s in PCT_SEGS]
    for u in urls:
        res = rt.getRoute("GET", u)
        if res and res[1].get("path") is not None:
            captured.append(res[1]["path"])
    run.count("router_captured_names", len(captured))

    pct = [pre + n for pre in PREFIXES for n in gen_pct_names(3 if run.thorough() else 2)]
    run.count("percent_encoded_names", len(pct))
    run.exhaustive.append("percent-encoded names: %d prefixes x all sequences of <= %d segments over %d symbols x 2 separators = %d "
                          "names, each x %d roots" % (len(PREFIXES), 3 if run.thorough() else 2, len(PCT_SEGS), len(pct), len(ROOTS)))
    ident = [pre + n for pre in ("", "/", "/srv/www/", "\\") for n in gen_ident_names(r, run.thorough())]
    run.count("identification_names", len(ident))
    nviol = 0
    njoin = 0
    for ci, cw in enumerate(cwds):
        # the full sweep under two real cwds; a sample under the others
        if ci == 2 or (run.thorough() and ci == 0):
            nm = full + junk + captured + pct + ident
        else:
            nm = r.sample(full, min(len(full), 3000)) + junk[:500] + captured[:200] + r.sample(ident, 300)
        roots = ROOTS if ci in (0, 2) else r.sample(ROOTS, 6)
        if ci == 0 and not run.thorough():
            nm = r.sample(full, min(len(full), 3000)) + junk[:500] + captured[:200] + r.sample(ident, 300)
        cases = [(cw.path, root, n) for root in roots for n in nm]
        with cw:
            impl = [impl_pjs(root, n) for (_, root, n) in cases]
        # model in slices (keeps the request pipe small)
        mod = []
        for i in range(0, len(cases), 50000):
            mod += M.call_many("path_join_safe", [[S(c), S(root), S(n)] for (c, root, n) in cases[i:i + 50000]])
        run.compare("path_join_safe", cases, impl, mod)
        run.count("pjs_cases", len(cases))
        for (c, root, n), res in zip(cases, impl):
            nn = n.replace("\\", "/").split("/")
            if ".." not in nn and "." not in nn:
                run.nt((c, root, n))
            if res[0] == 0:
                run.count("accepted")
                run.evaluations += 1
                p = U(res[1])
                if not contained(c, root, p):
                    nviol += 1
                    if nviol <= 5:
                        run.oracle_violation("escapes-root", {"cwd": c, "root": root, "name": n, "result": p,
                                                              "synthetic_cwd": cw.synthetic}, "path_join_safe")
                # 'returns a normalized path': THE path of root joined with this name - its components are the root's
                # followed by the name's, unchanged (no case folding, no Unicode normalisation, nothing dropped or decoded)
                want = joined(c, root, n)
                if [x for x in p.split("/") if x] != want:
                    njoin += 1
                    if njoin <= 5:
                        run.oracle_violation("result-is-not-the-joined-path", {"cwd": c, "root": root, "name": n, "result": p,
                                                                               "expected_components": want}, "path_join_safe")
            else:
                run.count("rejected_err%d" % res[1])
                if res[1] != 1:
                    run.oracle_violation("unexpected-exception", {"cwd": c, "root": root, "name": n, "err": res[1]},
                                         "path_join_safe")
        if ci == 0:
            k = next((i for i, x in enumerate(impl) if x[0] == 0 and cases[i][2]), 0)
            run.sample({"unit": "path_join_safe", "case": list(cases[k]), "impl": U(impl[k][1]) if impl[k][0] == 0 else impl[k]})
    # process history: the working directory changes between consecutive calls (a result remembered for a root or
    # a name under one directory must not be handed out under another)
    hist = []
    real = [c for c in cwds if not c.synthetic]
    pool_n = ["", "a", "a/b", "..", "/etc/passwd", "a/../b", "%2e%2e/x", "\\etc"] + r.sample(full, 40) + r.sample(pct, 20)
    for _ in range(6000 if run.thorough() else 1200):
        hist.append((r.choice(real), r.choice(["rel", "rel/sub/", "..", ".", "", "rel/../x", "/srv/www", "srv\\www"]), r.choice(pool_n)))
    himpl = []
    for cw, root, n in hist:
        with cw:
            himpl.append(impl_pjs(root, n))
    hcases = [(cw.path, root, n) for cw, root, n in hist]
    run.compare("path_join_safe", hcases, himpl, M.call_many("path_join_safe", [[S(c), S(root), S(n)] for (c, root, n) in hcases]))
    for k, ((c, root, n), res) in enumerate(zip(hcases, himpl)):
        run.evaluations += 1
        if res[0] == 0 and not contained(c, root, U(res[1])):
            nviol += 1
            if nviol <= 8:
                run.oracle_violation("escapes-root", {"cwd": c, "root": root, "name": n, "result": U(res[1]), "call_number": k,
                                                      "previous_call": list(hcases[k - 1]) if k else None,
                                                      "note": "working directory changed between calls"}, "path_join_safe")
        elif res[0] == 1 and res[1] != 1:
            run.oracle_violation("unexpected-exception", {"cwd": c, "root": root, "name": n, "err": res[1]}, "path_join_safe")
    run.count("history_calls", len(hist))
    run.count("containment_violations", nviol)
    run.count("join_violations", njoin)
    # the classic witnesses, always evaluated
    for root, n in [("/srv/www", "/etc/passwd"), ("/srv/www", "//etc/passwd"), ("/srv/www", "\\etc\\passwd"),
                    ("/srv/www", "/srv/wwwx/secret"), ("rel", "/etc/passwd")]:
        with cwds[1]:
            res = impl_pjs(root, n)
        run.evaluations += 1
        if res[0] == 0 and not contained(cwds[1].path, root, U(res[1])):
            run.oracle_violation("escapes-root", {"cwd": cwds[1].path, "root": root, "name": n, "result": U(res[1])},
                                 "path_join_safe")
    run.sample({"oracle": "containment", "root": "/srv/www", "name": "/etc/passwd",
                "impl": lib.jsonable(impl_pjs("/srv/www", "/etc/passwd"))})
    try:
        os.rmdir(sub); os.rmdir(os.path.dirname(sub)); os.rmdir(tmp)
    except OSError:
        pass
    run.rules.append(RULE)
