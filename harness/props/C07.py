"""C07 — send callbacks are truthful and fire exactly once.

Correspondence: two REAL endpoints over the simulated network of harness/netsim.py with fixed
latency (round trips longer and shorter than the resend interval), loss of data and of
ack-carrying datagrams, duplication, reordering, followed by a healed phase; every event is
replayed on the Conn.v model (outputs incl. every callback invocation with its value, full
private-state snapshots after every event).  A separate stream injects forged datagrams (valid
CRC, no key; wrong key; stale genuine datagrams with rewritten ack fields) into running sessions.

Oracle (implementation only): per send with a callback (unretried or guaranteed) —
  * at most one invocation; for a guaranteed send, after the healed phase, exactly one and True;
    for an unretried send exactly one once its datagram(s) are resolved;
  * True only if the peer application has been handed the whole payload no later than that moment;
  * False only if at least the message time-out has elapsed since the send;
  * forged / unauthentic datagrams never cause a callback;
  * at quiescence stats.assembled == stats.acked + stats.timeouts + len(pending_acks) on both sides
    and pending sequence numbers are distinct.
Application callbacks that RAISE (connsim's optional `raises` flag: always / only on False / only on True) are part
of the input space: the implementation logs the exception and continues, so the model side is unchanged and every
clause above is judged as usual — in particular for the OTHER callbacks that share a datagram with a raising one
(sessions with bursts of sends per frame, and an enumeration of two/three callbacks in one datagram x raise mode x
retry modes x acked / timed-out datagram x keep-alive interval below / above the message time-out, both roles).
Callbacks that call send() themselves (follow-up messages sent from inside a callback): implementation-only sessions.
OVERTAKEN messages (overtaken_session): sends with callbacks — guaranteed (both APIs) and unretried — whose every copy is
lost, or held back, while 200..600 NEWER messages of the same sender are accepted by the peer (the peer's 256-message
receive window moves past them); then the loss stops / the held-back datagram arrives (inside and outside the sender's
message time-out).  Same oracle: whatever the window did with the late copy, True means the peer application HAS the
payload at that moment, a guaranteed send ends with exactly one True, an unretried one with exactly one call."""
from harness import lib, netsim, connsim as S

RULE = ("netsim sessions: latency in {0, 1/4, 1/2, 3/4} of the resend interval .. several intervals, loss/dup/reorder grid, "
        "sizes around the single-datagram and fragment boundaries, all retry modes; non-trivial = session in which "
        ">= 1 callback fired True, >= 1 fired False and >= 1 datagram carrying a message with a callback was lost; "
        "overtaken sessions: 1-3 guaranteed / unretried sends with callbacks whose every copy is lost or held back while 200..600 newer "
        "messages of the same sender are accepted (5..30 per frame: faster and slower than the message time-out), then healed / delivered late")
ASSUMPTIONS = ["AES-GCM of the `cryptography` package (forgeries are rejected) — symbolic in the model",
               "clock values are multiples of 1/1024 s"]
TRUSTED = ["harness/connsim.py + netsim.py (virtual clock, translation between datagram bytes and symbolic datagrams)"]

T = S.TICKS


def forge(net, rng, who):
    """a datagram for endpoint `who` that is NOT authentic for its key: returns raw bytes"""
    import struct, binascii
    src = net.other(who)
    recs = net.emitted[src]
    kind = rng.randrange(4)
    if recs and kind == 0:
        # genuine datagram with rewritten ack fields (acks everything recent)
        d = bytearray(rng.choice(recs)["raw"])
        peer = net.ep(who).impl.conn
        d[10:12] = struct.pack(">H", int(peer.seq_sending))
        d[16:20] = b"\xff\xff\xff\xff"
        return bytes(d)
    if recs and kind == 1:
        # genuine datagram re-sealed under a wrong key
        from cryptography.hazmat.primitives.ciphers.aead import AESGCM
        d = rng.choice(recs)["raw"]
        return d[:20] + AESGCM(S.key_bytes(99)).encrypt(d[:12], b"\x00\x01x", d[:20])
    # clear datagram with valid CRC, typed KEEP_ALIVE / APP / CLIENT_HELLO, acking everything
    peer = net.ep(who).impl.conn
    typ = rng.choice([1, 4, 6])
    payload = b"" if typ == 4 else struct.pack(">H", rng.randrange(1, 65535)) + b"forged"
    hdr = struct.pack(">4sLHHBHBL", b"FSOS" if who == "server" else b"FSOC", net.t // T, rng.randrange(1, 65535),
                      int(peer.seq_sending), typ, len(payload), 0 if typ == 4 else 1, 0xFFFFFFFF)
    data = hdr + payload
    return data + struct.pack(">L", binascii.crc32(data) & 0xFFFFFFFF)


def judge(net, label, cfg, mtu, viol):
    """the oracle clauses over one finished session (both endpoints); returns callback counts"""
    mp = net.env[0]
    stats = {"true": 0, "false": 0}
    for who in ("client", "server"):
        peer = net.other(who)
        conn = net.ep(who).impl.conn
        byid = {}
        for (t, cbid, ok) in net.callbacks[who]:
            byid.setdefault(cbid, []).append((t, ok))
            stats["true" if ok else "false"] += 1
        for mid, rec in net.sent[who].items():
            if rec["cb"] is None or not rec["accepted"] or rec["retry"] == 1:
                continue
            calls = byid.get(mid, [])
            case = {"session": label, "who": who, "len": rec["len"], "retry": rec["retry"], "calls": calls,
                    "sent_at": rec["time"], "cfg": cfg, "mtu": mtu}
            if rec.get("raises"):
                case["callback_raises"] = rec["raises"]
            if getattr(net, "raising_ids", None):
                # the other callbacks queued in the same frame (candidates for sharing the datagram) that raise
                case["raising_callbacks_queued_in_the_same_frame"] = sorted(
                    m for m in net.raising_ids.get(who, ()) if m != mid and net.sent[who][m]["time"] == rec["time"])
            if len(calls) > 1:
                viol.append(("callback-fired-more-than-once", case))
            if len(calls) == 0:
                viol.append(("callback-never-fired", case))
            if rec["retry"] == -1 and calls and not calls[0][1]:
                viol.append(("guaranteed-send-reported-failure", case))
            for (t, ok) in calls:
                if ok:
                    got = [dt for (dt, p) in net.delivered[peer] if p == rec["payload"]]
                    if not got or min(got) > t:
                        case2 = dict(case)
                        case2["fragmented"] = rec["len"] > mp
                        case2["delivered_at"] = got
                        viol.append(("success-reported-but-peer-never-got-the-message", case2))
                else:
                    if t - rec["time"] < S.ticks(conn.outgoing_timeout):
                        viol.append(("failure-reported-before-the-message-timeout", case))
        st = conn.stats
        if st.assembled != st.acked + st.timeouts + len(conn.pending_acks):
            viol.append(("datagram-resolution-accounting", {"session": label, "who": who, "assembled": st.assembled,
                                                            "acked": st.acked, "timeouts": st.timeouts,
                                                            "pending": len(conn.pending_acks)}))
    return stats


def session(run, rng, label, steps, forged, bursts=False):
    ka = 1536
    cfg = {"loss": rng.choice([0, 0.1, 0.3, 0.5]), "dup": rng.choice([0, 0.2]), "reorder": rng.choice([0, 0.3]),
           "tick": rng.choice([300, 600, 900]), "max_delay": rng.choice([T // 8, T // 2, T]),
           "delay": rng.choice([0, 300, 750, 1200, 1800, 4500, 9000]), "healed_delay": 0}
    mtu = rng.choice([1500, 1500, 512, 1096])
    net = netsim.Net(run, rng, cfg, mtu=mtu)
    viol = []
    n_forged = 0
    try:
        mp = net.env[0]
        net.raising_ids = {"client": set(), "server": set()}
        for i in range(steps):
            if bursts:
                # several sends per frame (their callbacks share a datagram), some of the callbacks raise
                if rng.random() < 0.4:
                    who = rng.choice(["client", "server"])
                    for _ in range(rng.choice([2, 2, 3, 5])):
                        L = rng.choice([0, 1, 10, 10, 40, 200, mp + 1, 2 * 1024 + 3])
                        retry = rng.choice([0, 0, -1, -1, 1])
                        rz = rng.choice([0, 0, 1, 1, 2, 3])
                        mid = net.send(who, L, retry, with_cb=True, raises=rz, api=rng.random() < 0.3)
                        if rz:
                            net.raising_ids[who].add(mid)
            elif rng.random() < 0.45:
                who = rng.choice(["client", "server"])
                L = rng.choice([0, 1, 10, 200, mp - 1, mp, mp + 1, 2 * 1024 + 3, 3000])
                retry = rng.choice([0, 0, -1, -1, 1])
                net.send(who, L, retry, with_cb=(retry != 1) or rng.random() < 0.3)
            if forged and rng.random() < 0.25:
                who = rng.choice(["client", "server"])
                before = len(net.callbacks[who])
                st_before = net.ep(who).impl.conn.stats.acked
                raw = forge(net, rng, who)
                net.tick(who, ("dg", raw, []))
                n_forged += 1
                if len(net.callbacks[who]) != before and not net_due_callbacks_possible(net, who):
                    pass
                if net.ep(who).impl.conn.stats.acked != st_before:
                    viol.append(("forged-datagram-acknowledged", {"who": who, "datagram": raw[:40]}))
            net.step()
        net.healed = True
        for i in range(int((3 * T + 4 * cfg["delay"]) // cfg["tick"]) + 30):
            net.step()
        drain(net)
        diffs = net.check_models()
        stats = judge(net, label, cfg, mtu, viol)
    finally:
        net.close()
    for what, case in viol[:4]:
        run.oracle_violation(what, case, "callbacks")
    lost_cb = cfg["loss"] > 0
    return net, diffs, cfg, stats, n_forged, lost_cb


def drain(net, limit=1500):
    """after the healed phase: keep stepping (bounded) until neither side has a backlog — queued messages, messages
    scheduled for re-send (keep-alive datagrams are always pending on an idle link, so pending_acks is not a criterion).  Burst sessions at a small MTU queue faster than one datagram per
    tick drains; judging 'fired exactly once' before the queue is empty would blame the code for the harness's hurry.
    A backlog that survives the bound is left for the oracle to report."""
    n = 0
    while n < limit and any(net.ep(w).impl.conn.outgoing_messages or net.ep(w).impl.conn.pending_retry_msg
                            for w in ("client", "server")):
        net.step()
        n += 1
    for _ in range(int((T + 2 * net.cfg.get("delay", 0)) // net.cfg.get("tick", 300)) + 5):
        net.step()
    return n


def acks_across_wrap(run):
    """the 16-bit datagram counter WRAPS while datagrams on both sides of the wrap are lost: both endpoints start 36..60
    below the ring wrap (the model through unit conn_run_from); one small send with a callback per frame (unretried and
    guaranteed alternating, both roles in turn); a fixed pattern loses chosen datagrams of the sender whose wire numbers
    lie in [wrap-34, wrap+6] — each next to a datagram that arrives — so their fate is decided by ack fields the peer built
    AFTER its ack number wrapped (ack = 1..32 naming pending datagrams 65504..65535 through ack_bits).  Same oracle as every
    session: True means the peer application has the payload by then, exactly one call per send, False only after the
    message time-out, guaranteed sends end with True, resolution accounting."""
    RING = 65535
    patterns = [[RING - 1], [RING - 2, RING], [RING - 20, RING - 10, RING - 4], [RING - 31, RING - 30, 2],
                [RING - 33, RING - 1, 1, 3]]
    cases, impl, mod = [], [], []
    for k, lost in enumerate(patterns if run.thorough() else patterns[:3]):
        for sender in ("client", "server"):
            start = RING - run.rng.choice([36, 41, 47, 60])
            cfg = {"loss": 0, "dup": 0, "reorder": 0, "tick": 600, "max_delay": 0, "delay": 0, "healed_delay": 0}
            net = netsim.Net(run, run.rng, cfg, mtu=1500, seq0=[start, start])
            viol = []
            label = "wrap%d:%s" % (k, sender)
            try:
                net.drop_filter = lambda who, rec, s=sender, L=set(lost): who == s and rec["hdr"][2] in L
                for i in range(110):
                    net.send(sender, 12, 0 if i % 2 else -1, with_cb=True)
                    net.step()
                net.drop_filter = None
                net.healed = True
                for i in range(3 * T // cfg["tick"] + 30):
                    net.step()
                drain(net)
                diffs = net.check_models()
                stats = judge(net, label, cfg, 1500, viol)
                seqs = [r["hdr"][2] for r in net.emitted[sender]]
                if not (RING in seqs and 1 in seqs and all(x in seqs for x in lost)):
                    raise RuntimeError("wrap session %s did not cross the wrap as planned (first %s, last %s)" % (label, seqs[:1], seqs[-1:]))
            finally:
                net.close()
            for what, case in viol[:4]:
                case = dict(case)
                case["lost_datagram_numbers"] = lost
                case["first_datagram_number"] = start
                run.oracle_violation(what, case, "callbacks")
            cases.append({"session": label, "lost": lost, "start": start, "first_difference": diffs[:1]})
            impl.append("agree")
            mod.append("agree" if not diffs else "differ")
            run.count("sessions_across_the_wrap")
            run.count("callbacks_true", stats["true"])
            run.count("callbacks_false", stats["false"])
            run.evaluations += len(net.emitted["client"]) + len(net.emitted["server"])
            if stats["true"] and stats["false"]:
                run.nt((label, stats["true"], stats["false"]))
    run.compare("conn_run_from", cases, impl, mod)


def stale_ack_after_wrap(run):
    """known finding D22 reproduced on the real endpoints, every run: an ack header built when the peer's newest
    accepted datagram was m names the wire numbers of m-32..m, which are also the wire numbers of m+65535-32..m+65535.
    History: A and B exchange ~100 datagrams; then every A->B datagram is lost (B is gone) while A keeps sending one
    small message per send interval; an attacker replays ONE recorded B datagram (more than 32 behind A's receive window,
    so BitField.insert accepts it again each time: D16) every 3.3 s, which keeps A alive; after 65535 further datagrams A
    sends a message with a callback in the datagram whose wire number equals the replayed header's ack field; the next
    replay makes A report success for a message B never received."""
    rng = run.rng
    net = netsim.Net(run, rng, {"loss": 0, "dup": 0, "reorder": 0, "tick": 525}, mtu=1500)      # ticks are multiples of 15 (exact binary fractions of a second); 525 > the 512-tick send interval
    net.A.snap = net.B.snap = False
    try:
        for i in range(3):
            net.send("client", 9, 0, with_cb=False)
            net.step()
        for i in range(400):
            net.step()
        rec_idx = len(net.emitted["server"]) - 40
        ack = net.emitted["server"][rec_idx]["hdr"][3]
        delivered_before = len(net.delivered["server"])
        net.drop_filter = lambda who, rec: who == "client"          # A -> B outage from now on; B never ticks again
        k = 0
        while len(net.emitted["client"]) < 65535 + ack - 1 and k < 70000:
            k += 1
            net.advance(525)
            net.send("client", 9, 0, with_cb=False)
            if k % 100 == 0:
                net.replay("client", rec_idx)
                net.pump("client")
            else:
                net.tick("client")
        run.evaluations += k
        run.count("stale_ack_history_datagrams", len(net.emitted["client"]))
        if net.A.impl.conn.status.value != 2 or len(net.emitted["client"]) != 65535 + ack - 1:
            raise RuntimeError("stale-ack scenario: the sender did not stay connected through the wrap (%s, %d datagrams)"
                               % (net.A.impl.conn.status, len(net.emitted["client"])))
        net.advance(525)
        mid = net.send("client", 12, 0, with_cb=True)
        net.tick("client")
        hdr = net.emitted["client"][-1]["hdr"]
        net.advance(525)
        net.replay("client", rec_idx)
        net.pump("client")
        calls = [(t, ok) for (t, cbid, ok) in net.callbacks["client"] if cbid == mid]
        got = [t for (t, p) in net.delivered["server"] if p == net.sent["client"][mid]["payload"]]
        if any(ok for (_, ok) in calls) and not got:
            run.oracle_violation("success-reported-but-peer-never-got-the-message",
                                 {"scenario": "stale-ack-after-seq-wrap", "who": "client", "calls": calls,
                                  "datagram_wire_seq": hdr[2], "replayed_header_ack": ack, "replayed_header_ack_bits": net.emitted["server"][rec_idx]["hdr"][7],
                                  "datagrams_sent_since_the_peer_last_accepted_one": len(net.emitted["client"]) - ack,
                                  "delivered_to_peer_since": len(net.delivered["server"]) - delivered_before}, "_handle_ack_bits / 16-bit SeqNum")
        run.nt(("stale-ack", hdr[2], ack))
        if run.thorough():
            diffs = net.check_models()
            run.compare("conn_run", [{"session": "stale-ack-after-seq-wrap", "first_difference": diffs[:1]}], ["agree"],
                        ["agree" if not diffs else "differ"])
    finally:
        net.close()


def directed_d17(run):
    """known finding D17 re-observed on every run by one directed history (harness/d17.py)"""
    from harness import d17
    for who in ("client", "server"):
        net, mid = d17.directed(run, who)
        try:
            rec = net.sent[who][mid]
            peer = net.other(who)
            got = [t for (t, p) in net.delivered[peer] if p == rec["payload"]]
            calls = [(t, ok) for (t, cbid, ok) in net.callbacks[who] if cbid == mid]
            diffs = net.check_models()
            run.compare("conn_run", [{"session": "directed-D17-" + who, "first_difference": diffs[:1]}], ["agree"],
                        ["agree" if not diffs else "differ"])
            run.evaluations += len(net.emitted["client"]) + len(net.emitted["server"])
            for (t, ok) in calls:
                if ok and (not got or min(got) > t):
                    run.oracle_violation("success-reported-but-peer-never-got-the-message",
                                         {"session": "directed-D17", "who": who, "len": rec["len"], "retry": rec["retry"], "calls": calls,
                                          "fragmented": True, "delivered_at": got}, "callbacks")
            if len(calls) > 1:
                run.oracle_violation("callback-fired-more-than-once", {"session": "directed-D17", "who": who, "calls": calls}, "callbacks")
        finally:
            net.close()


def shared_datagram_cases(run):
    """enumeration: n callbacks in ONE datagram, the k-th one raises (always / only on False / only on True); the
    datagram is acked, or lost and timed out; the sender's keep-alive (= re-send) interval is the default or twice the
    message time-out (then no re-send of the retried messages is in flight when the time-out fires); both roles; every
    combination of retry modes of the raising callback's message and of its siblings.  Every clause of the oracle is
    judged for every message — a raising callback must not change what the others see."""
    rng = run.rng
    cases, impl, mod = [], [], []
    n_viol = 0
    combos = []
    for who in ("client", "server"):
        for path in ("acked", "timed-out"):
            for rz in (1, 2, 3):
                for ka in (1536, 2 * T):
                    for retries in ((0, 0), (0, -1), (-1, 0), (-1, -1), (1, -1, 0), (0, 0, -1)):
                        for k in range(len(retries) - 1):
                            combos.append((who, path, rz, ka, retries, k))
    if not run.thorough():
        # quick: every (role, path, raise mode, interval) with a rotating choice of the retry-mode combination
        keep = []
        by = {}
        for c in combos:
            by.setdefault(c[:4], []).append(c)
        for n, (key, lst) in enumerate(sorted(by.items())):
            keep.append(lst[n % len(lst)])
            keep.append(lst[(n * 5 + 3) % len(lst)])
        combos = keep
    for (who, path, rz, ka, retries, k) in combos:
        label = "shared:%s/%s/raise%d/ka%d/%s/k%d" % (who, path, rz, ka, ",".join(map(str, retries)), k)
        cfg = {"loss": 0, "dup": 0, "reorder": 0, "tick": 300, "delay": 0, "healed_delay": 0, "scenario": label}
        net = netsim.Net(run, rng, cfg, mtu=1500)
        viol = []
        try:
            net.raising_ids = {"client": set(), "server": set()}
            for _ in range(3):
                net.step()
            if ka != 1536:
                net.ep(who).apply(("cfg", 0, ka))
            for j, r in enumerate(retries):
                mid = net.send(who, rng.choice([9, 12, 40]), r, with_cb=True, raises=rz if j == k else 0)
                if j == k:
                    net.raising_ids[who].add(mid)
            first = len(net.emitted[who])
            if path == "timed-out":
                net.drop_filter = lambda w, rec, who=who, first=first: w == who and rec is net.emitted[w][first]
            for _ in range(int(3.2 * T) // 300):
                net.step()
            shared = len(S.decode_msgs_py(net.emitted[who][first]["hdr"][4], net.emitted[who][first]["hdr"][6],
                                          bytes(net.emitted[who][first]["payload"])) or [])
            if shared != len(retries):
                raise RuntimeError("shared-datagram scenario: the messages did not travel in one datagram")
            diffs = net.check_models()
            judge(net, label, cfg, 1500, viol)
        finally:
            net.close()
        for what, case in viol[:2]:
            if n_viol < 8:
                run.oracle_violation(what, case, "callbacks")
            n_viol += 1
        cases.append({"session": label, "first_difference": diffs[:1]})
        impl.append("agree")
        mod.append("agree" if not diffs else "differ")
        run.count("shared_datagram_cases")
        run.evaluations += len(net.emitted["client"]) + len(net.emitted["server"])
        run.nt((label,))
    run.compare("conn_run", cases, impl, mod)


def nested_api_sessions(run, rng, n, steps):
    """send callbacks that call the API themselves (connsim's optional Impl.cb_hook): from inside a callback the
    application sends a follow-up message (unretried or guaranteed, with its own callback), two levels deep; some of the
    outer callbacks also raise afterwards.  Implementation only (the follow-up sends are not events of the Conn.v
    history); every oracle clause is judged for the outer AND the follow-up messages."""
    for i in range(n):
        cfg = {"loss": rng.choice([0, 0.2, 0.4]), "dup": rng.choice([0, 0.2]), "reorder": rng.choice([0, 0.3]),
               "tick": rng.choice([300, 600]), "max_delay": T // 4, "delay": rng.choice([0, 750, 1800]), "healed_delay": 0,
               "scenario": "send() from inside send callbacks"}
        label = "n%d" % i
        net = netsim.Net(run, rng, cfg, mtu=1500)
        viol = []
        depth = {}
        try:
            net.raising_ids = {"client": set(), "server": set()}

            def make_hook(who):
                ep = net.ep(who)

                def hook(cbid, ok):
                    d = depth.get((who, cbid), 0)
                    if d >= 2 or net.healed and d >= 1:
                        return
                    conn = ep.impl.conn
                    mid = net.next_id
                    net.next_id += 1
                    payload = b"%08d|follow-up of %d" % (mid, cbid)
                    retry = rng.choice([0, -1])
                    net.sent[who][mid] = {"payload": payload, "retry": retry, "time": net.t, "cb": mid, "len": len(payload),
                                          "raises": 0, "accepted": conn.status.value == 2, "sent_from_callback_of": cbid}
                    depth[(who, mid)] = d + 1
                    conn.send(payload, retry=retry, callback=ep.impl.user_cb(mid))
                return hook
            for who in ("client", "server"):
                net.ep(who).impl.cb_hook = make_hook(who)
            for k in range(steps):
                if rng.random() < 0.4:
                    who = rng.choice(["client", "server"])
                    for _ in range(rng.choice([1, 2, 3])):
                        rz = rng.choice([0, 0, 0, 1, 2])
                        mid = net.send(who, rng.choice([9, 12, 40, 300, 2500]), rng.choice([0, -1]), with_cb=True, raises=rz)
                        if rz:
                            net.raising_ids[who].add(mid)
                net.step()
            net.healed = True
            for k in range(int((4 * T + 6 * cfg["delay"]) // cfg["tick"]) + 30):
                net.step()
            drain(net)
            stats = judge(net, label, cfg, 1500, viol)
        finally:
            net.close()
        for what, case in viol[:3]:
            run.oracle_violation(what, case, "callbacks")
        run.count("sessions_with_sends_from_callbacks")
        run.count("follow_up_sends_from_callbacks", len(depth))
        run.evaluations += len(net.emitted["client"]) + len(net.emitted["server"])
        if len(depth) >= 3 and stats["true"] and stats["false"]:
            run.nt((label, len(depth), stats["true"], stats["false"]))


def overtaken_session(run, rng, label, newer, mtu, per_step):
    """1-3 sends with callbacks (guaranteed through send / send_guaranteed, unretried) queued together with ordinary traffic;
    every datagram that carries a copy of one of them is lost (guaranteed) or held back (unretried) while `newer` newer
    unretried messages of the same sender get through, per_step of them per frame (so the overtaking takes less or more
    than the 1 s message time-out); then the loss stops and the held-back datagrams arrive.  Both directions carry
    background traffic, so acknowledgements flow all the time."""
    cfg = {"loss": 0, "dup": 0, "reorder": 0, "tick": 525, "delay": 0, "healed_delay": 0,
           "scenario": "overtaken by %d newer messages (%d per frame)" % (newer, per_step)}
    net = netsim.Net(run, rng, cfg, mtu=mtu)
    viol = []
    try:
        who = rng.choice(["client", "server"])
        peer = net.other(who)
        conn = net.ep(who).impl.conn
        for _ in range(3):
            net.send(who, 9, 0, with_cb=False)
            net.send(peer, 9, 0, with_cb=False)
            net.step()
        targets = {}                 # message seq -> (mid, retry)
        for _ in range(rng.choice([1, 1, 2, 3])):
            retry = rng.choice([-1, -1, 0])
            m0 = int(conn.seq_message)
            mid = net.send(who, rng.choice([9, 12, 60, 300]), retry, with_cb=True, api=(retry == -1 and rng.random() < 0.5))
            if int(conn.seq_message) != m0 + 1:
                raise RuntimeError("overtaken session: target message is not a single message")
            targets[m0 + 1] = (mid, retry)
        held = []                    # indices of the datagrams that carried an UNRETRIED target (they arrive late)

        def carries(w, rec):
            if w != who:
                return False
            msgs = S.decode_msgs_py(rec["hdr"][4], rec["hdr"][6], bytes(rec["payload"])) or []
            hit = [sq for (sq, ty, p) in msgs if sq in targets]
            if hit and any(targets[sq][1] == 0 for sq in hit):
                em = net.emitted[w]
                held.append(next(i for i in range(len(em) - 1, -1, -1) if em[i] is rec))
            return bool(hit)
        net.drop_filter = carries
        before = len(net.delivered[peer])
        frames = 0
        # (the newer messages that share a datagram with a copy of a target are lost with it: count what is ACCEPTED)
        while len(net.delivered[peer]) - before < newer and frames < 600:
            for _ in range(per_step):
                net.send(who, 9, 0, with_cb=False)
            net.send(peer, 9, 0, with_cb=False)
            net.step()
            frames += 1
        got_newer = len(net.delivered[peer]) - before
        if got_newer < newer:
            raise RuntimeError("overtaken session: only %d of %d newer messages got through: harness not exercising the surface" % (got_newer, newer))
        early = [c for c in net.callbacks[who] if c[2] and c[1] in [m for m, _ in targets.values()]]
        net.drop_filter = None
        for idx in held:             # the held-back datagrams arrive now (late, reordered), together
            net.replay(peer, idx)
        net.healed = True
        for _ in range(int(3 * T // cfg["tick"]) + 30):
            net.send(peer, 9, 0, with_cb=False)
            net.step()
        drain(net)
        diffs = net.check_models()
        stats = judge(net, label, cfg, mtu, viol)
        for v in viol:
            v[1]["newer_messages_accepted_meanwhile"] = got_newer
            v[1]["overtaking_took_ticks"] = frames * cfg["tick"]
    finally:
        net.close()
    for what, case in viol[:3]:
        run.oracle_violation(what, case, "callbacks")
    return net, diffs, cfg, stats, got_newer


def overtaken_sessions(run):
    rng = run.rng
    cases, impl, mod = [], [], []
    plan = [(257, 20), (258, 30), (300, 30), (600, 10), (270, 5), (200, 20), (256, 25), (400, 30)]
    if run.thorough():
        plan += [(rng.randrange(257, 601), rng.choice([5, 10, 20, 30])) for _ in range(30)]
    for i, (newer, per_step) in enumerate(plan):
        label = "o%d" % i
        net, diffs, cfg, stats, got = overtaken_session(run, rng, label, newer, rng.choice([1500, 512]), per_step)
        cases.append({"session": label, "cfg": cfg, "first_difference": diffs[:1]})
        impl.append("agree")
        mod.append("agree" if not diffs else "differ")
        run.count("overtaken_sessions")
        run.count("callbacks_true", stats["true"])
        run.count("callbacks_false", stats["false"])
        run.evaluations += len(net.emitted["client"]) + len(net.emitted["server"])
        if got > 256 and stats["true"]:
            run.nt((label, newer, per_step, stats["true"], stats["false"]))
    run.compare("conn_run", cases, impl, mod)


def net_due_callbacks_possible(net, who):
    return True


def run(run):
    rng = run.rng
    th = run.thorough()
    n = 150 if th else 24
    cases, impl, mod = [], [], []
    import time as _time
    for i in range(n):
        if any(not lib.matches_known("C07", f) for f in run.oracle_fail) and _time.time() - run.t0 > 60:
            run.notes.append("stopped after %d sessions: a violation was found and the run is slow" % i)
            break
        label = "s%d" % i
        net, diffs, cfg, stats, nf, lost = session(run, rng, label, 120 if th else 70, forged=(i % 3 == 2))
        cases.append({"session": label, "cfg": cfg, "first_difference": diffs[:1]})
        impl.append("agree")
        mod.append("agree" if not diffs else "differ")
        run.count("sessions")
        run.count("callbacks_true", stats["true"])
        run.count("callbacks_false", stats["false"])
        run.count("forged_datagrams", nf)
        run.evaluations += len(net.emitted["client"]) + len(net.emitted["server"])
        if stats["true"] and stats["false"] and lost:
            run.nt((label, stats["true"], stats["false"]))
        if i < 2:
            run.sample({"session": label, "cfg": cfg, "callbacks": {w: net.callbacks[w][:6] for w in net.callbacks}})
    run.compare("conn_run", cases, impl, mod)
    # ---- application callbacks that raise
    import logging
    logging.disable(logging.CRITICAL)        # the implementation logs every raising callback with its traceback
    try:
        shared_datagram_cases(run)
        cases, impl, mod = [], [], []
        for i in range(40 if th else 8):
            if any(not lib.matches_known("C07", f) for f in run.oracle_fail) and _time.time() - run.t0 > 60:
                break
            label = "r%d" % i
            net, diffs, cfg, stats, nf, lost = session(run, rng, label, 120 if th else 60, forged=False, bursts=True)
            cases.append({"session": label, "cfg": cfg, "raising_callbacks": True, "first_difference": diffs[:1]})
            impl.append("agree")
            mod.append("agree" if not diffs else "differ")
            run.count("sessions_with_raising_callbacks")
            run.count("raising_callbacks", sum(len(v) for v in net.raising_ids.values()))
            run.count("callbacks_true", stats["true"])
            run.count("callbacks_false", stats["false"])
            run.evaluations += len(net.emitted["client"]) + len(net.emitted["server"])
            if stats["true"] and stats["false"] and lost:
                run.nt((label, stats["true"], stats["false"]))
        run.compare("conn_run", cases, impl, mod)
        nested_api_sessions(run, rng, 30 if th else 6, 100 if th else 50)
        overtaken_sessions(run)
    finally:
        logging.disable(logging.NOTSET)
    acks_across_wrap(run)
    stale_ack_after_wrap(run)
    directed_d17(run)
    run.rules.append(RULE)
