"""C15 — typed JSON round-trip of Serializable objects.

Correspondence units (coq/Extract/U_Json.v): json_tojson, json_fromjson, json_loads_dumps, json_rt,
json_intstr, json_domain, json_plain against the real Serializable.toJson / fromJson / dumps / loads, the real
`json` module and the real int()/str().  Classes are generated dynamically (Serializable /
SerializableEnum subclasses built with type()), the class table is passed to the model as data.
Oracle: the round-trip property on the implementation alone (no model involved).

Floats are never compared as text: they travel as IEEE-754 binary64 bit patterns; generated floats
are exactly representable (k/1024, powers of two, +-0.0, +-inf)."""
import json, struct, typing, copy
from harness import lib

RULE = ("dynamically generated families of SerializableEnum / Serializable classes (0-6 fields, every annotated "
        "shape: int float bool str bytes, nested class, enum, List/Set/Dict/Tuple of those, bare and nested-generic "
        "containers, Optional) x generated field values (empty containers, None containers, 0/negative/2^63/10^k/"
        "4300-digit ints, unicode incl. astral and lone surrogates, nested objects, enum/int/str dict keys, alias "
        "enum members); malformed stream: wrong-shaped field values for toJson, mutated / truncated / re-keyed "
        "records for fromJson, non-plain data for json.dumps; non-trivial = in-domain object with a nested object "
        "inside a container or a dict with int/enum keys, or a malformed case that reaches an error branch; "
        "implementation-only oracle streams: enums whose raw values are NOT ints (strings - also spelled like another member's "
        "name, lower-case, empty -, floats, mixed), in scalar fields, List/Set/Tuple elements, Dict keys and values; "
        "dumps(indent=, sort_keys=) variants; HISTORIES: the same object converted repeatedly in one process, the objects "
        "returned by earlier fromJson calls scrambled in place between the calls, x itself must stay unchanged; IDENTIFICATION stream: "
        "str / int values, set and list elements, dict keys and values drawn from one group of look-alike values at a time ('12' "
        "'012' '+12' ' 12' '1_2' full-width digits; NFC / NFD / case / blank / zero-width variants of one text; '' vs blanks vs "
        "'null'; 2^53 and 2^53+1, 2^63 and 2^63+1): every member is a value of its own and must come back exactly")
ASSUMPTIONS = [
    "enum raw values are ints, member names are upper case (upper(name) = name) and distinct; attribute names of a class are distinct (wf_ctab)",
    "every field holds a value of its annotated type (ht_obj): container fields hold None or a container of the annotated shape, tuples have the annotated arity, dict keys are int/str/enum, floats are not NaN",
    "for the loads(dumps(x)) statements every int has at most 4300 decimal digits (CPython >= 3.11 int<->str limit; json.dumps raises ValueError beyond it)",
    "bytes fields, bare/nested-generic container annotations and None for a nested Serializable field are outside the domain (stated in the theorems' hypothesis ht_obj)",
]
TRUSTED = [
    "json_rt (Model/Json.v) = json.loads(json.dumps(v)) on plain data: dict keys stringified (int -> decimal, bool -> true/false, None -> null), later duplicate wins, tuples -> lists, NaN canonicalised; assumed of CPython's json module, sampled by unit json_rt on every run",
    "parse_int / dec = int(str) / str(int) (exact except non-ASCII decimal digits), sampled by unit json_intstr; str.upper is a universally quantified function in the theorems, instantiated by ASCII upper in the units",
    "class tables (fields, annotations, class attributes, enum members in dir() order) are read off the generated Python classes by the harness",
]

FUEL = 40
MASK = (1 << 64) - 1


class Unenc(Exception):
    pass


# ------------------------------------------------------------------ wire encoding of Python values

def f2b(x):
    return struct.unpack(">Q", struct.pack(">d", x))[0]


def b2f(b):
    return struct.unpack(">d", struct.pack(">Q", b))[0]


def enc_pv(x):
    from mpgameserver.serializable import Serializable, SerializableEnum
    if x is None:
        return [0]
    if isinstance(x, bool):
        return [1, int(x)]
    if isinstance(x, int):
        return [2, x]
    if isinstance(x, float):
        return [3, f2b(x)]
    if isinstance(x, str):
        return [4, [ord(c) for c in x]]
    if isinstance(x, bytes):
        return [5, list(x)]
    if isinstance(x, list):
        return [6, [enc_pv(y) for y in x]]
    if isinstance(x, tuple):
        return [7, [enc_pv(y) for y in x]]
    if isinstance(x, (set, frozenset)):
        return [8, [enc_pv(y) for y in x]]
    if isinstance(x, dict):
        return [9, [[enc_pv(k), enc_pv(v)] for k, v in x.items()]]
    if isinstance(x, SerializableEnum):
        if type(x.value) is not int:
            raise Unenc("enum raw value %r" % (x.value,))
        return [10, type(x).type_id, x.value]
    if isinstance(x, Serializable):
        return [11, type(x).type_id, [enc_pv(getattr(x, f)) for f in x._fields]]
    raise Unenc(repr(type(x)))


def canon(w):
    """sort set elements (hash order is not an observation)"""
    if not isinstance(w, list) or not w:
        return w
    t = w[0]
    if t in (6, 7):
        return [t, [canon(y) for y in w[1]]]
    if t == 8:
        return [t, sorted((canon(y) for y in w[1]), key=lambda y: json.dumps(y))]
    if t == 9:
        return [t, [[canon(k), canon(v)] for k, v in w[1]]]
    if t == 11:
        return [t, w[1], [canon(y) for y in w[2]]]
    return w


def guard(f):
    """result in the model's vres shape; an exception outside lib.ERR's named kinds gets code 99 so that it
    can never coincide with the model's EOther (= 'outside the modelled domain')"""
    try:
        return [0, canon(enc_pv(f()))]
    except Unenc:
        raise
    except Exception as e:   # noqa
        c = lib.exc_code(e)
        return [1, 99 if c == lib.ERR["Other"] else c]


def cres(r):
    return [0, canon(r[1])] if r[0] == 0 else r


# ------------------------------------------------------------------ generated classes

_ctr = [0]


def fresh(p):
    _ctr[0] += 1
    return "VfC15%s%d" % (p, _ctr[0])


class EnumInfo:
    def __init__(self, members, name=None):
        from mpgameserver.serializable import SerializableEnum
        self.members = sorted(members)                      # dir(cls) order
        self.cls = type(name or fresh("E"), (SerializableEnum,), dict(members))
        self.eid = self.cls.type_id

    def wire(self):
        return [self.eid, [[[ord(c) for c in n], v] for n, v in self.members]]


class ClassInfo:
    def __init__(self, fields, base=None):
        """fields: [(name, ty, annotation, class_attribute)]; base: a ClassInfo whose class this one derives from
        (a subclass of a concrete Serializable class serializes the fields IT declares: _fields and __annotations__
        are per class, so the model's class table entry is the same as for a direct subclass — but every
        per-class attribute the implementation looks up with hasattr/getattr is inherited)"""
        from mpgameserver.serializable import Serializable
        ns = {"__annotations__": {n: a for n, t, a, d in fields}}
        for n, t, a, d in fields:
            ns[n] = d
        self.base = base
        self.cls = type(fresh("C"), (Serializable if base is None else base.cls,), ns)
        self.cid = self.cls.type_id
        self.fields = fields
        assert tuple(self.cls._fields) == tuple(n for n, _, _, _ in fields)

    def wire(self):
        from mpgameserver.serializable import Default
        out = []
        for n, t, a, d in self.fields:
            if d is Default:
                d = a()
            out.append([[ord(c) for c in n], enc_ty(t), enc_pv(d)])
        return [self.cid, out]


class Family:
    def __init__(self):
        self.enums, self.classes = [], []
        self._w = None

    def wire(self):
        if self._w is None:
            self._w = [[c.wire() for c in self.classes], [e.wire() for e in self.enums]]
        return self._w


def enc_ety(e):
    k = e[0]
    if k in ("int", "float", "bool", "str", "bytes"):
        return [("int", "float", "bool", "str", "bytes").index(k)]
    if k == "obj":
        return [5, e[1].cid]
    if k == "enum":
        return [6, e[1].eid]
    return [7, ("list", "tuple", "set", "dict").index(e[1])]


def enc_ty(t):
    k = t[0]
    if k == "basic":
        return [0, enc_ety(t[1])]
    if k == "list":
        return [1, enc_ety(t[1])]
    if k == "set":
        return [2, enc_ety(t[1])]
    if k == "dict":
        return [3, enc_ety(t[1]), enc_ety(t[2])]
    if k == "tuple":
        return [4, [enc_ety(e) for e in t[1]]]
    return [5]


def enc_ty_names(t):
    """the shape of a field type as plain data (kinds only)"""
    if isinstance(t, (tuple, list)):
        return [enc_ty_names(x) for x in t]
    return t if isinstance(t, str) else "."


def ann_ety(rng, e):
    k = e[0]
    if k in ("int", "float", "bool", "str", "bytes"):
        return {"int": int, "float": float, "bool": bool, "str": str, "bytes": bytes}[k]
    if k in ("obj", "enum"):
        return e[1].cls
    bare = {"list": list, "tuple": tuple, "set": set, "dict": dict}[e[1]]
    nested = {"list": [typing.List[int], list[str]], "tuple": [typing.Tuple[int, int]], "set": [typing.Set[int]],
              "dict": [typing.Dict[str, int], dict[int, int]]}[e[1]]
    return rng.choice([bare] + nested) if e[2] else bare


def ann_ty(rng, t):
    k = t[0]
    new = rng.random() < 0.3          # PEP 585 spelling: same origin/args
    if k == "basic":
        return ann_ety(rng, t[1] + (False,) if t[1][0] == "bare" else t[1])      # top level: bare container only
    if k == "list":
        a = ann_ety(rng, t[1] + (True,) if t[1][0] == "bare" else t[1])
        return list[a] if new else typing.List[a]
    if k == "set":
        a = ann_ety(rng, t[1] + (True,) if t[1][0] == "bare" else t[1])
        return set[a] if new else typing.Set[a]
    if k == "dict":
        a = ann_ety(rng, t[1] + (True,) if t[1][0] == "bare" else t[1])
        b = ann_ety(rng, t[2] + (True,) if t[2][0] == "bare" else t[2])
        return dict[a, b] if new else typing.Dict[a, b]
    if k == "tuple":
        args = tuple(ann_ety(rng, e + (True,) if e[0] == "bare" else e) for e in t[1])
        return tuple[args] if new else typing.Tuple[args]
    return rng.choice([typing.Optional[int], typing.Union[int, str]])


UP_NAMES = ["RED", "GREEN", "BLUE", "A", "B", "X_1", "NORTH", "Z9", "漢", "LEFT", "RIGHT", "ALIAS", "数1"]
LOW_NAMES = ["Red", "green", "b", "mIxed"]
FIELD_NAMES = ["x", "y", "pos", "name", "cfg", "items", "v1", "v2", "color", "child", "kids", "ключ",
               "data", "n", "tags", "value", "users"]


def gen_enum(rng, domain=True):
    k = rng.randrange(1, 5)
    names = rng.sample(UP_NAMES, k)
    if not domain:
        names[rng.randrange(k)] = rng.choice(LOW_NAMES)
    vals = rng.sample([0, 1, 2, 3, 4, 7, -1, -5, 255, 1 << 40, -(1 << 70)], k)
    if k > 1 and rng.random() < 0.25:
        vals[1] = vals[0]                        # alias members
    return EnumInfo(list(zip(names, vals)))


def gen_ety(rng, fam, domain=True, key=False):
    c = rng.random()
    if key:
        if c < 0.4:
            return ("int",)
        if c < 0.7 or not fam.enums:
            return ("str",)
        return ("enum", rng.choice(fam.enums))
    opts = [("int",), ("float",), ("bool",), ("str",)]
    if fam.enums:
        opts += [("enum", rng.choice(fam.enums))] * 2
    if fam.classes:
        opts += [("obj", rng.choice(fam.classes))] * 3
    if not domain:
        opts += [("bytes",), ("bare", rng.choice(["list", "tuple", "set", "dict"]))]
    return rng.choice(opts)


def gen_ty(rng, fam, domain=True):
    c = rng.random()
    if c < 0.35:
        return ("basic", gen_ety(rng, fam, domain))
    if c < 0.5:
        return ("list", gen_ety(rng, fam, domain))
    if c < 0.62:
        e = gen_ety(rng, fam, domain)
        return ("set", e)
    if c < 0.8:
        k = gen_ety(rng, fam, True, key=True)
        if not domain and rng.random() < 0.3:
            k = rng.choice([("bool",), ("float",)])
        return ("dict", k, gen_ety(rng, fam, domain))
    if c < 0.95 or domain:
        return ("tuple", [gen_ety(rng, fam, domain) for _ in range(rng.choice([1, 2, 2, 3, 0 if not domain else 2]))])
    return ("other",)


def default_for(rng, t, fam):
    """class attribute"""
    from mpgameserver.serializable import Default
    if t[0] != "basic":
        return rng.choice([None, None, None, [1], ()])
    e = t[1]
    k = e[0]
    if k == "int":
        return rng.choice([0, 5, -1])
    if k == "float":
        return rng.choice([0.0, 0.5, 0])            # `v2: float = 0` occurs in the repository's own tests
    if k == "bool":
        return rng.choice([False, True])
    if k == "str":
        return rng.choice(["", "dflt"])
    if k == "bytes":
        return b""
    if k == "enum":
        n, _ = rng.choice(e[1].members)
        return getattr(e[1].cls, n)
    if k == "obj":
        return rng.choice([None, None, Default, e[1].cls()])
    return None


def gen_enum_any(rng):
    """an enum whose raw values are not (all) ints: the property speaks of enums, not of int-valued enums.
    Member names stay upper case and distinct; the raw values are pairwise distinct."""
    k = rng.randrange(2, 5)
    names = rng.sample([n for n in UP_NAMES if n.isascii()], k)
    c = rng.random()
    if c < 0.35:
        vals = names[1:] + names[:1]                 # each value is spelled like ANOTHER member's name
        if rng.random() < 0.5:
            rng.shuffle(vals)
    elif c < 0.5:
        vals = [n.lower() for n in names]
    elif c < 0.65:
        vals = rng.sample(["", "a b", "1", "-1", "RED", "green", "null", "é", "0.5", "A"], k)
    elif c < 0.8:
        vals = rng.sample([0.5, 1.5, -2.25, 1e300, 0.0009765625], k)
    else:
        vals = rng.sample([0, 1, "0", "1", "A", 2.5, "RED", -1], k)
    return EnumInfo(list(zip(names, vals)))


def gen_family(rng, domain=True, enum_gen=None):
    fam = Family()
    for _ in range(rng.randrange(1, 3)):
        fam.enums.append(enum_gen(rng) if enum_gen else gen_enum(rng, domain or rng.random() < 0.5))
    for i in range(rng.randrange(1, 5)):
        nf = rng.choice([0, 1, 2, 3, 4, 6])
        names = rng.sample(FIELD_NAMES, nf)
        fields = []
        for n in names:
            t = gen_ty(rng, fam, domain)
            fields.append((n, t, ann_ty(rng, t), default_for(rng, t, fam)))
        base = None
        if fam.classes and rng.random() < 0.3:
            base = rng.choice(fam.classes)          # derive from an earlier class of the family (converted first, as a rule)
            taken = {n for n, _, _, _ in base.fields}
            b = base.base
            while b is not None:
                taken |= {n for n, _, _, _ in b.fields}
                b = b.base
            fields = [f for f in fields if f[0] not in taken]
        fam.classes.append(ClassInfo(fields, base))
    return fam


# ------------------------------------------------------------------ generated values

BIG = 10 ** 4300
INTS = [0, 1, -1, 2, 7, -8, 127, 128, 255, 256, 65535, -32768, 2 ** 31, -2 ** 31 - 1, 2 ** 63, -2 ** 63, 2 ** 64, 10 ** 18,
        -10 ** 30, 123456789012345678901234567890]
STRS = ["", "a", "abc", "RED", "red", "12", "-5", " 7 ", "1_0", "null", "true", "None", "été", "漢字",
        "\U0001f600", "\ud800", "a\x00b", "q\"\\\n\t/", " ", "x" * 40, "kÉY", "ß", "􏿿"]
FLOATS = [0.0, -0.0, 1.0, -1.0, 0.5, 3.0, 1 / 1024, -7 / 1024, 12345 / 1024, 2.0 ** 100, -2.0 ** -1074, 2.0 ** -1022,
          float("inf"), float("-inf"), 1.7976931348623157e308, 4503599627370497.0]


def gen_int(rng, big=True):
    c = rng.random()
    if c < 0.6:
        return rng.choice(INTS)
    if c < 0.9:
        return rng.randrange(-10 ** 6, 10 ** 6)
    if c < 0.993 or not big:
        return rng.choice([1, -1]) * rng.randrange(10 ** rng.randrange(1, 60))
    return rng.choice([BIG - 1, -(BIG - 1), BIG // 10])         # the 4300-digit boundary, inside


def gen_str(rng):
    if rng.random() < 0.7:
        return rng.choice(STRS)
    return "".join(chr(rng.choice([rng.randrange(32, 127), rng.randrange(0xa0, 0x800), rng.randrange(0x4e00, 0x4f00),
                                   rng.randrange(0x1f600, 0x1f640)])) for _ in range(rng.randrange(0, 6)))


def gen_float(rng):
    if rng.random() < 0.6:
        return rng.choice(FLOATS)
    return rng.randrange(-2 ** 30, 2 ** 30) / 1024


def gen_basic(rng, e, depth):
    k = e[0]
    if k == "int":
        return gen_int(rng)
    if k == "float":
        return gen_float(rng)
    if k == "bool":
        return rng.random() < 0.5
    if k == "str":
        return gen_str(rng)
    if k == "enum":
        n, _ = rng.choice(e[1].members)
        return getattr(e[1].cls, n)
    if k == "obj":
        return gen_obj(rng, e[1], depth + 1)
    raise AssertionError(k)


def distinct(rng, e, depth, n):
    """n candidate elements of type e, pairwise distinct under Python equality (objects: by identity)"""
    out = []
    for _ in range(n):
        v = gen_basic(rng, e, depth)
        if e[0] == "obj" or all(not (v == w) for w in out):
            out.append(v)
    return out


def gen_field(rng, t, depth):
    k = t[0]
    if k == "basic":
        return gen_basic(rng, t[1], depth)
    if k == "other":
        return None
    c = rng.random()
    if c < 0.12:
        return None
    n = 0 if c < 0.27 else rng.randrange(1, 4 if depth < 3 else 2)
    if k == "list":
        return [gen_basic(rng, t[1], depth) for _ in range(n)]
    if k == "set":
        return set(distinct(rng, t[1], depth, n))
    if k == "dict":
        ks = distinct(rng, t[1], depth, n)
        return {kk: gen_basic(rng, t[2], depth) for kk in ks}
    return tuple(gen_basic(rng, e, depth) for e in t[1])


def gen_obj(rng, ci, depth=0):
    kw = {n: gen_field(rng, t, depth) for n, t, a, d in ci.fields}
    return ci.cls(**kw)


JUNK = [None, True, False, 0, 7, -3, 2 ** 70, 2.5, -0.0, float("inf"), "", "12", " 7 ", "1_0", "+5", "abc", "RED", "red", "Blue",
        [], [1, 2], ["a"], [None], {}, {"a": 1}, {1: 2}, {0: 5, 1: "red"}, (), (1, 2), (1,), set(), {5, 6}, b"", b"RED",
        [[1]], {"x": None}, "name", ["name"], ["x"], {"RED": 1}, {"1": 2, "01": 3}, ["RED", "red"], [1, True, "1"]]


def junk(rng, fam):
    c = rng.random()
    if c < 0.8:
        return copy.deepcopy(rng.choice(JUNK))
    if c < 0.9 and fam.enums:
        e = rng.choice(fam.enums)
        return getattr(e.cls, rng.choice(e.members)[0])
    if fam.classes:
        return gen_obj_loose(rng, rng.choice(fam.classes), fam)
    return None


def malform_obj(rng, ci, fam, loose=False):
    """an instance with 1-2 fields of the wrong shape"""
    x = gen_obj_loose(rng, ci, fam) if loose else gen_obj(rng, ci)
    if not ci.fields:
        return x
    for _ in range(rng.choice([1, 1, 2])):
        n, t, a, d = rng.choice(ci.fields)
        cur = getattr(x, n)
        c = rng.random()
        if c < 0.5 or cur is None:
            setattr(x, n, junk(rng, fam))
        elif isinstance(cur, list) and cur:
            cur[rng.randrange(len(cur))] = junk(rng, fam)
        elif isinstance(cur, tuple):
            setattr(x, n, rng.choice([cur[:-1], cur + (junk(rng, fam),), list(cur)]))
        elif isinstance(cur, dict) and cur:
            kk = rng.choice(list(cur))
            if rng.random() < 0.5:
                cur[kk] = junk(rng, fam)
            else:
                j = junk(rng, fam)
                try:
                    cur[j] = cur.pop(kk)
                except Exception:   # noqa  unhashable junk / == raising: keep the dict as it is
                    cur.setdefault(kk, None)
        else:
            setattr(x, n, junk(rng, fam))
    return x


def mutate(rng, j, fam, p=0.25):
    """wrong-shaped variants of a record"""
    if rng.random() < p * 0.4:
        return junk(rng, fam)
    if isinstance(j, dict):
        out = {}
        for k, v in j.items():
            c = rng.random()
            if c < p * 0.3:
                continue                                        # missing key
            if c < p * 0.5:
                nk = rng.choice([k.lower() if isinstance(k, str) else k, str(k) + " ", "0" + str(k), "zz", 3, True, None])
                try:
                    out[nk] = mutate(rng, v, fam, p)
                except Exception:   # noqa
                    pass
                continue
            out[k] = mutate(rng, v, fam, p)
        if rng.random() < p * 0.3:
            out["extra"] = 1
        return out
    if isinstance(j, list):
        out = [mutate(rng, v, fam, p) for v in j]
        c = rng.random()
        if c < p * 0.2 and out:
            out.pop()
        elif c < p * 0.4:
            out.append(junk(rng, fam))
        elif c < p * 0.5:
            return tuple(out)
        return out
    if isinstance(j, str) and rng.random() < p:
        return rng.choice([j.lower(), j + " ", j.capitalize()])
    if rng.random() < p:
        return junk(rng, fam)
    return j


# ------------------------------------------------------------------ oracle helpers (implementation only)

def deep_eq(a, b):
    """x reproduced field for field"""
    from mpgameserver.serializable import Serializable, SerializableEnum
    if type(a) is not type(b):
        return False
    if isinstance(a, Serializable):
        return all(deep_eq(getattr(a, f), getattr(b, f)) for f in a._fields)
    if isinstance(a, SerializableEnum):
        return a.value == b.value and type(a.value) is type(b.value)
    if isinstance(a, (list, tuple)):
        return len(a) == len(b) and all(deep_eq(x, y) for x, y in zip(a, b))
    if isinstance(a, set):
        if len(a) != len(b):
            return False
        rest = list(b)
        for x in a:
            for i, y in enumerate(rest):
                if deep_eq(x, y):
                    del rest[i]
                    break
            else:
                return False
        return True
    if isinstance(a, dict):
        if len(a) != len(b):
            return False
        for k, v in a.items():
            hit = [kk for kk in b if deep_eq(k, kk)]
            if len(hit) != 1 or not deep_eq(v, b[hit[0]]):
                return False
        return True
    if isinstance(a, float):
        return a == b and f2b(a) == f2b(b)
    return a == b


def strictly_plain(j):
    if j is None or type(j) in (bool, int, float, str):
        return True
    if type(j) is list:
        return all(strictly_plain(x) for x in j)
    if type(j) is dict:
        return all(type(k) is str and strictly_plain(v) for k, v in j.items())
    return False


def plain_py(j, lim):
    """JSON data with str or int dict keys (what toJson may hand to json.dumps); lim: ints within the 4300-digit limit"""
    def int_ok(z):
        if not lim:
            return True
        try:
            str(z)
            return True
        except ValueError:
            return False
    if j is None or type(j) in (bool, float, str):
        return True
    if type(j) is int:
        return int_ok(j)
    if type(j) is list:
        return all(plain_py(x, lim) for x in j)
    if type(j) is dict:
        return all((type(k) is str or (type(k) is int and int_ok(k))) and plain_py(v, lim) for k, v in j.items())
    return False


def describe(x):
    try:
        return lib.jsonable(enc_pv(x))
    except Exception:   # noqa
        return repr(x)[:300]


def oracle_one(run, ci, x, fam):
    """the property, on the implementation alone, for one in-domain object"""
    site = "Serializable.toJson/fromJson"
    case = {"class_fields": [[n, enc_ty(t)] for n, t, a, d in ci.fields], "object": describe(x)}
    run.evaluations += 1
    try:
        j = x.toJson()
    except Exception as e:   # noqa
        run.oracle_violation("toJson-raises", dict(case, error=repr(e)[:200]), site)
        return
    if not plain_py(j, False):
        run.oracle_violation("toJson-output-not-plain", case, site)
    try:
        y = ci.cls.fromJson(j)
        if not deep_eq(x, y):
            run.oracle_violation("fromJson(toJson(x)) != x", dict(case, got=describe(y)), site)
    except Exception as e:   # noqa
        run.oracle_violation("fromJson(toJson(x))-raises", dict(case, error=repr(e)[:200]), site)
    try:
        s = json.dumps(j)
    except Exception as e:   # noqa
        run.oracle_violation("json.dumps-refuses-toJson-output", dict(case, error=repr(e)[:200]), "json.dumps")
        return
    if not strictly_plain(json.loads(s)):
        run.oracle_violation("not-plain-json", case, "json.dumps")
    try:
        z = ci.cls.loads(x.dumps())
        if not deep_eq(x, z):
            run.oracle_violation("loads(dumps(x)) != x", dict(case, got=describe(z)), "Serializable.dumps/loads")
    except Exception as e:   # noqa
        run.oracle_violation("loads(dumps(x))-raises", dict(case, error=repr(e)[:200]), "Serializable.dumps/loads")
    # the documented keyword arguments of dumps change the text, not the data
    for kw in ({"indent": 2}, {"sort_keys": True}, {"indent": 0, "sort_keys": True}):
        try:
            z = ci.cls.loads(x.dumps(**kw))
            if not deep_eq(x, z):
                run.oracle_violation("loads(dumps(x)) != x", dict(case, dumps_kwargs=kw, got=describe(z)), "Serializable.dumps/loads")
        except Exception as e:   # noqa
            run.oracle_violation("loads(dumps(x))-raises", dict(case, dumps_kwargs=kw, error=repr(e)[:200]), "Serializable.dumps/loads")


def scramble(y):
    """change in place every container an object returned by fromJson holds (the caller owns that object) and unset its fields"""
    for f in y._fields:
        v = getattr(y, f)
        try:
            if isinstance(v, list):
                v.append(v[0] if v else None)
                v.reverse()
            elif isinstance(v, set):
                v.clear()
            elif isinstance(v, dict):
                v.clear()
                v["scrambled"] = None
            # (a nested object is left alone: it may be the class attribute the user gave as the default)
            setattr(y, f, None)
        except Exception:   # noqa  read-only value: nothing to scramble
            pass


def oracle_history(run, ci, x):
    """the same object through the conversions again and again in one process; what earlier calls returned is
    scrambled in between; every later conversion must still reproduce x, and x must not have been touched"""
    site = "Serializable.toJson/fromJson (repeated calls in one process)"
    case = {"class_fields": [[n, enc_ty(t)] for n, t, a, d in ci.fields], "object": describe(x)}
    run.evaluations += 1
    try:
        x0 = copy.deepcopy(x)
        for rnd in range(3):
            j = x.toJson()
            y = ci.cls.fromJson(j)
            z = ci.cls.loads(x.dumps())
            d = ci.cls()                         # a default instance, scrambled too
            for w, what in ((y, "fromJson(toJson(x)) != x"), (z, "loads(dumps(x)) != x")):
                if not deep_eq(x0, w):
                    run.oracle_violation(what, dict(case, call_number=rnd + 1, got=describe(w),
                                                    note="earlier results were modified in place by their owner"), site)
                    return
            if not deep_eq(x0, x):
                run.oracle_violation("conversion-changes-x", dict(case, call_number=rnd + 1, now=describe(x)), site)
                return
            scramble(y); scramble(z); scramble(d)
            if isinstance(j, dict):
                j.clear()
    except Exception as e:   # noqa
        run.oracle_violation("fromJson(toJson(x))-raises", dict(case, error=repr(e)[:200], note="repeated calls"), site)


def nontrivial_obj(x):
    from mpgameserver.serializable import Serializable, SerializableEnum
    for f in x._fields:
        v = getattr(x, f)
        if isinstance(v, (list, set, tuple)) and any(isinstance(y, Serializable) for y in v):
            return True
        if isinstance(v, dict) and v and (any(isinstance(k, (int, SerializableEnum)) for k in v)
                                           or any(isinstance(y, Serializable) for y in v.values())):
            return True
    return False


# ------------------------------------------------------------------ the run

def compare_filtered(run, unit, cases, impl, mod, allow_unmodelled, descs):
    """compare; in the malformed stream a model answer [1, 9] means 'outside the modelled domain of a builtin':
    such cases are counted and excluded (never in the in-domain stream)"""
    c2, i2, m2, d2 = [], [], [], []
    for c, i, m, d in zip(cases, impl, mod, descs):
        if allow_unmodelled and m == [1, 9]:
            run.count(unit + "_outside_model")
            continue
        c2.append(c); i2.append(i); m2.append(cres(m) if isinstance(m, list) and len(m) == 2 and m[0] in (0, 1) else m); d2.append(d)
    idx = {id(c): d for c, d in zip(c2, d2)}
    run.compare(unit, c2, i2, m2, describe=lambda c: idx.get(id(c)))
    return len(c2)


def run(run):
    M = run.model
    rng = run.rng
    scale = 12 if run.thorough() else 1

    # ---------------- in-domain families
    fams = [gen_family(rng, True) for _ in range(40 * scale)]
    dom_cases, dom_objs = [], []
    for fam in fams:
        for ci in fam.classes:
            for _ in range(6 if ci.fields else 1):
                x = gen_obj(rng, ci)
                dom_cases.append([fam.wire(), FUEL, ci.cid, enc_pv(x)])
                dom_objs.append((fam, ci, x))
    run.count("in_domain_objects", len(dom_objs))
    run.count("families", len(fams))

    def descs_of(objs):
        return [{"fields": [[n, enc_ty(t)] for n, t, a, d in ci.fields], "object": describe(x)} for fam, ci, x in objs]

    # domain: the generator's in-domain objects are inside the theorems' hypothesis
    mod = M.call_many("json_domain", dom_cases)
    run.compare("json_domain", dom_cases, [[1, 1, 1]] * len(dom_cases), mod, describe=lambda c: c[3])

    # toJson / fromJson(toJson) / loads(dumps) on in-domain objects
    impl = [guard(lambda: x.toJson()) for fam, ci, x in dom_objs]
    mod = M.call_many("json_tojson", [[c[0], c[1], c[3]] for c in dom_cases])
    compare_filtered(run, "json_tojson", dom_cases, impl, mod, False, descs_of(dom_objs))
    recs = []
    for fam, ci, x in dom_objs:
        try:
            j = x.toJson()
            recs.append((fam, ci, j))
            recs.append((fam, ci, json.loads(json.dumps(j))))
        except Exception:   # noqa  not ignored: the json_tojson comparison above has already failed on this
            run.count("in_domain_tojson_or_dumps_raised")   # object and the oracle below reports it as a concrete replay
    fcases = [[fam.wire(), FUEL, ci.cid, enc_pv(j)] for fam, ci, j in recs]
    impl = [guard(lambda: ci.cls.fromJson(j)) for fam, ci, j in recs]
    mod = M.call_many("json_fromjson", fcases)
    compare_filtered(run, "json_fromjson", fcases, impl, mod, False,
                     [{"record": lib.jsonable(c[3])} for c in fcases])
    impl = [guard(lambda: ci.cls.loads(x.dumps())) for fam, ci, x in dom_objs]
    mod = M.call_many("json_loads_dumps", dom_cases)
    compare_filtered(run, "json_loads_dumps", dom_cases, impl, mod, False, descs_of(dom_objs))
    # and the model's own round trip must give back the object (the theorem, evaluated)
    want = [[0, canon(c[3])] for c in dom_cases]
    run.compare("json_loads_dumps", dom_cases, want, [cres(m) for m in mod], describe=lambda c: c[3])
    for (fam, ci, x), c in zip(dom_objs, dom_cases):
        if nontrivial_obj(x):
            run.nt(("dom", json.dumps(c[3])))
    run.sample({"unit": "json_tojson", "fields": [[n, enc_ty(t)] for n, t, a, d in dom_objs[3][1].fields],
                "object": describe(dom_objs[3][2]), "toJson": lib.jsonable(guard(lambda: dom_objs[3][2].toJson()))})

    # ---------------- oracle on the implementation alone
    for fam, ci, x in dom_objs:
        oracle_one(run, ci, x, fam)
    for fam, ci, x in dom_objs[::3]:
        oracle_history(run, ci, x)
    # enums with non-int raw values (outside the model's class tables: implementation-only)
    nany = 0
    for _ in range(60 * scale):
        fam = gen_family(rng, True, enum_gen=gen_enum_any)
        for ci in fam.classes:
            uses_enum = any("enum" in json.dumps(enc_ty_names(t)) for n, t, a, d in ci.fields)
            for _ in range(5 if uses_enum else 1):
                x = gen_obj(rng, ci)
                oracle_one(run, ci, x, fam)
                if uses_enum:
                    nany += 1
                    run.nt(("anyenum", repr(x)[:300]))
                    if nany % 4 == 0:
                        oracle_history(run, ci, x)
    run.count("objects_with_non_int_enums", nany)
    identification_stream(run, scale)

    # ---------------- out-of-domain class tables + malformed values (toJson side)
    fams2 = [gen_family(rng, False) for _ in range(40 * scale)]
    mcases, mobjs = [], []
    for fam in fams + fams2:
        loose = fam in fams2
        for ci in fam.classes:
            for _ in range(4 if ci.fields else 1):
                x = malform_obj(rng, ci, fam, loose) if rng.random() < 0.7 else gen_obj_loose(rng, ci, fam)
                try:
                    mcases.append([fam.wire(), FUEL, ci.cid, enc_pv(x)])
                    mobjs.append((fam, ci, x))
                except Unenc:
                    run.count("unencodable_skipped")
    impl = [guard_tojson(x) for fam, ci, x in mobjs]
    keep = [i for i, r in enumerate(impl) if r is not None]
    mcases, mobjs, impl = [mcases[i] for i in keep], [mobjs[i] for i in keep], [impl[i] for i in keep]
    mod = M.call_many("json_tojson", [[c[0], c[1], c[3]] for c in mcases])
    compare_filtered(run, "json_tojson", mcases, impl, mod, True, descs_of(mobjs))
    for c, r in zip(mcases, impl):
        run.count("tojson_malformed_err_%d" % r[1] if r[0] == 1 else "tojson_malformed_ok")
        if r[0] == 1:
            run.nt(("mt", r[1], json.dumps(c[3])[:200]))
    # loads(dumps) on the malformed objects too (json.dumps refusals, key collisions)
    impl = [guard_ld(ci, x) for fam, ci, x in mobjs]
    keep = [i for i, r in enumerate(impl) if r is not None]
    mod = M.call_many("json_loads_dumps", [mcases[i] for i in keep])
    compare_filtered(run, "json_loads_dumps", [mcases[i] for i in keep], [impl[i] for i in keep], mod, True,
                     descs_of([mobjs[i] for i in keep]))

    # ---------------- malformed records (fromJson side)
    rcases, rimpl = [], []
    for fam, ci, j in recs:
        for _ in range(2):
            r = mutate(rng, j, fam)
            try:
                w = enc_pv(r)
                res = guard(lambda: ci.cls.fromJson(r))
            except Unenc:
                run.count("unencodable_skipped")
                continue
            rcases.append([fam.wire(), FUEL, ci.cid, w])
            rimpl.append(res)
    for fam in fams2:
        for ci in fam.classes:
            for _ in range(4):
                try:
                    x = gen_obj_loose(rng, ci, fam)
                    j = x.toJson()
                    if rng.random() < 0.5:
                        j = json.loads(json.dumps(j))
                    if rng.random() < 0.5:
                        j = mutate(rng, j, fam)
                    w = enc_pv(j)
                    res = guard(lambda: ci.cls.fromJson(j))
                except Unenc:
                    run.count("unencodable_skipped")
                    continue
                except Exception:   # noqa  toJson / json.dumps refused the loose object: nothing to feed fromJson
                    run.count("loose_object_not_convertible")
                    continue
                rcases.append([fam.wire(), FUEL, ci.cid, w])
                rimpl.append(res)
    mod = M.call_many("json_fromjson", rcases)
    compare_filtered(run, "json_fromjson", rcases, rimpl, mod, True, [{"record": lib.jsonable(c[3])} for c in rcases])
    for c, r in zip(rcases, rimpl):
        run.count("fromjson_malformed_err_%d" % r[1] if r[0] == 1 else "fromjson_malformed_ok")
        if r[0] == 1:
            run.nt(("mf", r[1], json.dumps(c[3])[:200]))
    if rcases:
        run.sample({"unit": "json_fromjson", "record": lib.jsonable(rcases[1][3]), "impl": lib.jsonable(rimpl[1])})

    # ---------------- json_rt against the real json module
    jc = [gen_plainish(rng, 0) for _ in range(3000 * scale)]
    jc += [10 ** 4300 - 1, 10 ** 4300, -(10 ** 4300), [10 ** 4300], {10 ** 4300: 1}, {10 ** 4300 - 1: 1}, {1: "a", "1": "b"},
           {"1": "a", 1: "b", True: "c"}, {None: 1, "null": 2}, {True: 1, False: 2, "true": 3}, (1, (2, [3])), {(1, 2): 3},
           {b"k": 1}, [set()], b"x", {"a": {"b": {1: {2: [(), {}]}}}}, float("nan"), [float("inf"), -0.0], {1: set(), (1,): 2},
           {1: 10 ** 4300, 2: set()}, b2f(0xfff0000000000001), b2f(0x7ff0000000000001)]
    jcases, jimpl, jvals = [], [], []
    for v in jc:
        try:
            w = enc_pv(v)
        except Unenc:
            continue
        jcases.append([w])
        jvals.append(v)
        jimpl.append(guard(lambda: json.loads(json.dumps(v))))
    mod = M.call_many("json_rt", jcases)
    compare_filtered(run, "json_rt", jcases, jimpl, mod, True, [lib.jsonable(c[0]) for c in jcases])
    for c, r in zip(jcases, jimpl):
        run.count("json_rt_err_%d" % r[1] if r[0] == 1 else "json_rt_ok")

    # ---------------- the predicates plainb / strictb against their Python restatement
    pvals = [j for fam, ci, j in recs]
    for fam, ci, x in mobjs:
        try:
            j = x.toJson()
            enc_pv(j)
            pvals.append(j)
        except Exception:   # noqa  toJson raised / unencodable: no value to classify
            pass
    pvals += jvals
    pcases = [[enc_pv(j)] for j in pvals]
    pimpl = [[int(plain_py(j, False)), int(plain_py(j, True)), int(strictly_plain(j))] for j in pvals]
    mod = M.call_many("json_plain", pcases)
    run.compare("json_plain", pcases, pimpl, mod, describe=lambda c: lib.jsonable(c[0]))
    for r in pimpl:
        run.count("plain_%d%d%d" % tuple(r))

    # ---------------- int <-> str
    icases = []
    zs = INTS + [BIG - 1, BIG, -BIG, -(BIG - 1), BIG + 1, 10 ** 4299, 10 ** 639, 10 ** 640, 10 ** 641] + \
        [rng.choice([1, -1]) * rng.randrange(10 ** rng.randrange(1, 80)) for _ in range(300 * scale)]
    alpha = " \t\n\x0b\x0c\r\x1c\x1f\x85\xa0 　+-__0123456789012345aZé.e\x00"
    ss = ["", " ", "-", "+", "_", "1_", "_1", "1__0", "1_0", "+5", "-0", "00", "007", " 12 ", "- 1", "+-1", "1 2", "0x10", "1e3", "1.0",
          "1" * 4300, "1" * 4301, "0" * 4301, "-" + "9" * 4300, " " + "9" * 4300 + "\n", "1_" * 4299 + "1", "1_" * 4300 + "1",
          "\xa012　", "​1", "\ud800", "12\x00"]
    ss += ["".join(rng.choice(alpha) for _ in range(rng.randrange(0, 7))) for _ in range(3000 * scale)]
    ss += [rng.choice(["", " ", "\n", "+", "-"]) + str(rng.randrange(10 ** rng.randrange(1, 30))) + rng.choice(["", " ", "\t", "_", "_1"])
           for _ in range(500 * scale)]
    # the 4300-digit boundary values are expensive in the extracted model (unary-decimal conversions):
    # each of them is used once, paired with a cheap partner; the cheap values are cycled
    zs_big, zs_small = [z for z in zs if abs(z) >= 10 ** 700], [z for z in zs if abs(z) < 10 ** 700]
    ss_big, ss_small = [t for t in ss if len(t) >= 700], [t for t in ss if len(t) < 700]
    n = max(len(zs_small), len(ss_small))
    for i in range(n):
        icases.append((zs_small[i % len(zs_small)], ss_small[i % len(ss_small)]))
    icases += [(z, ss_small[i % len(ss_small)]) for i, z in enumerate(zs_big)]
    icases += [(zs_small[i % len(zs_small)], t) for i, t in enumerate(ss_big)]

    def impl_intstr(z, s):
        try:
            a = [0, [ord(c) for c in str(z)]]
        except ValueError:
            a = [1, lib.ERR["ValueError"]]
        try:
            b = [0, int(s)]
        except ValueError:
            b = [1, lib.ERR["ValueError"]]
        return [a, b]
    impl = [impl_intstr(z, s) for z, s in icases]
    mod = M.call_many("json_intstr", [[z, [ord(c) for c in s]] for z, s in icases])
    run.compare("json_intstr", icases, impl, mod, describe=lambda c: [str(c[0])[:60], repr(c[1])[:80]])
    for (z, s), r in zip(icases, impl):
        if r[1][0] == 0 and s.strip() != str(r[1][1]):
            run.nt(("int", s[:50]))
    run.exhaustive.append("enum/str.upper: none; int<->str: 4300-digit boundary both directions enumerated")
    run.rules.append(RULE)


# values an implementation might IDENTIFY: strings that read as the same number / the same text after a canonicalisation
# (they are different strings: different set elements, different dictionary keys), ints that coincide as floats
IDENT_STR_GROUPS = [
    ["12", "012", "+12", " 12", "12 ", "1_2", "\uff11\uff12", "12\n", "1e1", "12.0"],
    ["1", "01", "1.0", "True", "true", "\u0661", "+1", "1 "],
    ["\u00e9t\u00e9", "e\u0301te\u0301", "\u00c9T\u00c9", "ete", "\u00e9t\u00e9 ", "\ufeff\u00e9t\u00e9"],
    ["RED", "red", "Red", "RED ", "\uff32\uff25\uff24", "R\u200bED", "\uff32ED"],
    ["stra\u00dfe", "strasse", "STRASSE", "STRA\u1e9eE", "Stra\u00dfe"],
    ["\ufb01", "fi", "FI", "\u212b", "\u00c5", "A\u030a"],
    ["key", "Key", "KEY", "key\x00", "ke\u200dy", " key", "key "],
    ["", " ", "\x00", "\u200b", "\ufeff", "\t", "\u00a0"],
    ["null", "None", "NULL", "Null", "nul", "", "0", "false", "False"]]
IDENT_INT_GROUPS = [[0, 1, -1, 2, 10, 12], [2 ** 53, 2 ** 53 + 1, 2 ** 53 - 1, -2 ** 53, -2 ** 53 - 1], [2 ** 63, 2 ** 63 + 1, 2 ** 64, 2 ** 64 + 1, -2 ** 63],
                    [255, 256, -255, -256, 65535, 65536], [10 ** 17, 10 ** 17 + 1, 10 ** 30, 10 ** 30 + 1]]


def identification_stream(run, scale):
    """implementation-only oracle stream (in-domain classes and objects): str / int fields, list and set elements, dictionary
    keys and values drawn from ONE group of look-alike values at a time, so that containers hold several members of a group;
    the round trip must reproduce every one of them (a set keeps its size, a dict all its keys, each value its exact text)"""
    global STRS, INTS
    rng = run.rng
    saved = (STRS, INTS)
    n = 0
    try:
        for gi, grp in enumerate(IDENT_STR_GROUPS * scale):
            STRS = grp
            INTS = IDENT_INT_GROUPS[gi % len(IDENT_INT_GROUPS)]
            for _ in range(12):
                fam = gen_family(rng, True)
                for ci in fam.classes:
                    txt = json.dumps([enc_ty_names(t) for _n, t, a, d in ci.fields])
                    if "str" not in txt and "int" not in txt:
                        continue
                    for k in range(4):
                        x = gen_obj(rng, ci)
                        oracle_one(run, ci, x, fam)
                        n += 1
                        if nontrivial_ident(x):
                            run.nt(("ident", repr(describe(x))[:300]))
                        if k == 0:
                            oracle_history(run, ci, x)
    finally:
        STRS, INTS = saved
    run.count("identification_objects", n)


def nontrivial_ident(x):
    for f in x._fields:
        v = getattr(x, f)
        if isinstance(v, (set, dict, list, tuple)) and len(v) >= 2:
            return True
    return False


def gen_obj_loose(rng, ci, fam):
    """values of roughly the right shape for out-of-domain annotations (bytes, bare containers, bool/float keys)"""
    kw = {}
    for n, t, a, d in ci.fields:
        try:
            kw[n] = gen_field_loose(rng, t, fam)
        except Exception:   # noqa
            kw[n] = None
    return ci.cls(**kw)


def gen_basic_loose(rng, e, fam):
    k = e[0]
    if k == "bytes":
        return rng.choice([b"", b"ab", b"\x00\xff"])
    if k == "bare":
        return {"list": [[], [1, (2, 3)], ["a"]], "tuple": [(), (1, "a")], "set": [set(), {1, 2}],
                "dict": [{}, {"a": 1}, {1: 2}]}[e[1]][rng.randrange(2)]
    if k == "float" and rng.random() < 0.3:
        return rng.choice([float("nan"), 3, 0])
    if k == "obj":
        return None if rng.random() < 0.2 else gen_obj_loose(rng, e[1], fam)
    return gen_basic(rng, e, 1)


def gen_field_loose(rng, t, fam):
    k = t[0]
    if k == "basic":
        return gen_basic_loose(rng, t[1], fam)
    if k == "other":
        return rng.choice([None, None, 5])
    if rng.random() < 0.1:
        return None
    n = rng.randrange(0, 3)
    if k == "list":
        return [gen_basic_loose(rng, t[1], fam) for _ in range(n)]
    if k == "set":
        return set(gen_basic_loose(rng, t[1], fam) for _ in range(n))
    if k == "dict":
        return {gen_basic_loose(rng, t[1], fam): gen_basic_loose(rng, t[2], fam) for _ in range(n)}
    return tuple(gen_basic_loose(rng, e, fam) for e in t[1])


def guard_tojson(x):
    try:
        return guard(lambda: x.toJson())
    except Unenc:
        return None


def guard_ld(ci, x):
    try:
        return guard(lambda: ci.cls.loads(x.dumps()))
    except Unenc:
        return None


def gen_plainish(rng, depth):
    c = rng.random()
    if depth > 3 or c < 0.45:
        k = rng.random()
        if k < 0.3:
            return gen_int(rng, big=False)
        if k < 0.5:
            return gen_str(rng)
        if k < 0.65:
            return gen_float(rng)
        if k < 0.8:
            return rng.choice([None, True, False])
        if k < 0.97:
            return rng.choice([[], {}, ()])
        return rng.choice([b"x", set(), float("nan"), {1, 2}])
    n = rng.randrange(0, 4)
    if c < 0.65:
        return [gen_plainish(rng, depth + 1) for _ in range(n)]
    if c < 0.72:
        return tuple(gen_plainish(rng, depth + 1) for _ in range(n))
    d = {}
    for _ in range(n):
        k = rng.random()
        key = gen_str(rng) if k < 0.45 else rng.choice([0, 1, -1, 12, 10 ** 20]) if k < 0.75 else \
            rng.choice(["0", "1", "-1", "12", "true", "null", "True"]) if k < 0.9 else \
            rng.choice([True, False, None]) if k < 0.98 else rng.choice([(1, 2), b"k"])
        d[key] = gen_plainish(rng, depth + 1)
    return d
