"""C18 — WebSocket frames round-trip per RFC 6455; TCP segmentation is harmless.
Correspondence units: ws_encode (writeFrame), ws_parse (readFrame over the ring buffer), ws_feed
(WebSocketTemporaryHandler.__call__ over a chunked stream), ws_available (_frameAvailable), ws_utf8
(bytes.decode('utf-8') succeeds), ws_rfc (the spec-side RFC encoder of the theorems vs an independent
Python one), ws_factory / ws_defaults (the public constructors WebSocketFrame.Ping/Pong/Close/Text/Binary, Model/WsFactory.v),
ws_out (WebSocketTemporaryHandler.send / close: the bytes the server writes).  Oracle: round trip + RFC form + exactly-once in-order delivery on the implementation alone."""
import struct, itertools
from harness import lib

RULE = ("frames: every opcode x mask x fin/rsv bits x payload length at the 125/126/127, 65535/65536 boundaries (+-3), 0..300 and "
        "samples up to 70000 (thorough: all lengths 0..2100, 65000..66100, every 37th up to 70000 through the model; every length "
        "0..70000 through the implementation oracle), random keys, short/long keys and inconsistent payload_length (malformed); "
        "parse: valid encodings, every truncation of short ones, random bytes; streams: all 2- and 3-cut chunkings of short frame "
        "sequences, every cut position in the header / extended length / key and around the end of frames of length 126, 127, 300, 65535, "
        "65536, random chunkings of long ones, byte-by-byte, plus malformed streams (unmasked, bad opcode, bad utf-8, Close twice); the "
        "oracle checks the final deliveries and, read by read, that exactly the frames complete so far have been delivered; "
        "non-trivial = extended length form or a cut that falls inside a frame; "
        "PUBLIC CONSTRUCTORS: Ping/Pong/Binary/Close/Text (+ their default arguments) x payload kind (ASCII, 2-/3-/4-byte UTF-8 "
        "characters, NUL, empty, bytes and bytearray) x the 125/126/127 and 65535/65536 boundaries counted in BYTES and counted in "
        "CHARACTERS, all frames built first and written afterwards (and written twice); handler.send / close histories on one "
        "handler (non-ASCII text, send after close, close twice, non-str arguments) and send() issued from inside the endpoint "
        "callback (echo), the written stream re-parsed by an independent RFC 6455 reader; two or three connections alive in one "
        "process with their TCP reads interleaved")
ASSUMPTIONS = ["continuation frames (opcode 0) and message fragmentation are not supported by the code and outside the statement",
               "client frames are masked, carry a wire opcode (Text/Binary/Close/Ping/Pong) and Text payloads are valid UTF-8",
               "payload length < 2^63 (RFC 6455)"]
USES_GENERATED_WS = True
TRUSTED = ["Twisted raw-mode plumbing (HTTPChannel.dataReceived -> handler) is not modelled: the harness calls "
           "WebSocketTemporaryHandler.__call__ with each TCP read",
           "an exception escaping __call__ is taken to end the connection (runs stop at the first exception)"]

OPS = [1, 2, 8, 9, 10]          # Text Binary Close Ping Pong
OPEN = 0xFF


class Sock:
    def __init__(self):
        self.out = []

    def sendall(self, d):
        self.out.append(bytes(d))


def mk_frame(fin, r1, r2, r3, op, mask, key, plen, payload):
    from mpgameserver.http_server import WebSocketFrame, WebSocketOpCode
    f = WebSocketFrame()
    f.flags.fin, f.flags.rsv1, f.flags.rsv2, f.flags.rsv3 = fin, r1, r2, r3
    f.flags.opcode = WebSocketOpCode(op)
    f.flags.mask = mask
    f.masking_key = key
    f.payload_length = plen
    f.payload = payload
    return f


def impl_encode(a):
    from mpgameserver.http_server import writeFrameFactory
    s = Sock()

    def go():
        writeFrameFactory(s)(mk_frame(*a))
        return b"".join(s.out)
    return lib.guarded(go)


def frame_obs(f):
    return [f.flags.fin, f.flags.rsv1, f.flags.rsv2, f.flags.rsv3, f.flags.opcode.value, f.flags.mask,
            bytes(f.masking_key), f.payload_length, bytes(f.payload)]


def impl_parse(buf):
    from mpgameserver.http_server import readFrameFactory, WebSocketTemporaryRingBuffer
    rb = WebSocketTemporaryRingBuffer(None)
    rb._push(buf)
    r = lib.guarded(lambda: frame_obs(readFrameFactory(rb)()))
    return [r, bytes(rb.buf)]


class Req:
    def __init__(self):
        self.out = []
        self.chunked = 1

    def write(self, d):
        self.out.append(bytes(d))


class Endpt:
    def __init__(self):
        self.log = []

    def callback(self, ws, opcode, payload):
        self.log.append([opcode.value, payload.encode("utf-8") if isinstance(payload, str) else bytes(payload)])


def impl_feed(closed, chunks):
    from mpgameserver.http_server import WebSocketTemporaryHandler, WebSocketTemporaryRingBuffer
    req, ep = Req(), Endpt()
    h = WebSocketTemporaryHandler(("h", 1), {}, {}, WebSocketTemporaryRingBuffer(req), ep)
    h.closed = bool(closed)
    e = 0
    for c in chunks:
        try:
            h(c)
        except Exception as ex:      # noqa
            e = lib.exc_code(ex)
            break
    return [ep.log, b"".join(req.out), e, bytes(h._buffer.buf), bool(h.closed)]


def impl_available(buf):
    from mpgameserver.http_server import WebSocketTemporaryHandler, WebSocketTemporaryRingBuffer
    h = WebSocketTemporaryHandler(("h", 1), {}, {}, WebSocketTemporaryRingBuffer(Req()), Endpt())
    if not hasattr(h, "_frameAvailable"):
        return None
    h._buffer._push(buf)
    return lib.guarded(lambda: bool(h._frameAvailable()))


def impl_feed_prompt(chunks):
    """number of frames delivered after each read (oracle only)"""
    from mpgameserver.http_server import WebSocketTemporaryHandler, WebSocketTemporaryRingBuffer
    ep = Endpt()
    h = WebSocketTemporaryHandler(("h", 1), {}, {}, WebSocketTemporaryRingBuffer(Req()), ep)
    out = []
    for c in chunks:
        try:
            h(c)
        except Exception:      # noqa  (the final-state oracle reports the exception)
            out.append(-1)
            break
        out.append(len(ep.log))
    return out


def utf8_ok(b):
    try:
        b.decode("utf-8")
        return True
    except UnicodeDecodeError:
        return False


def rfc_encode(fin, r1, r2, r3, op, mask, key, payload):
    """RFC 6455 section 5.2, written independently of the code and of the Coq text"""
    n = len(payload)
    out = bytearray([(fin << 7) | (r1 << 6) | (r2 << 5) | (r3 << 4) | op])
    m = 0x80 if mask else 0
    if n <= 125:
        out.append(m | n)
    elif n < (1 << 16):
        out.append(m | 126)
        out += struct.pack(">H", n)
    else:
        out.append(m | 127)
        out += struct.pack(">Q", n)
    if mask:
        out += key
        out += bytes(payload[i] ^ key[i & 3] for i in range(n))
    else:
        out += payload
    return bytes(out)


def rnd_bytes(r, n):
    return bytes(r.getrandbits(8) for _ in range(n)) if n < 64 else r.getrandbits(8 * n).to_bytes(n, "big")


def rnd_text(r, n):
    s = "".join(r.choice(["a", "z", "é", "中", "\U0001f600", " ", "\x00", "\x7f", "߿", "ࠀ", "￿"]) for _ in range(n))
    return s.encode("utf-8")


def boundary_lengths(run):
    L = set(range(0, 301))
    for c in (125, 126, 127, 128, 255, 256, 65535, 65536, 70000):
        L.update(range(max(0, c - 3), c + 4))
    if run.thorough():
        L.update(range(0, 2101))
        L.update(range(65000, 66101))
        L.update(range(0, 70001, 37))
    else:
        L.update(run.rng.randrange(300, 70001) for _ in range(12))
    return sorted(L)


def payload_for(r, op, n):
    if op == 1:
        b = rnd_text(r, n // 2 + 1)
        while len(b) > n or not utf8_ok(b[:n]):
            b = b[:-1] if len(b) > n else b"a" * n
        return b + b"a" * (n - len(b))
    return rnd_bytes(r, n)


def client_frames(r, k, maxlen=40):
    """k well-formed masked client frames: (args tuple for mk_frame)"""
    out = []
    for _ in range(k):
        op = r.choice(OPS)
        n = r.choice([0, 1, 2, 3, 5, r.randrange(0, maxlen)])
        out.append((1, 0, 0, 0, op, 1, rnd_bytes(r, 4), n, payload_for(r, op, n)))
    return out


# ------------------------------------------------------------------ public constructors and the send path
KINDS = ["Ping", "Pong", "Binary", "Close", "Text"]
KIND_OP = [9, 10, 2, 8, 1]


def rfc_parse_all(b):
    """independent RFC 6455 section 5.2 reader of a whole byte stream: [(fin, rsv, opcode, mask, payload)];
    ValueError when the stream does not end at a frame boundary"""
    out, i = [], 0
    while i < len(b):
        if len(b) - i < 2:
            raise ValueError("truncated header")
        b0, b1 = b[i], b[i + 1]
        i += 2
        n = b1 & 0x7F
        if n == 126:
            if len(b) - i < 2:
                raise ValueError("truncated length")
            n = (b[i] << 8) | b[i + 1]
            i += 2
        elif n == 127:
            if len(b) - i < 8:
                raise ValueError("truncated length")
            n = int.from_bytes(b[i:i + 8], "big")
            i += 8
        key = None
        if b1 & 0x80:
            key = b[i:i + 4]
            i += 4
        if len(b) - i < n:
            raise ValueError("truncated payload")
        pay = b[i:i + n]
        i += n
        if key is not None:
            pay = bytes(x ^ key[j & 3] for j, x in enumerate(pay))
        out.append((b0 >> 7, (b0 >> 4) & 7, b0 & 15, b1 >> 7, bytes(pay)))
    return out


def build_factory(kind, args):
    from mpgameserver.http_server import WebSocketFrame
    return getattr(WebSocketFrame, KINDS[kind])(*args)


def write_frame(f):
    from mpgameserver.http_server import writeFrameFactory
    s = Sock()
    writeFrameFactory(s)(f)
    return b"".join(s.out)


def factory_expect(kind, args):
    """(opcode, payload bytes) the constructor call stands for, from the RFC / the documentation alone"""
    if kind == 4:
        return 1, args[0].encode("utf-8")
    if kind == 3:
        a = list(args) + [200, b"OK"][len(args):]        # documented signature Close(status=200, message=b'OK')
        return 8, struct.pack(">H", a[0]) + bytes(a[1])
    return KIND_OP[kind], bytes(args[0])


def text_samples(run):
    """str arguments for Text / send: every payload kind x the length boundaries in BYTES and in CHARACTERS"""
    r = run.rng
    big = run.thorough()
    out = ["", "a", "hello", "\x00", "a\x00b", "\x7f", "héllo", "spécial €5", "中文", "\U0001f600"]
    for n in (2, 124, 125, 126, 127, 128, 255, 256, 65534, 65535, 65536, 65537, 70000):
        out.append("a" * n)
    chars = ["é", "߿", "ࠀ", "€", "￿", "\U00010000", "\U0001f600", "\U0010ffff", "\x80"]
    for ci, ch in enumerate(chars):
        w = len(ch.encode("utf-8"))
        # boundaries counted in characters
        for n in (1, 31, 32, 41, 42, 43, 62, 63, 64, 124, 125, 126, 127, 128):
            out.append(ch * n)
        for n in ((16383, 16384, 21845, 21846, 32767, 32768, 65535, 65536) if (big or ci in (0, 3, 6)) else ()):
            out.append(ch * n)
        # boundaries counted in bytes: exactly B bytes, padded with ASCII in front or behind
        for B in (125, 126, 127, 65535, 65536):
            k = B // w
            if B > 1000 and not (big or ci in (0, 3, 6)):
                continue
            out.append(ch * k + "a" * (B - k * w))
            out.append("a" * (B - k * w) + ch * k)
            out.append(ch * (k - 1) + "a" * (B - (k - 1) * w))
    alpha = ["a", "z", " ", "\x00", "\x7f", "\x80", "é", "߿", "ࠀ", "中", "€", "￿", "\U00010000", "\U0001f600"]
    for _ in range(400 if big else 60):
        n = r.choice([r.randrange(0, 12), r.randrange(30, 70), r.randrange(100, 140), r.randrange(100, 140)])
        out.append("".join(r.choice(alpha) for _ in range(n)))
    for _ in range(20 if big else 3):
        n = r.choice([r.randrange(16000, 17000), r.randrange(21000, 23000), r.randrange(32000, 33500), r.randrange(65000, 66000)])
        out.append("".join(r.choice(alpha) for _ in range(n)))
    return list(dict.fromkeys(out))


def factory_cases(run):
    """[(kind, args)] : every public constructor x payload kinds x boundary lengths, plus the default arguments"""
    r = run.rng
    cases = [(k, ()) for k in range(5)]
    for s in text_samples(run):
        cases.append((4, (s,)))
    blens = [0, 1, 2, 5, 124, 125, 126, 127, 128, 255, 256, 65534, 65535, 65536, 65537, 70000]
    blens += [r.randrange(0, 300) for _ in range(10)] + [r.randrange(300, 70000) for _ in range(4)]
    for n in blens:
        for k in (0, 1, 2):
            if n > 1000 and k != 2 and n not in (65535, 65536):
                continue
            b = rnd_bytes(r, n)
            cases.append((k, (b,)))
            if n in (0, 5, 125, 126, 65535, 65536):
                cases.append((k, (bytearray(b),)))
    for status in (0, 1, 200, 255, 256, 1000, 1001, 1011, 4999, 65535):
        for n in (0, 1, 2, 122, 123, 124, 125, 126):
            cases.append((3, (status, rnd_bytes(r, n))))
    for n in (65532, 65533, 65534, 65535):
        cases.append((3, (1000, rnd_bytes(r, n))))
    cases.append((3, (1000,)))
    return cases


def surrogate_free(s):
    return not any(0xD800 <= ord(c) <= 0xDFFF for c in s)


def factory_margs(kind, args):
    """the same call for unit ws_factory (defaults filled in from the documentation of the constructors)"""
    if kind == 4:
        return [4, [[ord(c) for c in (args[0] if args else "")]]]
    if kind == 3:
        a = list(args) + [200, b"OK"][len(args):]
        return [3, [a[0], bytes(a[1])]]
    return [kind, [bytes(args[0]) if args else (b"hello" if kind < 2 else b"")]]


def impl_out(closed, ops, echo=None):
    """one handler, a history of send(x) / close() calls: [bytes written, closed, error code or 0]"""
    from mpgameserver.http_server import WebSocketTemporaryHandler, WebSocketTemporaryRingBuffer
    req = Req()
    h = WebSocketTemporaryHandler(("h", 1), {}, {}, WebSocketTemporaryRingBuffer(req), Endpt())
    h.closed = bool(closed)
    e = 0
    for op in ops:
        try:
            if op[0] == 0:
                h.send(op[1])
            else:
                h.close()
        except Exception as ex:      # noqa
            e = lib.exc_code(ex)
            break
    return [b"".join(req.out), bool(h.closed), e]


class EchoEndpt:
    """an endpoint that answers every Text message from inside its callback"""
    def __init__(self):
        self.log = []

    def callback(self, ws, opcode, payload):
        self.log.append([opcode.value, payload])
        if opcode.value == 1:
            ws.send(payload)
            ws.send(payload.upper())


def constructors_and_send(run, viol):
    M, r = run.model, run.rng

    def form(n):
        return "7bit" if n <= 125 else ("16bit" if n <= 65535 else "64bit")

    # ---- the constructors: all frames are built first and written afterwards
    cases = factory_cases(run)
    run.count("constructor_calls", len(cases))
    built = [lib.guarded(build_factory, k, a) for k, a in cases]
    # the model sees every small call; of the long Text arguments (0.2-0.9 s each in the extracted model) the quick tier
    # sends the three 65535/65536-byte ones below and a sample, the thorough tier all (the oracle below judges ALL)
    large = [i for i, (k, a) in enumerate(cases) if k == 4 and a and len(a[0]) > 2000]
    if not run.thorough():
        fixed = [i for i in large if cases[i][1][0] in ("a" * 65536, "é" * 32768, "€" * 21845)]
        drop = set(large) - set(fixed) - set(r.sample(large, min(len(large), 9)))
    else:
        drop = set()
    sel = [i for i in range(len(cases)) if i not in drop]
    impl, margs = [], []
    for i in sel:
        (k, a), b = cases[i], built[i]
        impl.append(lib.guarded(lambda f=b[1]: [frame_obs(f), lib.guarded(write_frame, f)]) if b[0] == 0 else b)
        margs.append(factory_margs(k, a))
    mod = []
    for i in range(0, len(margs), 40):
        mod += M.call_many("ws_factory", margs[i:i + 40])
    run.count("constructor_calls_through_model", len(sel))

    def desc(c):
        k, a = c
        d = {"constructor": KINDS[k], "default_arguments": not a}
        if a and k == 4:
            d.update(chars=len(a[0]), bytes=len(a[0].encode("utf-8", "surrogatepass")), text_prefix=a[0][:8])
        elif a:
            d.update(bytes=len(a[-1]) if k != 3 or len(a) > 1 else 0, status=a[0] if k == 3 else None)
        return d
    run.compare("ws_factory", [cases[i] for i in sel], impl, mod, describe=desc)
    from mpgameserver.http_server import WebSocketFrame
    dflt = [frame_obs(getattr(WebSocketFrame, n)()) for n in KINDS]
    mdf = M.call("ws_defaults", [])
    run.compare("ws_defaults", [("Ping", "Pong", "Close", "Text", "Binary")],
                [[dflt[0], dflt[1], dflt[3], lib.ok(dflt[4]), dflt[2]]], [mdf])

    for (k, a), b in zip(cases, built):
        if not a or (k == 4 and not surrogate_free(a[0])):
            continue
        run.evaluations += 1
        op, pay = factory_expect(k, a)
        d = dict(desc((k, a)), opcode=op, bytes=len(pay))
        key = (KINDS[k], form(len(pay)), k == 4 and len(a[0]) != len(pay))
        if len(pay) > 125 or key[2]:
            run.nt(("factory", k, len(pay), len(a[0]) if k == 4 else -1))
        if b[0] != 0:
            viol("constructor-raises", key, dict(d, error=b[1]), "WebSocketFrame." + KINDS[k])
            continue
        f = b[1]
        obs = frame_obs(f)
        if obs[:6] != [1, 0, 0, 0, op, 0] or obs[8] != pay or obs[7] != len(pay):
            viol("constructor-frame-wrong", key,
                 dict(d, payload_length_field=obs[7], payload_bytes=len(obs[8]), flags=obs[:6], payload_ok=obs[8] == pay),
                 "WebSocketFrame." + KINDS[k])
        want = rfc_encode(1, 0, 0, 0, op, 0, b"", pay)
        w1 = lib.guarded(write_frame, f)
        w2 = lib.guarded(write_frame, f)
        if w1 != [0, want] or w2 != w1:
            viol("constructor-frame-not-rfc6455", key,
                 dict(d, got_prefix=lib.jsonable(w1[1][:12]) if w1[0] == 0 else w1, want_prefix=lib.jsonable(want[:12]),
                      got_len=len(w1[1]) if w1[0] == 0 else None, want_len=len(want), second_write_same=w2 == w1),
                 "WebSocketFrame." + KINDS[k] + " + writeFrame")
            continue
        p = impl_parse(want + b"tail")
        if not (p[0][0] == 0 and p[1] == b"tail" and p[0][1][:6] == [1, 0, 0, 0, op, 0] and p[0][1][7:] == [len(pay), pay]):
            viol("constructor-frame-does-not-round-trip", key, d, "WebSocketFrame." + KINDS[k] + " + readFrame")
    k0 = next(i for i, (k, a) in enumerate(cases) if k == 4 and a and a[0] == "€" * 42)
    k0 = sel.index(k0)
    run.sample({"unit": "ws_factory", "call": "Text('€' * 42)", "impl": lib.jsonable(impl[k0][1][1][1][:8]) if impl[k0][0] == 0 else impl[k0]})

    # ---- handler.send / handler.close histories on ONE handler
    texts = text_samples(run)
    small = [s for s in texts if len(s) < 200]
    odd = [b"bytes", None, 5, bytearray(b"x"), ["a"]]
    hist = [(0, [[0, s]]) for s in texts if len(s) < 70 or len(s.encode("utf-8", "surrogatepass")) in (125, 126, 127, 65535, 65536)]
    hist.append((0, [[0, "spécial €5"], [0, "second"]]))
    hist.append((0, [[0, "€" * 42], [0, "x"], [1], [0, "after close é"], [1]]))
    hist.append((1, [[1], [0, "é"]]))
    for _ in range(600 if run.thorough() else 120):
        ops = []
        for _ in range(r.randrange(1, 8)):
            c = r.random()
            if c < 0.8:
                ops.append([0, r.choice(small) if r.random() < 0.9 else r.choice(texts)])
            elif c < 0.92:
                ops.append([1])
            elif c < 0.96:
                ops.append([0, r.choice(["\ud800", "ok\udfff", "\udc80x"])])
            else:
                ops.append([0, r.choice(odd)])
        hist.append((r.choice([0, 0, 0, 1]), ops))
    run.count("send_histories", len(hist))
    hres = [impl_out(c, ops) for c, ops in hist]
    typed = [i for i, (c, ops) in enumerate(hist) if all(op[0] == 1 or isinstance(op[1], str) for op in ops)]
    if not run.thorough():      # long texts: a sample through the model (the oracle below judges all histories)
        lg = [i for i in typed if any(op[0] == 0 and len(op[1]) > 2000 for op in hist[i][1])]
        keep = set(r.sample(lg, min(len(lg), 6)))
        typed = [i for i in typed if i not in lg or i in keep]
    hmod = []
    for i in range(0, len(typed), 60):
        hmod += M.call_many("ws_out", [[hist[j][0], [[0, [ord(ch) for ch in op[1]]] if op[0] == 0 else [1] for op in hist[j][1]]]
                                       for j in typed[i:i + 60]])
    run.compare("ws_out", [(hist[j][0], [len(op[1]) if op[0] == 0 else "close" for op in hist[j][1]]) for j in typed],
                [hres[j] for j in typed], [[m[0], bool(m[1]), m[2]] for m in hmod], describe=lambda c: lib.jsonable(c))
    for (c0, ops), (written, closed, e) in zip(hist, hres):
        run.evaluations += 1
        # what a client must see: the Text messages sent so far, in order, each one final unmasked frame; a Close
        # frame where close() was first called on a handler not yet closed; nothing else, no stray bytes
        want, cl, stop = [], bool(c0), None
        for op in ops:
            if op[0] == 1:
                if not cl:
                    want.append((8, None))
                cl = True
            elif not isinstance(op[1], str):
                stop = "TypeError"
                break
            elif not surrogate_free(op[1]):
                stop = "UnicodeError"
                break
            else:
                want.append((1, op[1].encode("utf-8")))
        d = {"closed_before": bool(c0),
             "calls": [("send", len(op[1]), len(op[1].encode("utf-8", "surrogatepass"))) if op[0] == 0 and isinstance(op[1], str)
                       else ("send", repr(op[1])) if op[0] == 0 else ("close",) for op in ops]}
        multi = any(op[0] == 0 and isinstance(op[1], str) and len(op[1]) != len(op[1].encode("utf-8", "surrogatepass")) for op in ops)
        key = (multi, len(ops) > 1)
        if multi:
            run.nt(("send", repr(ops)))
        if (stop is None) != (e == 0) or (stop == "TypeError" and e != lib.ERR["TypeError"]):
            viol("send-wrong-exception", key, dict(d, exception=e, expected=stop), "WebSocketTemporaryHandler.send")
            continue
        try:
            got = rfc_parse_all(written)
        except ValueError as ex:
            viol("server-stream-misframed", key, dict(d, reader=str(ex), written_len=len(written),
                                                      written_prefix=lib.jsonable(written[:12])), "WebSocketTemporaryHandler.send")
            continue
        ok_ = len(got) == len(want) and all(g[:4] == (1, 0, w[0], 0) and (w[1] is None or g[4] == w[1])
                                            for g, w in zip(got, want))
        if not ok_:
            viol("server-stream-misframed", key,
                 dict(d, client_sees=[[g[2], len(g[4]), g[0], g[3]] for g in got[:8]],
                      expected=[[w[0], None if w[1] is None else len(w[1])] for w in want[:8]],
                      written_prefix=lib.jsonable(written[:12])), "WebSocketTemporaryHandler.send")

    # ---- send() issued from inside the endpoint callback while a chunked client stream is being parsed
    from mpgameserver.http_server import WebSocketTemporaryHandler, WebSocketTemporaryRingBuffer
    for _ in range(200 if run.thorough() else 40):
        msgs = [r.choice(small) for _ in range(r.randrange(1, 5))]
        msgs = [m for m in msgs if surrogate_free(m)]
        fr = []
        for m in msgs:
            fr.append((1, 0, 0, 0, 1, 1, rnd_bytes(r, 4), 0, m.encode("utf-8")))
            if r.random() < 0.3:
                fr.append((1, 0, 0, 0, 2, 1, rnd_bytes(r, 4), 0, rnd_bytes(r, r.randrange(0, 9))))
        stream = b"".join(rfc_encode(*f[:7], f[8]) for f in fr)
        pts = sorted(r.randrange(0, len(stream) + 1) for _ in range(r.randrange(0, 5)))
        chunks = [stream[a:b] for a, b in zip([0] + pts, pts + [len(stream)])]
        req, ep = Req(), EchoEndpt()
        h = WebSocketTemporaryHandler(("h", 1), {}, {}, WebSocketTemporaryRingBuffer(req), ep)
        err = 0
        try:
            for c in chunks:
                h(c)
        except Exception as ex:      # noqa
            err = lib.exc_code(ex)
        run.evaluations += 1
        written = b"".join(req.out)
        want = [x for m in msgs for x in (m.encode("utf-8"), m.upper().encode("utf-8"))]
        d = {"messages": [(len(m), len(m.encode("utf-8"))) for m in msgs], "chunk_sizes": [len(c) for c in chunks]}
        try:
            got = rfc_parse_all(written)
        except ValueError as ex:
            got = str(ex)
        if err or got != [(1, 0, 1, 0, w) for w in want] or [x[1] for x in ep.log if x[0] == 1] != msgs:
            viol("echo-from-callback-misframed", (True, len(msgs) > 1),
                 dict(d, exception=err, client_sees=got if isinstance(got, str) else [[g[2], len(g[4])] for g in got[:8]],
                      expected=[[1, len(w)] for w in want[:8]]), "WebSocketTemporaryHandler.send inside callback")
        run.nt(("echo", repr(msgs), tuple(len(c) for c in chunks)))
    # ---- several connections alive in one process, their reads interleaved: each endpoint gets exactly its own frames
    for _ in range(150 if run.thorough() else 30):
        k = r.choice([2, 2, 3])
        conns = []
        for _ in range(k):
            fr = client_frames(r, r.randrange(1, 6), maxlen=r.choice([10, 140]))
            stream = b"".join(rfc_encode(*f[:7], f[8]) for f in fr)
            pts = sorted(r.randrange(0, len(stream) + 1) for _ in range(r.randrange(0, 6)))
            chunks = [stream[a:b] for a, b in zip([0] + pts, pts + [len(stream)])]
            req, ep = Req(), Endpt()
            conns.append([fr, chunks, 0, WebSocketTemporaryHandler(("h", 1), {}, {}, WebSocketTemporaryRingBuffer(req), ep), ep, req, 0])
        order = [i for i, c in enumerate(conns) for _ in c[1]]
        r.shuffle(order)
        for i in order:
            c = conns[i]
            try:
                c[3](c[1][c[2]])
            except Exception as ex:      # noqa
                c[6] = lib.exc_code(ex)
            c[2] += 1
        for i, c in enumerate(conns):
            run.evaluations += 1
            want = [[f[4], f[8]] for f in c[0]]
            nclose = 1 if any(f[4] == 8 for f in c[0]) else 0
            try:
                wr = rfc_parse_all(b"".join(c[5].out))
            except ValueError:
                wr = None
            if c[4].log != want or c[6] or bytes(c[3]._buffer.buf) != b"" or wr is None or [g[2] for g in wr] != [8] * nclose:
                viol("stream-not-delivered-exactly-once-in-order", ("interleaved", k),
                     {"connections_alive": k, "connection": i, "frames": [[f[4], len(f[8])] for f in c[0]],
                      "chunk_sizes": [len(x) for x in c[1]], "delivered": [[d[0], len(d[1])] for d in c[4].log], "exception": c[6],
                      "left_in_buffer": len(c[3]._buffer.buf), "interleaving": order[:30],
                      "server_wrote": None if wr is None else [[g[2], len(g[4])] for g in wr]},
                     "WebSocketTemporaryHandler.__call__ (several connections in one process)")
        run.nt(("interleaved", tuple(order)))
    run.exhaustive.append("constructors: Ping/Pong/Binary/Close/Text x every boundary 125/126/127/65535/65536 counted in bytes and "
                          "(Text) counted in characters of 1-, 2-, 3- and 4-byte code points")



def generated_kernels(run):
    """units gen_ws_header / gen_ws_data_header / gen_ws_parse_header: the definitions REGENERATED from
    http_server.py by tools/py2v_bytes.py against WebSocketFrame.serializeHeader / serializeDataHeader / parseHeader"""
    from mpgameserver.http_server import WebSocketFrame, WebSocketOpCode
    M, r = run.model, run.rng
    odd = [0, 1, 1, 1, 0, 0, 2, 3, -1, 255, 256, 1 << 40]
    lens = [0, 1, 124, 125, 126, 127, 128, 255, 256, 65534, 65535, 65536, 65537, 2 ** 32, 2 ** 63 - 1, 2 ** 63, 2 ** 64 - 1,
            2 ** 64, -1, -126]
    hc = []
    for op in OPS + [OPEN]:
        for mask in (0, 1):
            for n in lens:
                hc.append([r.choice([0, 1]), r.choice([0, 1]), r.choice([0, 1]), r.choice([0, 1]), op, mask, n])
    for _ in range(3000 if run.thorough() else 600):
        hc.append([r.choice(odd), r.choice(odd), r.choice(odd), r.choice(odd), r.choice(OPS + [OPEN]), r.choice(odd),
                   r.choice(lens + [r.randrange(0, 70000), r.randrange(0, 2 ** 66)])])

    def frame(c):
        f = WebSocketFrame()
        f.flags.fin, f.flags.rsv1, f.flags.rsv2, f.flags.rsv3 = c[0], c[1], c[2], c[3]
        f.flags.opcode = WebSocketOpCode(c[4])
        f.flags.mask, f.payload_length = c[5], c[6]
        return f
    run.compare("gen_ws_header", hc, [lib.guarded(lambda: bytes(frame(c).serializeHeader())) for c in hc],
                M.call_many("gen_ws_header", hc))
    dc = []
    for mask in (0, 1, 2, -1):
        for n in lens + [r.randrange(0, 70000) for _ in range(20)]:
            dc.append([mask, n, rnd_bytes(r, r.choice([4, 4, 4, 0, 1, 5]))])

    def dh(c):
        f = WebSocketFrame()
        f.flags.mask, f.payload_length, f.masking_key = c[0], c[1], c[2]
        return bytes(f.serializeDataHeader())
    run.compare("gen_ws_data_header", dc, [lib.guarded(lambda: dh(c)) for c in dc], M.call_many("gen_ws_data_header", dc))
    pc = [[a, b] for a in range(256) for b in range(256)]
    pm = M.call_many("gen_ws_parse_header", pc)
    valid = {o for o in OPS + [OPEN]}
    pi, pcmp, pcase = [], [], []
    refused = 0
    for c, m in zip(pc, pm):
        f = WebSocketFrame()
        try:
            f.parseHeader(bytes(c))
            got = [f.flags.fin, f.flags.rsv1, f.flags.rsv2, f.flags.rsv3, f.flags.opcode.value, f.flags.mask, f.flags.length]
        except ValueError:
            got = None
        if got is None:
            # WebSocketOpCode(n) refused n: the kernel leaves the enum conversion to the caller
            refused += 1
            if m[4] in valid:
                run.oracle_violation("parseHeader-refuses-valid-opcode", {"header": c}, "WebSocketFrame.parseHeader")
            continue
        pcase.append(c); pi.append(got); pcmp.append(m)
    run.compare("gen_ws_parse_header", pcase, pi, pcmp)
    run.count("gen_ws_parse_header_invalid_opcode", refused)
    run.exhaustive.append("parseHeader: all 65536 two-byte headers against the regenerated kernel")


def run(run):
    M = run.model
    r = run.rng

    # ------------------------------------------------ ws_utf8 / ws_available
    ucases = [bytes([a]) for a in range(256)] + [bytes([a, b]) for a in range(256) for b in range(256)]
    for lead in (0xE0, 0xE1, 0xEC, 0xED, 0xEE, 0xEF, 0xF0, 0xF1, 0xF3, 0xF4, 0xF5, 0xC0, 0xC1, 0xC2, 0xDF):
        for c1 in (0x7F, 0x80, 0x8F, 0x90, 0x9F, 0xA0, 0xBF, 0xC0):
            for c2 in (0x7F, 0x80, 0xBF, 0xC0):
                ucases.append(bytes([lead, c1, c2]))
                for c3 in (0x7F, 0x80, 0xBF, 0xC0):
                    ucases.append(bytes([lead, c1, c2, c3]))
                    ucases.append(b"a" + bytes([lead, c1, c2, c3]) + b"\xc3\xa9")
    for _ in range(20000 if run.thorough() else 3000):
        ucases.append(rnd_text(r, r.randrange(0, 6)) + rnd_bytes(r, r.randrange(0, 4)) + rnd_text(r, r.randrange(0, 3)))
    run.compare("ws_utf8", ucases, [utf8_ok(b) for b in ucases], [bool(x) for x in M.call_many("ws_utf8", [[b] for b in ucases])])
    run.exhaustive.append("utf-8 validity: all 1- and 2-byte strings")

    # ------------------------------------------------ ws_encode + ws_rfc + round trip oracle
    lengths = boundary_lengths(run)
    ecases = []
    for n in lengths:
        small = n <= 130 or n in (65535, 65536)
        combos = [(op, mask) for op in OPS for mask in (0, 1)] if small else [(r.choice(OPS), r.choice([0, 1]))]
        for op, mask in combos:
            fin, r1, r2, r3 = (r.choice([0, 1]) for _ in range(4))
            key = rnd_bytes(r, 4) if mask else b"\x00\x00\x00\x00"
            ecases.append((fin, r1, r2, r3, op, mask, key, n, payload_for(r, op, n)))
    run.count("wellformed_frames", len(ecases))
    wf = len(ecases)
    # malformed: Open pseudo-opcode, odd flag ints, short/long keys, inconsistent / out-of-range payload_length
    for _ in range(600 if run.thorough() else 150):
        n = r.choice([0, 1, 3, 4, 5, 9, 130])
        ecases.append((r.choice([0, 1, 2, -1]), r.choice([0, 1, 3]), r.choice([0, 1]), r.choice([0, 1, 16]),
                       r.choice(OPS + [OPEN]), r.choice([0, 1, 1, 2]), rnd_bytes(r, r.choice([0, 1, 2, 3, 4, 4, 5, 6])),
                       r.choice([n, n, n + 1, 125, 126, 65535, 65536, 2 ** 63, 2 ** 64 - 1, 2 ** 64, -1]), rnd_bytes(r, n)))
    impl_e = [impl_encode(c) for c in ecases]
    mod_e = []
    for i in range(0, len(ecases), 400):
        mod_e += M.call_many("ws_encode", [list(c) for c in ecases[i:i + 400]])
    run.compare("ws_encode", [c[:8] + (len(c[8]),) for c in ecases], impl_e, mod_e)
    # spec-side RFC encoder of the theorems vs the independent Python one (well-formed frames only)
    mod_r = []
    for i in range(0, wf, 400):
        mod_r += M.call_many("ws_rfc", [list(c) for c in ecases[i:i + 400]])
    run.compare("ws_rfc", [c[:8] for c in ecases[:wf]], [rfc_encode(*c[:7], c[8]) for c in ecases[:wf]], mod_r)

    seen = {}

    def viol(what, key, case, site):
        seen[(what, key)] = seen.get((what, key), 0) + 1
        if seen[(what, key)] <= 2:
            run.oracle_violation(what, case, site)

    def form(n):
        return "7bit" if n <= 125 else ("16bit" if n <= 65535 else "64bit")

    for c, e in zip(ecases[:wf], impl_e[:wf]):
        run.evaluations += 1
        n = c[7]
        if n > 125:
            run.nt(("enc", n, c[4], c[5]))
        want = rfc_encode(*c[:7], c[8])
        if e[0] != 0 or e[1] != want:
            viol("encoding-not-rfc6455", (c[5], form(n), n == 65535),
                 {"opcode": c[4], "mask": c[5], "length": n, "fin": c[0],
                  "got_prefix": lib.jsonable(e[1][:16]) if e[0] == 0 else e,
                  "want_prefix": lib.jsonable(want[:16])}, "WebSocketFrame.write*")
            continue
        p = impl_parse(e[1] + b"tail")
        good = p[0][0] == 0 and p[1] == b"tail" and p[0][1] == [c[0], c[1], c[2], c[3], c[4], c[5], c[6], n, c[8]]
        if not good:
            viol("frame-does-not-round-trip", (c[5], form(n), n == 127),
                 {"opcode": c[4], "mask": c[5], "length": n,
                  "parsed": lib.jsonable(p[0])[:2] if p[0][0] else
                  {"payload_length": p[0][1][7], "rest_len": len(p[1])}}, "WebSocketFrame.read*")
    run.sample({"unit": "ws_encode", "case": lib.jsonable(ecases[130][:8]), "impl": lib.jsonable(impl_e[130])})

    # thorough: every length 0..70000 through the implementation (mask 0: all; mask 1: the model's length set)
    if run.thorough():
        from mpgameserver.http_server import WebSocketOpCode
        blob = rnd_bytes(r, 70000)
        for n in range(0, 70001):
            pay = blob[:n]
            e = impl_encode((1, 0, 0, 0, 2, 0, b"\x00" * 4, n, pay))
            run.evaluations += 1
            ok_ = e[0] == 0 and e[1] == rfc_encode(1, 0, 0, 0, 2, 0, b"", pay)
            if ok_:
                p = impl_parse(e[1])
                ok_ = p[0][0] == 0 and p[0][1][7] == n and p[0][1][8] == pay and p[1] == b""
            if not ok_:
                run.oracle_violation("frame-does-not-round-trip", {"opcode": 2, "mask": 0, "length": n}, "WebSocketFrame")
                break
        run.exhaustive.append("implementation round trip + RFC form: every payload length 0..70000 (Binary, unmasked)")

    # ------------------------------------------------ ws_parse
    pcases = []
    for c, e in zip(ecases[:wf], impl_e[:wf]):
        want = rfc_encode(*c[:7], c[8])
        if c[7] <= 300 or c[7] in (65535, 65536):
            pcases.append(want + rnd_bytes(r, r.choice([0, 0, 1, 5])))
        if c[7] <= 12:
            for k in range(len(want)):
                pcases.append(want[:k])
    for n in (126, 127, 200, 65535, 65536):
        w = rfc_encode(1, 0, 0, 0, 2, 1, b"abcd", bytes(n))
        pcases += [w[:k] for k in range(0, 16)] + [w[:-1]]
    for _ in range(6000 if run.thorough() else 1500):
        b = bytearray(rnd_bytes(r, r.randrange(0, 24)))
        if b and r.random() < 0.7:
            b[0] = (b[0] & 0xF0) | r.choice([1, 2, 8, 9, 10, 0, 3, 15])
        if len(b) > 1 and r.random() < 0.7:
            b[1] = r.choice([0, 1, 5, 125, 126, 127, 128, 129, 133, 253, 254, 255])
        if len(b) > 3 and r.random() < 0.5:
            b[2] = 0
            b[3] = r.choice([0, 1, 2, 9])
        pcases.append(bytes(b))
    impl_p = [impl_parse(b) for b in pcases]
    mod_p = []
    for i in range(0, len(pcases), 500):
        mod_p += M.call_many("ws_parse", [[b] for b in pcases[i:i + 500]])
    run.compare("ws_parse", [b[:24] for b in pcases], impl_p, mod_p)
    av = [impl_available(b) for b in pcases]
    if av and av[0] is not None:
        run.compare("ws_available", [b[:24] for b in pcases], av,
                    [lib.ok(bool(x)) for x in M.call_many("ws_available", [[b] for b in pcases])])
    else:
        run.notes.append("WebSocketTemporaryHandler has no _frameAvailable (unrepaired tree): unit ws_available skipped")

    # ------------------------------------------------ ws_feed: chunked streams
    fcases = []      # (closed, chunks, frames or None)

    def cuts(stream, pts):
        pts = [0] + sorted(pts) + [len(stream)]
        return [stream[a:b] for a, b in zip(pts, pts[1:])]

    nseq = 60 if run.thorough() else 14
    for _ in range(nseq):
        fr = client_frames(r, r.choice([1, 2, 2, 3]), maxlen=6)
        stream = b"".join(rfc_encode(*f[:7], f[8]) for f in fr)
        if len(stream) > (40 if run.thorough() else 30):
            continue
        fcases.append((0, [stream], fr))
        for i in range(0, len(stream) + 1):
            fcases.append((0, cuts(stream, [i]), fr))
            for j in range(i, len(stream) + 1):
                fcases.append((0, cuts(stream, [i, j]), fr))
    run.exhaustive.append("streams: every 2-cut and 3-cut chunking of %d short frame sequences" % nseq)
    for _ in range(1500 if run.thorough() else 250):
        fr = client_frames(r, r.randrange(1, 9), maxlen=r.choice([10, 140, 300]))
        if r.random() < 0.15:
            n = r.choice([65535, 65536, 66000])
            fr.insert(r.randrange(len(fr) + 1), (1, 0, 0, 0, 2, 1, rnd_bytes(r, 4), n, rnd_bytes(r, n)))
        stream = b"".join(rfc_encode(*f[:7], f[8]) for f in fr)
        mode = r.random()
        if mode < 0.15 and len(stream) < 400:
            ch = [stream[i:i + 1] for i in range(len(stream))]
        else:
            k = r.randrange(0, 12)
            ch = cuts(stream, [r.randrange(0, len(stream) + 1) for _ in range(k)])
        fcases.append((r.choice([0, 0, 0, 1]), ch, fr))
    # extended length forms: a cut at every position of the header / key and around the end of the frame
    for n in (126, 127, 300, 65535, 65536):
        for _ in range(2 if run.thorough() else 1):
            big = (1, 0, 0, 0, 2, 1, rnd_bytes(r, 4), n, rnd_bytes(r, n))
            fr = client_frames(r, 1, maxlen=4) + [big] + client_frames(r, 1, maxlen=4)
            encs = [rfc_encode(*f[:7], f[8]) for f in fr]
            stream = b"".join(encs)
            a, b = len(encs[0]), len(encs[0]) + len(encs[1])
            heads = list(range(a, a + 16))
            tails = list(range(b - 5, b + 3))
            for i in heads + tails:
                fcases.append((0, cuts(stream, [i]), fr))
            for i in heads:
                fcases.append((0, cuts(stream, [i, r.choice(tails)]), fr))
                fcases.append((0, cuts(stream, [i, i + 1]), fr))
    # two extended-length frames back to back, the SECOND smaller or larger than the first (state a handler keeps about one
    # frame must not leak into the next): a cut at every position of the second frame's header / extended length / key,
    # around its end, and pairs of such cuts
    pairs = [(300, 126), (300, 200), (130, 127), (126, 300), (65536, 300), (66000, 65536), (65535, 126)]
    for na, nb in (pairs if run.thorough() else pairs[:5]):
        fa = (1, 0, 0, 0, 2, 1, rnd_bytes(r, 4), na, rnd_bytes(r, na))
        fb = (1, 0, 0, 0, r.choice([1, 2]), 1, rnd_bytes(r, 4), nb, payload_for(r, 1, nb))
        fb = fb[:4] + (1,) + fb[5:]
        fr = [fa, fb] + client_frames(r, 1, maxlen=4)
        encs = [rfc_encode(*f[:7], f[8]) for f in fr]
        stream = b"".join(encs)
        a, b = len(encs[0]), len(encs[0]) + len(encs[1])
        heads = list(range(max(0, a - 2), a + 16))
        tails = list(range(b - 3, b + 3))
        for i in heads + tails:
            fcases.append((0, cuts(stream, [i]), fr))
        for i in heads:
            fcases.append((0, cuts(stream, [i, r.choice(tails)]), fr))
            fcases.append((0, cuts(stream, [r.randrange(1, a), i]), fr))
    run.exhaustive.append("streams: every cut position inside the header/extended length/key and around the end of frames "
                          "of length 126, 127, 300, 65535, 65536; the same for the second of two extended-length frames "
                          "(second smaller / larger than the first)")
    # malformed streams
    for _ in range(400 if run.thorough() else 120):
        fr = client_frames(r, r.randrange(1, 5), maxlen=8)
        enc = [rfc_encode(*f[:7], f[8]) for f in fr]
        kind = r.choice(["unmasked", "badop", "badutf8", "garbage", "openop"])
        i = r.randrange(len(enc) + 1)
        if kind == "unmasked":
            enc.insert(i, rfc_encode(1, 0, 0, 0, r.choice(OPS), 0, b"", b"hi"))
        elif kind == "badop":
            enc.insert(i, bytes([0x80 | r.choice([0, 3, 4, 7, 11, 15]), 0x82]) + b"kkkk" + b"zz")
        elif kind == "openop":
            enc.insert(i, bytes([0xFF, 0x80]) + b"kkkk")
        elif kind == "badutf8":
            enc.insert(i, rfc_encode(1, 0, 0, 0, 1, 1, b"\x01\x02\x03\x04", r.choice([b"\xff", b"\xc3", b"\xed\xa0\x80", b"a\x80"])))
        else:
            enc.insert(i, rnd_bytes(r, r.randrange(1, 12)))
        stream = b"".join(enc)
        ch = cuts(stream, [r.randrange(0, len(stream) + 1) for _ in range(r.randrange(0, 5))])
        fcases.append((r.choice([0, 1]), ch, None))
    impl_f = [impl_feed(c, ch) for c, ch, _ in fcases]
    mod_f = []
    for i in range(0, len(fcases), 300):
        mod_f += M.call_many("ws_feed", [[c, ch] for c, ch, _ in fcases[i:i + 300]])
    mod_f = [[m[0], m[1], m[2], m[3], bool(m[4])] for m in mod_f]
    run.compare("ws_feed", [(c, [len(x) for x in ch]) for c, ch, _ in fcases], impl_f, mod_f,
                describe=lambda c: lib.jsonable(c))
    run.count("stream_cases", len(fcases))
    nv = 0
    for (c, ch, fr), res in zip(fcases, impl_f):
        if fr is None:
            continue
        run.evaluations += 1
        want = [[f[4], f[8]] for f in fr]
        if len(ch) > 1:
            run.nt(("cut", tuple(len(x) for x in ch), len(fr)))
        if res[0] != want or res[2] != 0 or res[3] != b"":
            nv += 1
            viol("stream-not-delivered-exactly-once-in-order", (len(ch) > 1, len(fr) > 1),
                 {"frames": [[f[4], len(f[8])] for f in fr], "chunk_sizes": [len(x) for x in ch],
                  "delivered": [[d[0], len(d[1])] for d in res[0]], "exception": res[2],
                  "left_in_buffer": len(res[3])}, "WebSocketTemporaryHandler.__call__")
            continue
        # promptness: after each read exactly the frames that are complete so far have been delivered
        ends, pos = [], 0
        for f in fr:
            pos += len(rfc_encode(*f[:7], f[8]))
            ends.append(pos)
        got = impl_feed_prompt(ch)
        fed, wantp = 0, []
        for x in ch:
            fed += len(x)
            wantp.append(sum(1 for e in ends if e <= fed))
        if got != wantp:
            nv += 1
            viol("frame-not-delivered-when-complete", (len(ch) > 1, len(fr) > 1),
                 {"frames": [[f[4], len(f[8])] for f in fr], "chunk_sizes": [len(x) for x in ch],
                  "delivered_after_each_read": got, "complete_after_each_read": wantp},
                 "WebSocketTemporaryHandler.__call__")
    run.count("oracle_stream_violations", nv)
    k = next((i for i, (c, ch, fr) in enumerate(fcases) if fr and len(ch) == 3), 0)
    run.sample({"unit": "ws_feed", "chunks": lib.jsonable(fcases[k][1]), "impl": lib.jsonable(impl_f[k])})
    constructors_and_send(run, viol)
    generated_kernels(run)
    run.rules.append(RULE)
