"""C18 — WebSocket frames round-trip per RFC 6455; TCP segmentation is harmless.
Correspondence units: ws_encode (writeFrame), ws_parse (readFrame over the ring buffer), ws_feed
(WebSocketTemporaryHandler.__call__ over a chunked stream), ws_available (_frameAvailable), ws_utf8
(bytes.decode('utf-8') succeeds), ws_rfc (the spec-side RFC encoder of the theorems vs an independent
Python one).  Oracle: round trip + RFC form + exactly-once in-order delivery on the implementation alone."""
import struct, itertools
from harness import lib

RULE = ("frames: every opcode x mask x fin/rsv bits x payload length at the 125/126/127, 65535/65536 boundaries (+-3), 0..300 and "
        "samples up to 70000 (thorough: all lengths 0..2100, 65000..66100, every 37th up to 70000 through the model; every length "
        "0..70000 through the implementation oracle), random keys, short/long keys and inconsistent payload_length (malformed); "
        "parse: valid encodings, every truncation of short ones, random bytes; streams: all 2- and 3-cut chunkings of short frame "
        "sequences, every cut position in the header / extended length / key and around the end of frames of length 126, 127, 300, 65535, "
        "65536, random chunkings of long ones, byte-by-byte, plus malformed streams (unmasked, bad opcode, bad utf-8, Close twice); the "
        "oracle checks the final deliveries and, read by read, that exactly the frames complete so far have been delivered; "
        "non-trivial = extended length form or a cut that falls inside a frame")
ASSUMPTIONS = ["continuation frames (opcode 0) and message fragmentation are not supported by the code and outside the statement",
               "client frames are masked, carry a wire opcode (Text/Binary/Close/Ping/Pong) and Text payloads are valid UTF-8",
               "payload length < 2^63 (RFC 6455)"]
TRUSTED = ["Twisted raw-mode plumbing (HTTPChannel.dataReceived -> handler) is not modelled: the harness calls "
           "WebSocketTemporaryHandler.__call__ with each TCP read",
           "an exception escaping __call__ is taken to end the connection (runs stop at the first exception)"]

OPS = [1, 2, 8, 9, 10]          # Text Binary Close Ping Pong
OPEN = 0xFF


class Sock:
    def __init__(self):
        self.out = []

    def sendall(self, d):
        self.out.append(bytes(d))


def mk_frame(fin, r1, r2, r3, op, mask, key, plen, payload):
    from mpgameserver.http_server import WebSocketFrame, WebSocketOpCode
    f = WebSocketFrame()
    f.flags.fin, f.flags.rsv1, f.flags.rsv2, f.flags.rsv3 = fin, r1, r2, r3
    f.flags.opcode = WebSocketOpCode(op)
    f.flags.mask = mask
    f.masking_key = key
    f.payload_length = plen
    f.payload = payload
    return f


def impl_encode(a):
    from mpgameserver.http_server import writeFrameFactory
    s = Sock()

    def go():
        writeFrameFactory(s)(mk_frame(*a))
        return b"".join(s.out)
    return lib.guarded(go)


def frame_obs(f):
    return [f.flags.fin, f.flags.rsv1, f.flags.rsv2, f.flags.rsv3, f.flags.opcode.value, f.flags.mask,
            bytes(f.masking_key), f.payload_length, bytes(f.payload)]


def impl_parse(buf):
    from mpgameserver.http_server import readFrameFactory, WebSocketTemporaryRingBuffer
    rb = WebSocketTemporaryRingBuffer(None)
    rb._push(buf)
    r = lib.guarded(lambda: frame_obs(readFrameFactory(rb)()))
    return [r, bytes(rb.buf)]


class Req:
    def __init__(self):
        self.out = []
        self.chunked = 1

    def write(self, d):
        self.out.append(bytes(d))


class Endpt:
    def __init__(self):
        self.log = []

    def callback(self, ws, opcode, payload):
        self.log.append([opcode.value, payload.encode("utf-8") if isinstance(payload, str) else bytes(payload)])


def impl_feed(closed, chunks):
    from mpgameserver.http_server import WebSocketTemporaryHandler, WebSocketTemporaryRingBuffer
    req, ep = Req(), Endpt()
    h = WebSocketTemporaryHandler(("h", 1), {}, {}, WebSocketTemporaryRingBuffer(req), ep)
    h.closed = bool(closed)
    e = 0
    for c in chunks:
        try:
            h(c)
        except Exception as ex:      # noqa
            e = lib.exc_code(ex)
            break
    return [ep.log, b"".join(req.out), e, bytes(h._buffer.buf), bool(h.closed)]


def impl_available(buf):
    from mpgameserver.http_server import WebSocketTemporaryHandler, WebSocketTemporaryRingBuffer
    h = WebSocketTemporaryHandler(("h", 1), {}, {}, WebSocketTemporaryRingBuffer(Req()), Endpt())
    if not hasattr(h, "_frameAvailable"):
        return None
    h._buffer._push(buf)
    return lib.guarded(lambda: bool(h._frameAvailable()))


def impl_feed_prompt(chunks):
    """number of frames delivered after each read (oracle only)"""
    from mpgameserver.http_server import WebSocketTemporaryHandler, WebSocketTemporaryRingBuffer
    ep = Endpt()
    h = WebSocketTemporaryHandler(("h", 1), {}, {}, WebSocketTemporaryRingBuffer(Req()), ep)
    out = []
    for c in chunks:
        try:
            h(c)
        except Exception:      # noqa  (the final-state oracle reports the exception)
            out.append(-1)
            break
        out.append(len(ep.log))
    return out


def utf8_ok(b):
    try:
        b.decode("utf-8")
        return True
    except UnicodeDecodeError:
        return False


def rfc_encode(fin, r1, r2, r3, op, mask, key, payload):
    """RFC 6455 section 5.2, written independently of the code and of the Coq text"""
    n = len(payload)
    out = bytearray([(fin << 7) | (r1 << 6) | (r2 << 5) | (r3 << 4) | op])
    m = 0x80 if mask else 0
    if n <= 125:
        out.append(m | n)
    elif n < (1 << 16):
        out.append(m | 126)
        out += struct.pack(">H", n)
    else:
        out.append(m | 127)
        out += struct.pack(">Q", n)
    if mask:
        out += key
        out += bytes(payload[i] ^ key[i & 3] for i in range(n))
    else:
        out += payload
    return bytes(out)


def rnd_bytes(r, n):
    return bytes(r.getrandbits(8) for _ in range(n)) if n < 64 else r.getrandbits(8 * n).to_bytes(n, "big")


def rnd_text(r, n):
    s = "".join(r.choice(["a", "z", "é", "中", "\U0001f600", " ", "\x00", "\x7f", "߿", "ࠀ", "￿"]) for _ in range(n))
    return s.encode("utf-8")


def boundary_lengths(run):
    L = set(range(0, 301))
    for c in (125, 126, 127, 128, 255, 256, 65535, 65536, 70000):
        L.update(range(max(0, c - 3), c + 4))
    if run.thorough():
        L.update(range(0, 2101))
        L.update(range(65000, 66101))
        L.update(range(0, 70001, 37))
    else:
        L.update(run.rng.randrange(300, 70001) for _ in range(12))
    return sorted(L)


def payload_for(r, op, n):
    if op == 1:
        b = rnd_text(r, n // 2 + 1)
        while len(b) > n or not utf8_ok(b[:n]):
            b = b[:-1] if len(b) > n else b"a" * n
        return b + b"a" * (n - len(b))
    return rnd_bytes(r, n)


def client_frames(r, k, maxlen=40):
    """k well-formed masked client frames: (args tuple for mk_frame)"""
    out = []
    for _ in range(k):
        op = r.choice(OPS)
        n = r.choice([0, 1, 2, 3, 5, r.randrange(0, maxlen)])
        out.append((1, 0, 0, 0, op, 1, rnd_bytes(r, 4), n, payload_for(r, op, n)))
    return out


def run(run):
    M = run.model
    r = run.rng

    # ------------------------------------------------ ws_utf8 / ws_available
    ucases = [bytes([a]) for a in range(256)] + [bytes([a, b]) for a in range(256) for b in range(256)]
    for lead in (0xE0, 0xE1, 0xEC, 0xED, 0xEE, 0xEF, 0xF0, 0xF1, 0xF3, 0xF4, 0xF5, 0xC0, 0xC1, 0xC2, 0xDF):
        for c1 in (0x7F, 0x80, 0x8F, 0x90, 0x9F, 0xA0, 0xBF, 0xC0):
            for c2 in (0x7F, 0x80, 0xBF, 0xC0):
                ucases.append(bytes([lead, c1, c2]))
                for c3 in (0x7F, 0x80, 0xBF, 0xC0):
                    ucases.append(bytes([lead, c1, c2, c3]))
                    ucases.append(b"a" + bytes([lead, c1, c2, c3]) + b"\xc3\xa9")
    for _ in range(20000 if run.thorough() else 3000):
        ucases.append(rnd_text(r, r.randrange(0, 6)) + rnd_bytes(r, r.randrange(0, 4)) + rnd_text(r, r.randrange(0, 3)))
    run.compare("ws_utf8", ucases, [utf8_ok(b) for b in ucases], [bool(x) for x in M.call_many("ws_utf8", [[b] for b in ucases])])
    run.exhaustive.append("utf-8 validity: all 1- and 2-byte strings")

    # ------------------------------------------------ ws_encode + ws_rfc + round trip oracle
    lengths = boundary_lengths(run)
    ecases = []
    for n in lengths:
        small = n <= 130 or n in (65535, 65536)
        combos = [(op, mask) for op in OPS for mask in (0, 1)] if small else [(r.choice(OPS), r.choice([0, 1]))]
        for op, mask in combos:
            fin, r1, r2, r3 = (r.choice([0, 1]) for _ in range(4))
            key = rnd_bytes(r, 4) if mask else b"\x00\x00\x00\x00"
            ecases.append((fin, r1, r2, r3, op, mask, key, n, payload_for(r, op, n)))
    run.count("wellformed_frames", len(ecases))
    wf = len(ecases)
    # malformed: Open pseudo-opcode, odd flag ints, short/long keys, inconsistent / out-of-range payload_length
    for _ in range(600 if run.thorough() else 150):
        n = r.choice([0, 1, 3, 4, 5, 9, 130])
        ecases.append((r.choice([0, 1, 2, -1]), r.choice([0, 1, 3]), r.choice([0, 1]), r.choice([0, 1, 16]),
                       r.choice(OPS + [OPEN]), r.choice([0, 1, 1, 2]), rnd_bytes(r, r.choice([0, 1, 2, 3, 4, 4, 5, 6])),
                       r.choice([n, n, n + 1, 125, 126, 65535, 65536, 2 ** 63, 2 ** 64 - 1, 2 ** 64, -1]), rnd_bytes(r, n)))
    impl_e = [impl_encode(c) for c in ecases]
    mod_e = []
    for i in range(0, len(ecases), 400):
        mod_e += M.call_many("ws_encode", [list(c) for c in ecases[i:i + 400]])
    run.compare("ws_encode", [c[:8] + (len(c[8]),) for c in ecases], impl_e, mod_e)
    # spec-side RFC encoder of the theorems vs the independent Python one (well-formed frames only)
    mod_r = []
    for i in range(0, wf, 400):
        mod_r += M.call_many("ws_rfc", [list(c) for c in ecases[i:i + 400]])
    run.compare("ws_rfc", [c[:8] for c in ecases[:wf]], [rfc_encode(*c[:7], c[8]) for c in ecases[:wf]], mod_r)

    seen = {}

    def viol(what, key, case, site):
        seen[(what, key)] = seen.get((what, key), 0) + 1
        if seen[(what, key)] <= 2:
            run.oracle_violation(what, case, site)

    def form(n):
        return "7bit" if n <= 125 else ("16bit" if n <= 65535 else "64bit")

    for c, e in zip(ecases[:wf], impl_e[:wf]):
        run.evaluations += 1
        n = c[7]
        if n > 125:
            run.nt(("enc", n, c[4], c[5]))
        want = rfc_encode(*c[:7], c[8])
        if e[0] != 0 or e[1] != want:
            viol("encoding-not-rfc6455", (c[5], form(n), n == 65535),
                 {"opcode": c[4], "mask": c[5], "length": n, "fin": c[0],
                  "got_prefix": lib.jsonable(e[1][:16]) if e[0] == 0 else e,
                  "want_prefix": lib.jsonable(want[:16])}, "WebSocketFrame.write*")
            continue
        p = impl_parse(e[1] + b"tail")
        good = p[0][0] == 0 and p[1] == b"tail" and p[0][1] == [c[0], c[1], c[2], c[3], c[4], c[5], c[6], n, c[8]]
        if not good:
            viol("frame-does-not-round-trip", (c[5], form(n), n == 127),
                 {"opcode": c[4], "mask": c[5], "length": n,
                  "parsed": lib.jsonable(p[0])[:2] if p[0][0] else
                  {"payload_length": p[0][1][7], "rest_len": len(p[1])}}, "WebSocketFrame.read*")
    run.sample({"unit": "ws_encode", "case": lib.jsonable(ecases[130][:8]), "impl": lib.jsonable(impl_e[130])})

    # thorough: every length 0..70000 through the implementation (mask 0: all; mask 1: the model's length set)
    if run.thorough():
        from mpgameserver.http_server import WebSocketOpCode
        blob = rnd_bytes(r, 70000)
        for n in range(0, 70001):
            pay = blob[:n]
            e = impl_encode((1, 0, 0, 0, 2, 0, b"\x00" * 4, n, pay))
            run.evaluations += 1
            ok_ = e[0] == 0 and e[1] == rfc_encode(1, 0, 0, 0, 2, 0, b"", pay)
            if ok_:
                p = impl_parse(e[1])
                ok_ = p[0][0] == 0 and p[0][1][7] == n and p[0][1][8] == pay and p[1] == b""
            if not ok_:
                run.oracle_violation("frame-does-not-round-trip", {"opcode": 2, "mask": 0, "length": n}, "WebSocketFrame")
                break
        run.exhaustive.append("implementation round trip + RFC form: every payload length 0..70000 (Binary, unmasked)")

    # ------------------------------------------------ ws_parse
    pcases = []
    for c, e in zip(ecases[:wf], impl_e[:wf]):
        want = rfc_encode(*c[:7], c[8])
        if c[7] <= 300 or c[7] in (65535, 65536):
            pcases.append(want + rnd_bytes(r, r.choice([0, 0, 1, 5])))
        if c[7] <= 12:
            for k in range(len(want)):
                pcases.append(want[:k])
    for n in (126, 127, 200, 65535, 65536):
        w = rfc_encode(1, 0, 0, 0, 2, 1, b"abcd", bytes(n))
        pcases += [w[:k] for k in range(0, 16)] + [w[:-1]]
    for _ in range(6000 if run.thorough() else 1500):
        b = bytearray(rnd_bytes(r, r.randrange(0, 24)))
        if b and r.random() < 0.7:
            b[0] = (b[0] & 0xF0) | r.choice([1, 2, 8, 9, 10, 0, 3, 15])
        if len(b) > 1 and r.random() < 0.7:
            b[1] = r.choice([0, 1, 5, 125, 126, 127, 128, 129, 133, 253, 254, 255])
        if len(b) > 3 and r.random() < 0.5:
            b[2] = 0
            b[3] = r.choice([0, 1, 2, 9])
        pcases.append(bytes(b))
    impl_p = [impl_parse(b) for b in pcases]
    mod_p = []
    for i in range(0, len(pcases), 500):
        mod_p += M.call_many("ws_parse", [[b] for b in pcases[i:i + 500]])
    run.compare("ws_parse", [b[:24] for b in pcases], impl_p, mod_p)
    av = [impl_available(b) for b in pcases]
    if av and av[0] is not None:
        run.compare("ws_available", [b[:24] for b in pcases], av,
                    [lib.ok(bool(x)) for x in M.call_many("ws_available", [[b] for b in pcases])])
    else:
        run.notes.append("WebSocketTemporaryHandler has no _frameAvailable (unrepaired tree): unit ws_available skipped")

    # ------------------------------------------------ ws_feed: chunked streams
    fcases = []      # (closed, chunks, frames or None)

    def cuts(stream, pts):
        pts = [0] + sorted(pts) + [len(stream)]
        return [stream[a:b] for a, b in zip(pts, pts[1:])]

    nseq = 60 if run.thorough() else 14
    for _ in range(nseq):
        fr = client_frames(r, r.choice([1, 2, 2, 3]), maxlen=6)
        stream = b"".join(rfc_encode(*f[:7], f[8]) for f in fr)
        if len(stream) > (40 if run.thorough() else 30):
            continue
        fcases.append((0, [stream], fr))
        for i in range(0, len(stream) + 1):
            fcases.append((0, cuts(stream, [i]), fr))
            for j in range(i, len(stream) + 1):
                fcases.append((0, cuts(stream, [i, j]), fr))
    run.exhaustive.append("streams: every 2-cut and 3-cut chunking of %d short frame sequences" % nseq)
    for _ in range(1500 if run.thorough() else 250):
        fr = client_frames(r, r.randrange(1, 9), maxlen=r.choice([10, 140, 300]))
        if r.random() < 0.15:
            n = r.choice([65535, 65536, 66000])
            fr.insert(r.randrange(len(fr) + 1), (1, 0, 0, 0, 2, 1, rnd_bytes(r, 4), n, rnd_bytes(r, n)))
        stream = b"".join(rfc_encode(*f[:7], f[8]) for f in fr)
        mode = r.random()
        if mode < 0.15 and len(stream) < 400:
            ch = [stream[i:i + 1] for i in range(len(stream))]
        else:
            k = r.randrange(0, 12)
            ch = cuts(stream, [r.randrange(0, len(stream) + 1) for _ in range(k)])
        fcases.append((r.choice([0, 0, 0, 1]), ch, fr))
    # extended length forms: a cut at every position of the header / key and around the end of the frame
    for n in (126, 127, 300, 65535, 65536):
        for _ in range(2 if run.thorough() else 1):
            big = (1, 0, 0, 0, 2, 1, rnd_bytes(r, 4), n, rnd_bytes(r, n))
            fr = client_frames(r, 1, maxlen=4) + [big] + client_frames(r, 1, maxlen=4)
            encs = [rfc_encode(*f[:7], f[8]) for f in fr]
            stream = b"".join(encs)
            a, b = len(encs[0]), len(encs[0]) + len(encs[1])
            heads = list(range(a, a + 16))
            tails = list(range(b - 5, b + 3))
            for i in heads + tails:
                fcases.append((0, cuts(stream, [i]), fr))
            for i in heads:
                fcases.append((0, cuts(stream, [i, r.choice(tails)]), fr))
                fcases.append((0, cuts(stream, [i, i + 1]), fr))
    run.exhaustive.append("streams: every cut position inside the header/extended length/key and around the end of frames "
                          "of length 126, 127, 300, 65535, 65536")
    # malformed streams
    for _ in range(400 if run.thorough() else 120):
        fr = client_frames(r, r.randrange(1, 5), maxlen=8)
        enc = [rfc_encode(*f[:7], f[8]) for f in fr]
        kind = r.choice(["unmasked", "badop", "badutf8", "garbage", "openop"])
        i = r.randrange(len(enc) + 1)
        if kind == "unmasked":
            enc.insert(i, rfc_encode(1, 0, 0, 0, r.choice(OPS), 0, b"", b"hi"))
        elif kind == "badop":
            enc.insert(i, bytes([0x80 | r.choice([0, 3, 4, 7, 11, 15]), 0x82]) + b"kkkk" + b"zz")
        elif kind == "openop":
            enc.insert(i, bytes([0xFF, 0x80]) + b"kkkk")
        elif kind == "badutf8":
            enc.insert(i, rfc_encode(1, 0, 0, 0, 1, 1, b"\x01\x02\x03\x04", r.choice([b"\xff", b"\xc3", b"\xed\xa0\x80", b"a\x80"])))
        else:
            enc.insert(i, rnd_bytes(r, r.randrange(1, 12)))
        stream = b"".join(enc)
        ch = cuts(stream, [r.randrange(0, len(stream) + 1) for _ in range(r.randrange(0, 5))])
        fcases.append((r.choice([0, 1]), ch, None))
    impl_f = [impl_feed(c, ch) for c, ch, _ in fcases]
    mod_f = []
    for i in range(0, len(fcases), 300):
        mod_f += M.call_many("ws_feed", [[c, ch] for c, ch, _ in fcases[i:i + 300]])
    mod_f = [[m[0], m[1], m[2], m[3], bool(m[4])] for m in mod_f]
    run.compare("ws_feed", [(c, [len(x) for x in ch]) for c, ch, _ in fcases], impl_f, mod_f,
                describe=lambda c: lib.jsonable(c))
    run.count("stream_cases", len(fcases))
    nv = 0
    for (c, ch, fr), res in zip(fcases, impl_f):
        if fr is None:
            continue
        run.evaluations += 1
        want = [[f[4], f[8]] for f in fr]
        if len(ch) > 1:
            run.nt(("cut", tuple(len(x) for x in ch), len(fr)))
        if res[0] != want or res[2] != 0 or res[3] != b"":
            nv += 1
            viol("stream-not-delivered-exactly-once-in-order", (len(ch) > 1, len(fr) > 1),
                 {"frames": [[f[4], len(f[8])] for f in fr], "chunk_sizes": [len(x) for x in ch],
                  "delivered": [[d[0], len(d[1])] for d in res[0]], "exception": res[2],
                  "left_in_buffer": len(res[3])}, "WebSocketTemporaryHandler.__call__")
            continue
        # promptness: after each read exactly the frames that are complete so far have been delivered
        ends, pos = [], 0
        for f in fr:
            pos += len(rfc_encode(*f[:7], f[8]))
            ends.append(pos)
        got = impl_feed_prompt(ch)
        fed, wantp = 0, []
        for x in ch:
            fed += len(x)
            wantp.append(sum(1 for e in ends if e <= fed))
        if got != wantp:
            nv += 1
            viol("frame-not-delivered-when-complete", (len(ch) > 1, len(fr) > 1),
                 {"frames": [[f[4], len(f[8])] for f in fr], "chunk_sizes": [len(x) for x in ch],
                  "delivered_after_each_read": got, "complete_after_each_read": wantp},
                 "WebSocketTemporaryHandler.__call__")
    run.count("oracle_stream_violations", nv)
    k = next((i for i, (c, ch, fr) in enumerate(fcases) if fr and len(ch) == 3), 0)
    run.sample({"unit": "ws_feed", "chunks": lib.jsonable(fcases[k][1]), "impl": lib.jsonable(impl_f[k])})
    run.rules.append(RULE)
