"""C11 — hostile datagrams cannot stop the server loop, hurt established clients or be amplified.

Correspondence: the real front gate (TwistedServer.datagramReceived; _UdpServer.run's gate is the
same text and is compared separately on the unit srv_gate) + the real UdpServerThread, stepped
deterministically, against Server.v (same machinery as C10) under hostile traffic.
Oracle (implementation only): loop-thread liveness, the honest echo client's service, per-address
byte counters at the mock socket, no reaction whatsoever to block-listed IPs.
Worlds run behind every front door of the library in turn (harness/srvx.py: TwistedServer.datagramReceived with a
fresh thread, the thread TwistedServer / ThreadedServer build in their constructor, the socket loop of _UdpServer.run
on a scripted socket) and with the context configured before or after the server object was built.
halfopen_world: peers that hold a session key but never complete the handshake, over many seconds (byte AND datagram
accounting per address that never got a connect event).
refusing_transport_world (implementation only): the Twisted send path as the library wires it — the tick's batch goes through
TwistedServer.sendPackets -> reactor.callFromThread(sendPacketsUnsafe) (stub reactor, inline or lagging) to a transport whose
write() RAISES for destinations the OS refuses (port 0 as srvsim.MockSock; limited broadcast and class E when this kernel
refuses them), as twisted's udp.Port.write does.  Well-formed client hellos forged from such addresses (and from ordinary
ones) arrive in the very ticks in which established echo clients have something to be sent.  Oracle: every message of an
established honest client is echoed, the loop stays alive, nothing is written to a blocked IP.
blocklist_change_world: the block list is changed on the RUNNING server (setBlockList with a new set / the installed set mutated;
from the harness thread, from handler.update, from handle_message) behind every front door; per-datagram queue observation
(srvx feed probe) against the list computed from the operations, unit srv_gate with the list in force per datagram, srv_run on the
script with the per-step list applied."""
import struct
from harness import lib
from harness import connsim as S
from harness import srvsim as V

T = S.TICKS
RULE = ("byte strings up to RECV_SIZE (and beyond) from many addresses through the real front gate: random bytes, "
        "truncated / extended / bit-flipped copies of real datagrams, valid header + garbage body, oversized, bursts of "
        "real client hellos from fresh addresses, hellos with short padding / wrong version / foreign-curve key, "
        "hello-typed plaintext with count != 1 or inner APP/DISCONNECT/CHALLENGE messages, spoofed source addresses of "
        "established clients, replays, sources with port 0 and block-listed IPs — interleaved with 1-2 honest echo clients; "
        "non-trivial = a world in which the honest client exchanged >= 5 echoes while >= 4 hostile kinds were fed")
HALFOPEN_RULE = ("half-open worlds: up to 5 hostile peers per world that do the key exchange with a real UdpClient (they HOLD the session key of "
                 "their temporary slot) and then answer the challenge with a wrong token / token 0 / another connection's token / garbage / APP, "
                 "KEEP_ALIVE or DISCONNECT messages in a CHALLENGE_RESP-typed datagram, or not at all, and repeat the wrong answer every 0.3-1.9 s "
                 "for 11-22 s of virtual time next to an honest echo client, behind every front door; per address that never got a connect event: "
                 "bytes out <= bytes in and datagrams out <= client hellos in, at every tick; non-trivial = world with >= 5 echoes and >= 5 wrong answers. "
                 "The random hostile worlds above also rotate over the front doors and over configure-before / configure-after-construction (setBlockList)")
ASSUMPTIONS = ["virtual clock on the 1/1024 s grid",
               "the mock socket behaves like the OS measured on this host: sendto to port 0 raises OSError(EINVAL) (checked each run by srvsim.os_refuses_port0)",
               "|server hello datagram| <= |minimal accepted client hello datagram|, both measured from the implementation each run and asserted"]
TRUSTED = ["thread scheduling / Lock / Condition of UdpServerThread, Twisted's reactor, the OS socket layer beyond the measured port-0 rule, and the CPU cost of per-hello key generation are not modelled",
           "an exception that escapes the real loop is a correspondence failure (model continues, thread died) reported with the oracle's replay; the theorem cannot exhibit it"]

BLOCKED = ["10.66.6.6", "10.66.6.7", "::ffff:10.77.7.7", "2001:db8::bad"]     # the block list holds host strings as the socket reports them
OTHER_SPELLINGS = ["::ffff:10.66.6.6", "10.77.7.7", "::ffff:10.2.0.1", "2001:db8::bad:1", "::1"]   # NOT blocked: a different host string


def gate_cases(run):
    """unit srv_gate: the front gate alone, both implementations (TwistedServer.datagramReceived and
    the loop body of _UdpServer.run driven through a scripted socket)"""
    import types
    import mpgameserver.server as SV
    from mpgameserver.context import ServerContext
    from mpgameserver.twisted import TwistedServer
    rng = run.rng
    cases, raws = [], []
    n = 3000 if run.thorough() else 400
    for i in range(n):
        r = rng.random()
        ln = rng.choice([0, 1, 19, 20, 21, 24, 60, 1472, 2048, 2049, 4000]) if r < 0.5 else rng.randrange(0, 64)
        b = bytearray(rng.randrange(256) for _ in range(ln))
        if ln >= 20 and rng.random() < 0.8:
            b[:4] = rng.choice([b"FSOS", b"FSOS", b"FSOC", b"FSOX", b"fsos"])
            b[12] = rng.choice([0, 1, 2, 3, 4, 5, 6, 7, 8, 255])
        ip = rng.choice(BLOCKED + ["10.2.0.1", "10.66.6.8", "10.66.6.60"] + OTHER_SPELLINGS)
        raws.append(((ip, rng.choice([0, 1, 5000])), bytes(b)))
    bl = set(BLOCKED)
    lg0 = __import__("logging").getLogger("mpgameserver")
    lvl0 = lg0.level
    lg0.setLevel(100)
    try:
        _gate_variants(run, raws, bl)
    finally:
        lg0.setLevel(lvl0)


def _gate_variants(run, raws, bl):
    import types
    import mpgameserver.server as SV
    from mpgameserver.context import ServerContext
    from mpgameserver.twisted import TwistedServer
    for variant in ("twisted", "udpserver"):
        got = []
        ctxt = ServerContext(V.SimHandler(None), S.root_key())
        ctxt.blocklist = set(bl)
        sink = types.SimpleNamespace(append=lambda addr, hdr, dg: got.append((addr, hdr, dg)))
        impl = []
        if variant == "twisted":
            tw = TwistedServer(ctxt, ("0.0.0.0", 1), install_signals=False)
            tw.thread = sink
            for addr, raw in raws:
                k = len(got)
                tw.datagramReceived(raw, addr)
                impl.append([1, S.unpack_header(S.pack_header(hdr_list(got[-1][1])))] if len(got) > k else [0])
        else:
            # _UdpServer.run with a scripted socket and a thread object that only collects
            feed = list(raws)
            state = {"k": 0}

            class Sock:
                def setsockopt(self, *a):
                    pass

                def bind(self, a):
                    pass

                def fileno(self):
                    return 0

                def recvfrom(self, n):
                    if not feed:
                        ctxt._active = False
                        raise ConnectionResetError("end of script")
                    addr, raw = feed.pop(0)
                    state["cur"] = len(got)
                    return raw[:n] if False else raw, addr

            class Thr:
                def __init__(self, sock, c):
                    pass

                def start(self):
                    pass

                def append(self, addr, hdr, dg):
                    got.append((addr, hdr, dg))
            saved = (SV.socket, SV.UdpServerThread)
            marks = []
            try:
                sock = Sock()
                orig_recv = sock.recvfrom

                def recvfrom(n):
                    marks.append(len(got))
                    return orig_recv(n)
                sock.recvfrom = recvfrom
                SV.socket = types.SimpleNamespace(socket=lambda *a: sock, AF_INET=2, SOCK_DGRAM=2, SOL_SOCKET=1, SO_REUSEADDR=2)
                SV.UdpServerThread = Thr
                lg = __import__("logging").getLogger("mpgameserver")
                lvl = lg.level
                lg.setLevel(100)
                try:
                    SV._UdpServer(ctxt, ("0.0.0.0", 1)).run()
                finally:
                    lg.setLevel(lvl)
            finally:
                SV.socket, SV.UdpServerThread = saved
            marks.append(len(got))
            for i in range(len(raws)):
                if marks[i + 1] > marks[i]:
                    impl.append([1, S.unpack_header(S.pack_header(hdr_list(got[marks[i]][1])))])
                else:
                    impl.append([0])
        cs = [[[V.ipid(x) for x in BLOCKED], V.av(addr), raw] for addr, raw in raws]
        model = run.model.call_many("srv_gate", cs)
        run.compare("srv_gate", [[variant, c[1], c[2][:24]] for c in cs], impl, model)
        for (addr, raw), r in zip(raws, impl):
            if addr[0] in bl and r != [0]:
                run.oracle_violation("datagram from a blocked IP reached the queue",
                                     {"what": "blocked ip queued", "gate": variant, "addr": list(addr), "raw": raw[:24]}, "server.py/twisted.py gate")
            if r != [0]:
                run.nt(("gate", variant, raw[:20]))


def hdr_list(h):
    return [1 if h.isServer else 0, h.ctime, int(h.seq), int(h.ack), h.pkt_type.value, h.length, h.count, h.ack_bits]


def hello_sizes(run):
    """measure: the real client hello datagram, the shortest hello the server accepts, the real
    server hello datagram"""
    from mpgameserver.connection import Packet, PacketHeader, ServerClientConnection, HandshakeClientHelloMessage
    from mpgameserver.context import ServerContext
    keys = S.Keys()
    c = S.Impl("client", keys, established=False)
    c.client.connect(V.SERVER_ADDR)
    c.client.conn.clock = S.CLOCK.time
    S.CLOCK.t = 100 * T
    c.client.update()
    hello = c.sock.sent[-1]
    res = {"client_hello": len(hello)}

    def accepted(d):
        ctxt = ServerContext(V.SimHandler(None), S.root_key())
        conn = ServerClientConnection(ctxt, ("10.0.0.9", 9))
        conn.clock = S.CLOCK.time
        ctxt.temp_connections[conn.addr] = conn
        try:
            conn._recv_datagram(PacketHeader.from_bytes(True, d), d)
        except Exception:
            return None
        if conn.session_key_bytes is None:
            return None
        pkt = conn.update()
        return len(pkt[0].to_bytes(pkt[1])) if pkt else None
    res["server_hello"] = accepted(hello)
    # shorter hellos: drop k bytes of padding and fix length + crc
    h = S.unpack_header(hello)
    shortest = len(hello)
    for k in (1, 2, 8, 64, 512, 1200):
        body = hello[20:20 + h[5] - k]
        h2 = list(h)
        h2[5] = len(body)
        d = S.pack_header(h2) + body
        d += struct.pack(">L", __import__("binascii").crc32(d) & 0xFFFFFFFF)
        if accepted(d) is not None:
            shortest = min(shortest, len(d))
    res["min_accepted_client_hello"] = shortest
    return res, hello


def world(run, rng, idx, sizes, hello):
    from mpgameserver.connection import Packet
    facts = set()
    policy = V.random_policy(rng, p_raise=0.0, echo=1.0, chatty=False)
    cfg = rng.choice([(5 * T, 2 * T, 1536, T), (15360, 7680, 1536, 7680)])
    from harness import srvx as X
    front = X.FRONTS[idx % len(X.FRONTS)]       # every front door of the library in turn (srvx.py); "twisted" is srvsim's own
    w = X.WorldX(run, rng, cfg=cfg, blocklist=BLOCKED, policy=policy, full=True, front=front,
                 configure="between" if (idx // len(X.FRONTS)) % 2 else "before")
    sim = w.sim
    honest = [w.add_client(("10.1.0.%d" % (i + 1), 5000 + i)) for i in range(rng.choice([1, 2]))]
    sent, nsteps = {id(r): [] for r in honest}, rng.randrange(60, 120) * (2 if run.thorough() else 1)
    hostile_addrs = [("10.9.%d.%d" % (i // 200, i % 200 + 1), rng.choice([0, 1, 53, 5000, 65535])) for i in range(40)]
    hostile_addrs += [(b, 4444) for b in BLOCKED] + [("10.9.9.9", 0)] + [(b, 4445) for b in OTHER_SPELLINGS]
    inb, outb, connected_once = {}, {}, set()
    died_at = None
    try:
        for st in range(nsteps):
            extra = []
            for rec in honest:
                hc = rec["hc"]
                if hc.status() == 2 and rng.random() < 0.5:
                    p = b"m%d-%d-" % (idx, st) + bytes(rng.randrange(256) for _ in range(rng.choice([0, 3, 50, 700])))
                    hc.client.send(p)
                    sent[id(rec)].append((st, p))
            for _ in range(rng.choice([0, 1, 1, 2, 5, 20])):
                a = rng.choice(hostile_addrs)
                k = rng.choice(["rand", "trunc", "hdr+junk", "over", "hello", "hello-short", "hello-count", "hello-inner",
                                "spoof", "replay", "flip", "hello-ver", "empty"])
                facts.add(k)
                if a[1] == 0:
                    facts.add("port0")
                if a[0] in BLOCKED:
                    facts.add("blocked")
                if k == "rand":
                    d = bytes(rng.randrange(256) for _ in range(rng.choice([1, 7, 19, 20, 33, 200, 1472, Packet.RECV_SIZE])))
                elif k == "empty":
                    d = b""
                elif k == "trunc":
                    src = rng.choice(w.sent_hist)[1] if w.sent_hist else hello
                    d = src[:rng.randrange(0, len(src))]
                elif k == "hdr+junk":
                    n = rng.choice([0, 4, 16, 100, 1400])
                    d = S.pack_header([1, rng.getrandbits(32), rng.randrange(65536), rng.randrange(65536), rng.randrange(8),
                                       rng.choice([0, n, max(0, n - 4), max(0, n - 16), 65535]), rng.choice([0, 1, 2, 7, 255]),
                                       rng.getrandbits(32)]) + bytes(rng.randrange(256) for _ in range(n))
                elif k == "over":
                    d = hello + bytes(rng.randrange(256) for _ in range(rng.choice([1, 576, 3000])))
                elif k == "hello":
                    d = hello
                    if rng.random() < 0.5:
                        a = ("10.8.%d.%d" % (rng.randrange(250), rng.randrange(1, 250)), rng.choice([0, 7, 4000]))
                elif k in ("hello-short", "hello-count", "hello-inner", "hello-ver"):
                    h = S.unpack_header(hello)
                    body = hello[20:20 + h[5]]
                    if k == "hello-short":
                        body = body[:len(body) - rng.choice([1, 2, 100])]
                    elif k == "hello-count":
                        h[6] = rng.choice([0, 2, 3, 255])
                    elif k == "hello-inner":
                        msgs = [(1, 3, b"\x00\x00\x00\x00"), (2, 6, b"app"), (3, 5, b"")]
                        body = b"".join(struct.pack(">HHB", len(p), sq, ty) + p for sq, ty, p in msgs)
                        h[6] = len(msgs)
                    else:
                        body = bytearray(body)
                        body[rng.randrange(2, 120)] ^= 1 << rng.randrange(8)
                        body = bytes(body)
                    h[5] = len(body)
                    d = S.pack_header(h) + body
                    d += struct.pack(">L", __import__("binascii").crc32(d) & 0xFFFFFFFF)
                elif k == "spoof":
                    a = rng.choice(honest)["addr"]
                    d = bytes(rng.randrange(256) for _ in range(rng.choice([24, 60, 300])))
                    if w.sent_hist and rng.random() < 0.7:
                        src = bytearray(rng.choice(w.sent_hist)[1])
                        src[rng.randrange(len(src))] ^= 1 << rng.randrange(8)
                        d = bytes(src)
                elif k == "replay":
                    d = rng.choice(w.sent_hist)[1] if w.sent_hist else hello
                else:
                    src = bytearray(rng.choice(w.sent_hist)[1] if w.sent_hist else hello)
                    src[rng.randrange(len(src))] ^= 1 << rng.randrange(8)
                    d = bytes(src)
                extra.append((a, d))
            n0 = len(sim.sends)
            alive = w.step(rng.choice([150, 300, 300, 600]), extra)
            # byte accounting at the socket, per address, while the address is not in `connections`
            for a, d in w.batches[-1]:
                inb[a] = inb.get(a, 0) + len(d)
            for (k_, a, data) in sim.sends[n0:]:
                outb[a] = outb.get(a, 0) + len(data)
            for o in sim.log[sim.marks[-2] if len(sim.marks) > 1 else 0:]:
                if o[0] == 0 and o[1][0] == 3:
                    connected_once.add(V.va(o[1][2]))
            for a in set(inb) | set(outb):
                if a in connected_once:
                    continue
                if outb.get(a, 0) > inb.get(a, 0):
                    run.oracle_violation("amplification towards an unconnected address",
                                         {"what": "amplification", "world": idx, "step": st, "addr": list(a),
                                          "bytes_out": outb.get(a, 0), "bytes_in": inb.get(a, 0)}, "server.py:send / connection.py")
                    connected_once.add(a)
                if a[0] in BLOCKED and outb.get(a, 0) > 0:
                    run.oracle_violation("reply to a blocked IP", {"what": "reply to blocked ip", "world": idx, "addr": list(a)}, "server.py gate")
            for pool in (sim.ctxt.connections, sim.ctxt.temp_connections):
                for a in pool:
                    if a[0] in BLOCKED:
                        run.oracle_violation("state for a blocked IP", {"what": "state for blocked ip", "world": idx, "addr": list(a)}, "server.py gate")
            if not alive:
                died_at = st
                last = [[list(a), d[:40]] for a, d in w.batches[-2][-6:]] if len(w.batches) > 1 else []
                run.oracle_violation("server loop died",
                                     {"what": "server loop died", "world": idx, "step": st, "exception": repr(sim.thread_exc)[:200],
                                      "last_batches": lib.jsonable(last),
                                      "port0_sources": [list(a) for a, d in (w.batches[-2] if len(w.batches) > 1 else []) if a[1] == 0][:3]},
                                     "server.py:UdpServerThread.send")
                break
        w.finish()
        diff = sim.check_model()
        # the honest clients' service: everything sent at least 12 steps before the end came back
        echoes = 0
        for rec in honest:
            got = set(rec["hc"].got)
            for st, p in sent[id(rec)]:
                if b"echo:" + p[:600] in got:
                    echoes += 1
                elif died_at is None and st < nsteps - 12:
                    run.oracle_violation("honest client not served",
                                         {"what": "honest client not served", "world": idx, "sent_at_step": st, "payload": p[:30]}, "server.py")
        run.count("worlds")
        run.count("worlds behind " + front)
        run.count("hostile datagrams", sum(len(b) for b in w.batches))
        run.count("echoes", echoes)
        for f in facts:
            run.count("world with " + f)
        if sim.internal:
            raise RuntimeError("harness-internal problem: %s" % sim.internal[:3])
        if echoes >= 5 and len(facts) >= 4:
            run.nt(("world", idx, echoes, len(sim.log)))
        run.sample({"world": idx, "steps": len(sim.steps), "echoes": echoes, "facts": sorted(facts), "died_at_step": died_at})
        return ["world %d" % idx, len(sim.steps)], [0] if diff is None else [1, diff]
    finally:
        w.close()



# ------------------------------------------------------------------ peers that hold a session key but never complete the handshake

HALFOPEN_KINDS = ["wrong-token", "token-zero", "token-of-another", "garbage-challenge", "app-typed-challenge", "keepalive-typed-challenge",
                  "disconnect-in-challenge", "silent-after-hello"]


def halfopen_world(run, rng, idx, front):
    """hostile peers that do the key exchange HONESTLY (real UdpClient, real ECDH: they hold the session key of their
    temporary slot) and then answer the challenge wrongly — and keep answering wrongly once every 0.3..1.9 s so that the
    slot stays alive — for many seconds of virtual time, next to an honest echo client.  Oracle, per address that never
    got a connect event: bytes out <= bytes in at every tick, and at most one datagram out per client hello in."""
    from harness import srvx as X
    from mpgameserver.connection import HandshakeClientChallengeResponseMessage
    policy = V.random_policy(rng, p_raise=0.0, echo=1.0, chatty=False)
    cfg = (5 * T, 2 * T, 1536, T)
    w = X.WorldX(run, rng, cfg=cfg, blocklist=BLOCKED, policy=policy, full=True, front=front)
    sim = w.sim
    honest = w.add_client(("10.1.0.1", 5000))
    sent = []
    hostiles = []
    inb, outb, dg_out, hellos_in, connected_once, talkers = {}, {}, {}, {}, set(), set()
    died_at = None
    nsteps = 110 * (2 if run.thorough() else 1)

    def token_payload(tok):
        m = HandshakeClientChallengeResponseMessage()
        m.token = tok
        return m.dumpb()

    def wrong(rec):
        """the next datagram of this hostile peer: sealed under ITS session key, typed CHALLENGE_RESP, fresh sequence numbers"""
        rec["n"] += 1
        n = rec["n"]
        kind = rec["kind"]
        slot = sim.ctxt.temp_connections.get(rec["addr"])
        real = int(slot.token) if slot is not None else 0x40000001

        def ed(h, msgs):
            h = list(h)
            h[2] = (h[2] + n - 1) % 65535 + 1 if n > 1 else h[2]
            ms = (msgs[0][0] + n - 2) % 65535 + 1 if n > 1 else msgs[0][0]
            if kind == "wrong-token":
                body = [[ms, 3, token_payload(real ^ rng.choice([1, 0x100, 0x20000000]))]]
            elif kind == "token-zero":
                body = [[ms, 3, token_payload(0)]]
            elif kind == "token-of-another":
                others = [int(c.token) for p_ in (sim.ctxt.connections, sim.ctxt.temp_connections) for c in p_.values() if c.addr != rec["addr"] and c.token]
                body = [[ms, 3, token_payload(rng.choice(others) if others else 0x40000002)]]
            elif kind == "garbage-challenge":
                body = [[ms, 3, bytes(rng.randrange(256) for _ in range(rng.choice([0, 1, 4, 9])))]]
            elif kind == "app-typed-challenge":
                h[4] = 3
                body = [[ms, 6, b"app message in a datagram typed CHALLENGE_RESP"]]
            elif kind == "keepalive-typed-challenge":
                h[4] = 3
                body = [[ms, 4, b""]]
            else:
                body = [[ms, 3, token_payload(real ^ 1)], [ms % 65535 + 1, 5, b""]]
            if len(body) == 1:
                h[4] = 3 if kind not in ("app-typed-challenge", "keepalive-typed-challenge") else h[4]
            return h, body
        if kind in ("app-typed-challenge", "keepalive-typed-challenge"):
            # count 1: the header type IS the message type; a CHALLENGE_RESP-typed header is what passes the pool gate,
            # so these two send two messages (count 2: per-message types)
            def ed2(h, msgs, ed=ed):
                h, body = ed(h, msgs)
                return h, body + [[body[0][0] % 65535 + 1, body[0][1], body[0][2]]]
            return V.recraft(sim, rec["chal"], rec["kid"], ed2)
        return V.recraft(sim, rec["chal"], rec["kid"], ed)

    def edit(rec, d):
        if len(d) >= 20 and d[12] == 3 and rec["chal"] is None:
            rec["chal"], rec["kid"] = d, rec["hc"].key_id()
            rec["ticking"] = False           # from here on the peer is scripted (the real client would go on as if connected)
            rec["next"] = w.t + rng.choice([300, 1500, 4500, 15360, 27000])
            if rec["kind"] == "silent-after-hello":
                return None
            return wrong(rec)
        return d
    try:
        for st in range(nsteps):
            extra = []
            hc = honest["hc"]
            if hc.status() == 2 and rng.random() < 0.4 and st < nsteps - 14:
                p = b"h%d-%d-" % (idx, st) + bytes(rng.randrange(256) for _ in range(rng.choice([0, 3, 50])))
                hc.client.send(p)
                sent.append((st, p))
            if st in (2, 5, 9, 30, 60) and len(hostiles) < 5:
                a = ("10.9.%d.%d" % (idx % 200, len(hostiles) + 1), rng.choice([1, 53, 5000, 65535]))
                rec = w.add_client(a)
                rec.update({"kind": rng.choice(HALFOPEN_KINDS), "chal": None, "kid": -1, "n": 0, "next": None})
                rec["edit"] = edit
                hostiles.append(rec)
            for rec in hostiles:
                if rec["chal"] is not None and rec["kind"] != "silent-after-hello" and rec["next"] is not None and w.t >= rec["next"]:
                    if rec["addr"] in sim.ctxt.temp_connections or rng.random() < 0.3:
                        extra.append((rec["addr"], wrong(rec)))
                    rec["next"] = w.t + rng.choice([4500, 15360, 23000, 29000])
            n0 = len(sim.sends)
            alive = w.step(rng.choice([1500, 1500, 1545, 3000]), extra)      # multiples of 15 ticks (the 1/1024 s grid)
            for a, d in w.batches[-1]:
                inb[a] = inb.get(a, 0) + len(d)
                if len(d) >= 20 and d[12] == 1:
                    hellos_in[a] = hellos_in.get(a, 0) + 1
            for (k_, a, data) in sim.sends[n0:]:
                outb[a] = outb.get(a, 0) + len(data)
                dg_out[a] = dg_out.get(a, 0) + 1
            for o in sim.log[sim.marks[-2] if len(sim.marks) > 1 else 0:]:
                if o[0] == 0 and o[1][0] == 3:
                    connected_once.add(V.va(o[1][2]))
            for rec in hostiles:
                a = rec["addr"]
                if a in connected_once:
                    continue
                case = {"world": idx, "front": front, "step": st, "virtual_seconds": round((w.t - 100 * T) / T, 2), "addr": list(a),
                        "peer": rec["kind"], "wrong_answers_sent": rec["n"], "bytes_out": outb.get(a, 0), "bytes_in": inb.get(a, 0),
                        "datagrams_out": dg_out.get(a, 0), "hellos_in": hellos_in.get(a, 0)}
                slot = sim.ctxt.temp_connections.get(a)
                if slot is not None:
                    case["slot_status"] = {1: "CONNECTING", 2: "CONNECTED", 3: "DISCONNECTING", 4: "DISCONNECTED", 5: "DROPPED"}.get(slot.status.value)
                if outb.get(a, 0) > inb.get(a, 0):
                    run.oracle_violation("amplification towards an unconnected address", dict(case, what="amplification"),
                                         "server.py:send / connection.py")
                    connected_once.add(a)
                elif dg_out.get(a, 0) > hellos_in.get(a, 0) and a not in talkers:
                    run.oracle_violation("more than one datagram per client hello towards an address that never completed the handshake",
                                         dict(case, what="temp connection talks"), "connection.py:_build_packet_impl / _recvChallengeResponse")
                    talkers.add(a)
            if not alive:
                died_at = st
                run.oracle_violation("server loop died", {"what": "server loop died", "world": idx, "front": front, "step": st,
                                                          "exception": repr(sim.thread_exc)[:200]}, "server.py:UdpServerThread.run")
                break
        w.finish()
        diff = sim.check_model()
        got = set(honest["hc"].got)
        echoes = 0
        for st, p in sent:
            if b"echo:" + p[:600] in got:
                echoes += 1
            elif died_at is None:
                run.oracle_violation("honest client not served", {"what": "honest client not served", "world": idx, "front": front,
                                                                  "sent_at_step": st, "payload": p[:30]}, "server.py")
        if sim.internal:
            raise RuntimeError("harness-internal problem: %s" % sim.internal[:3])
        run.count("halfopen worlds")
        run.count("halfopen wrong answers", sum(r["n"] for r in hostiles))
        run.count("halfopen echoes", echoes)
        for r in hostiles:
            run.count("halfopen peer " + r["kind"])
            if r["addr"] in connected_once and not (outb.get(r["addr"], 0) > inb.get(r["addr"], 0)):
                pass
        if echoes >= 5 and sum(r["n"] for r in hostiles) >= 5:
            run.nt(("halfopen", idx, front, tuple(r["kind"] for r in hostiles)))
        return ["halfopen world %d" % idx, front, len(sim.steps)], [0] if diff is None else [1, diff]
    finally:
        w.close()

REFUSING_RULE = ("refusing-transport worlds (implementation only): 1-3 established echo clients behind twisted-reactor / threaded-reactor "
                 "(stub reactor inline or lagging up to 2 ticks; transport.write raises OSError for port 0 / limited broadcast / class E as "
                 "measured on this kernel); in 60% of the ticks 1-3 well-formed client hellos from fresh unanswerable source addresses "
                 "(+ ordinary fresh addresses, + garbage) arrive together with the honest clients' messages; non-trivial = world with >= 10 "
                 "echoes due in ticks in which a forged hello from an unanswerable address was answered")


def refusing_transport_world(run, rng, idx, front, hello):
    from harness import srvx as X
    policy = V.random_policy(rng, p_raise=0.0, echo=1.0, chatty=False)
    lag = rng.choice([0, 0, 1, 2])
    busy = {"n": 0}

    def reactor_busy(w):
        if busy["n"] > 0:
            busy["n"] -= 1
            return True
        if lag and rng.random() < 0.4:
            busy["n"] = rng.randrange(0, lag)
            return True
        return False
    w = X.WorldX(run, rng, cfg=(5 * T, 2 * T, 1536, T), blocklist=BLOCKED, policy=policy, full=False, front=front,
                 reactor_busy=reactor_busy)
    sim = w.sim
    if lag == 0:
        sim.reactor.inline = True
    honest = [w.add_client(("10.1.0.%d" % (i + 1), 5000 + i)) for i in range(rng.choice([1, 2, 3]))]
    sent = {id(r): [] for r in honest}
    nsteps = rng.randrange(60, 100) * (2 if run.thorough() else 1)
    kinds = [k for k in ("port0", "broadcast", "classE") if X.refused_by_os({"port0": ("10.9.9.9", 0), "broadcast": ("255.255.255.255", 4000),
                                                                             "classE": ("240.0.0.1", 4000)}[k])]
    nforged = 0
    forged_steps = set()
    died_at = None
    base = {"scenario": "refusing transport", "world": idx, "front": front, "reactor_lag_ticks_up_to": lag}
    try:
        for st in range(nsteps):
            extra = []
            talking = False
            for rec in honest:
                hc = rec["hc"]
                if hc.status() == 2 and rng.random() < 0.7 and st < nsteps - 12:
                    p = b"r%d-%d-" % (idx, st) + bytes(rng.randrange(256) for _ in range(rng.choice([0, 3, 50, 700])))
                    hc.client.send(p)
                    sent[id(rec)].append((st, p))
                    talking = True
            if all(r["hc"].status() == 2 for r in honest) and rng.random() < 0.6:
                for _ in range(rng.choice([1, 1, 2, 3])):
                    nforged += 1
                    k = rng.choice(kinds + ["port0"])
                    if k == "port0":
                        a = ("10.8.%d.%d" % (nforged // 250, nforged % 250 + 1), 0)
                    elif k == "broadcast":
                        a = ("255.255.255.255", 1024 + nforged)
                    else:
                        a = ("%d.%d.%d.%d" % (rng.randrange(240, 256), rng.randrange(256), nforged // 250, nforged % 250 + 1), 1024 + nforged)
                    if a[0] == "255.255.255.255" and a in sim.ctxt.temp_connections:
                        continue
                    extra.append((a, hello))
                    forged_steps.add(st)
                if rng.random() < 0.4:
                    extra.append((("10.7.%d.%d" % (nforged // 250, nforged % 250 + 1), 4000), hello))      # answerable
                if rng.random() < 0.3:
                    extra.append(((rng.choice(BLOCKED), 4444), hello))
                rng.shuffle(extra)
            alive = w.step(rng.choice([300, 300, 600]), extra)
            if not alive:
                died_at = st
                run.oracle_violation("server loop died", dict(base, what="server loop died", step=st, exception=repr(sim.thread_exc)[:200]),
                                     "server.py:UdpServerThread.run")
                break
        for _ in range(4):
            if died_at is None:
                w.step(300, [])
        w.finish()
        for wr in sim.written:
            if wr["addr"][0] in BLOCKED:
                run.oracle_violation("reply to a blocked IP", dict(base, what="reply to blocked ip", addr=list(wr["addr"])), "twisted.py gate")
        echoes, in_forged = 0, 0
        for rec in honest:
            got = set(rec["hc"].got)
            for st, p in sent[id(rec)]:
                if b"echo:" + p[:600] in got:
                    echoes += 1
                    # the echo is built one or two loop iterations after the tick the message was fed in
                    if {st, st + 1, st + 2} & forged_steps:
                        in_forged += 1
                elif died_at is None:
                    near = sorted(x for x in forged_steps if st - 1 <= x <= st + 3)
                    run.oracle_violation("honest client not served",
                                         dict(base, what="honest client not served", client=list(rec["addr"]), sent_at_step=st, payload=p[:30],
                                              forged_hellos_from_unanswerable_addresses_in_steps=near,
                                              writes_refused_by_transport=len(sim.refused_writes),
                                              reactor_errors=[e for e in sim.reactor.errors if st - 1 <= e[0] <= st + 4][:3]),
                                         "server.py:UdpServerThread.run (order of the batch) / twisted.py:sendPacketsUnsafe")
        if sim.internal:
            raise RuntimeError("harness-internal problem: %s" % sim.internal[:3])
        run.count("refusing-transport worlds")
        run.count("refusing-transport worlds behind " + front)
        run.count("refusing-transport forged hellos", nforged)
        run.count("refusing-transport writes refused", len(sim.refused_writes))
        run.count("refusing-transport echoes", echoes)
        run.evaluations += len(sim.steps)
        if in_forged >= 10 and sim.refused_writes:
            run.nt(("refusing", idx, front, echoes, len(sim.refused_writes)))
        if idx < 2:
            run.sample(dict(base, steps=len(sim.steps), echoes=echoes, forged=nforged, refused=len(sim.refused_writes), kinds=kinds))
    finally:
        w.close()



# ------------------------------------------------------------------ the block list changes while the server runs

LIVE_RULE = ("live-block-list worlds: behind every front door (TwistedServer.datagramReceived with a fresh / its own thread, ThreadedServer, the socket "
             "loop _UdpServer.run on a scripted socket), configured before or after construction, the block list of the RUNNING server is changed every "
             "6-14 ticks: ServerContext.setBlockList with a NEW set (add / remove / replace / empty) or the installed set mutated in place (add / "
             "discard / clear), from the harness thread while the loop sits in handler.update, from inside handler.update, or from inside "
             "handle_message; 4 subject IPs send well-formed full-size client hellos, header+junk, random bytes and flipped copies of real datagrams "
             "from changing ports in every tick, and real UdpClients (echo users) live on the subject IPs before and after each change.  Oracle, "
             "datagram by datagram at the queue behind the front door, with the list the harness computed from the operations (not read back from the "
             "server): blocked => not queued, not blocked and well-formed header => queued; no pool entry and no byte out for an address of a "
             "blocked IP that had no state when the block came into force; no connect / message event from a blocked IP; a real client started on "
             "an IP after it was unblocked connects and gets its echo; the never-blocked honest client is served throughout.  Correspondence: unit "
             "srv_gate with the list in force per datagram against the observed queue, and srv_run on the script with the per-step list applied "
             "(datagrams of IPs blocked at their tick removed, model block list empty); non-trivial = world with >= 3 changes, >= 20 datagrams from "
             "blocked IPs after a change and >= 1 re-served IP")
SUBJECTS = ["10.7.0.1", "10.7.0.2", "10.7.0.3", "::ffff:10.7.0.4"]


def blocklist_change_world(run, rng, idx, front, hello):
    from harness import srvx as X
    base_policy = V.random_policy(rng, p_raise=0.0, echo=1.0, chatty=False)
    cfg = rng.choice([(5 * T, 2 * T, 1536, T), (6000, 3000, 1536, 7680), (9000, 4500, 1536, T)])
    initial = set(rng.sample(SUBJECTS, rng.choice([0, 1, 1, 2]))) | set(rng.sample(BLOCKED, rng.choice([0, 1])))
    state = {"inforce": set(initial), "pending": [], "ops": [], "executed_in_step": None}
    allowed = {}          # blocked ip -> addresses that had state when the block came into force (may still be written to / time out)
    fix_allowed = []      # ips blocked from inside a handler event in the current step: their `allowed` is taken at the end of the step

    def execute(sim, op, ips, site):
        before = set(state["inforce"])
        sim.block_op(op, ips)
        if op in ("set-add", "inplace-add"):
            state["inforce"] |= set(ips)
        elif op in ("set-remove", "inplace-remove"):
            state["inforce"] -= set(ips)
        elif op == "set-replace":
            state["inforce"] = set(ips)
        else:
            state["inforce"] = set()
        for ip in state["inforce"] - before:
            allowed[ip] = set(a for pool in (sim.ctxt.connections, sim.ctxt.temp_connections) for a in list(pool) if a[0] == ip)
            if site != "harness":
                fix_allowed.append(ip)
        for ip in before - state["inforce"]:
            allowed.pop(ip, None)
        state["ops"].append({"before_harness_step": len(sim.steps) - 1 if site == "harness" else len(sim.steps), "op": op, "ips": sorted(ips), "site": site, "in_force_after": sorted(state["inforce"])})

    def policy(sim, n, ev):
        acts, raises = base_policy(sim, n, ev)
        pend = state["pending"]
        if pend and ((pend[0][2] == "update" and ev[0] == 2) or (pend[0][2] == "message" and ev[0] == 4)):
            op, ips, site = pend.pop(0)
            execute(sim, op, ips, site)
        return acts, raises

    configure = "between" if (idx // len(X.FRONTS)) % 2 else "before"
    w = X.WorldX(run, rng, cfg=cfg, blocklist=sorted(initial), policy=policy, full=True, front=front, configure=configure)
    sim = w.sim
    flags = {}            # model step index -> [blocked?] per datagram of its batch
    gate_cases, gate_impl = [], []
    cur = {"st": -1}
    stats = {"blocked_after_change": 0, "reserved": 0, "queued": 0}
    base = {"world": idx, "front": front, "configure": configure, "initial_block_list": sorted(initial)}

    def last_op():
        return state["ops"][-1] if state["ops"] else None

    def probe(addr, raw, queued):
        bl = state["inforce"]
        blocked = addr[0] in bl
        flags.setdefault(len(sim.steps), []).append(blocked)
        if addr != V.SENTINEL:
            gate_cases.append([[V.ipid(x) for x in sorted(bl)], V.av(addr), raw])
            gate_impl.append([1, S.unpack_header(S.pack_header(hdr_list(queued[-1][1])))] if queued else [0])
        if blocked and state["ops"]:
            stats["blocked_after_change"] += 1
        if queued:
            stats["queued"] += 1
        if blocked and queued:
            run.oracle_violation("datagram from a block-listed IP reached the server's queue",
                                 dict(base, what="blocked ip queued", step=cur["st"], addr=list(addr), raw=raw[:24], block_list_in_force=sorted(bl),
                                      last_change=last_op(), server_reports=sorted(sim.ctxt.blocklist)), "server.py _UdpServer.run / twisted.py datagramReceived gate")
        if not blocked and not queued:
            try:
                from mpgameserver.connection import PacketHeader
                PacketHeader.from_bytes(True, raw)
                wellformed = True
            except Exception:
                wellformed = False
            if wellformed:
                run.oracle_violation("well-formed datagram from an IP that is not block-listed was discarded at the front door",
                                     dict(base, what="unblocked ip not queued", step=cur["st"], addr=list(addr), raw=raw[:24],
                                          block_list_in_force=sorted(bl), last_change=last_op()), "server.py _UdpServer.run / twisted.py datagramReceived gate")
    sim.feed_probe = probe

    honest = w.add_client(("10.1.0.1", 5000))
    sent = []
    subjects = {}         # ip -> list of client records (real UdpClients on that IP)
    nport = {"n": 0}
    reserve = []          # {"ip", "rec", "since", "payload"}: a client started after its IP was unblocked
    nsteps = rng.randrange(70, 100) * (2 if run.thorough() else 1)
    next_op = rng.randrange(6, 12)
    died_at = None
    cid_addr = {}

    def add_subject(ip):
        nport["n"] += 1
        rec = w.add_client((ip, 6000 + nport["n"]))
        subjects.setdefault(ip, []).append(rec)
        return rec
    try:
        for st in range(nsteps):
            cur["st"] = st
            if st == 1:
                for ip in SUBJECTS:
                    if rng.random() < 0.7:
                        add_subject(ip)
            # ---- a change of the block list
            if st == next_op and not state["pending"]:
                next_op = st + rng.randrange(6, 15)
                inf = state["inforce"]
                outside = [x for x in SUBJECTS if x not in inf]
                inside = [x for x in SUBJECTS if x in inf]
                kinds = (["set-add", "set-add", "inplace-add"] if outside else []) + (["set-remove", "inplace-remove"] if inside else []) \
                    + ["set-replace"] + (["set-empty", "inplace-clear"] if inside and rng.random() < 0.3 else [])
                op = rng.choice(kinds)
                if op in ("set-add", "inplace-add"):
                    ips = rng.sample(outside, min(len(outside), rng.choice([1, 1, 2])))
                elif op in ("set-remove", "inplace-remove"):
                    ips = rng.sample(inside, min(len(inside), rng.choice([1, 1, 2])))
                elif op == "set-replace":
                    ips = rng.sample(SUBJECTS, rng.choice([1, 2, 3])) + rng.sample(BLOCKED, rng.choice([0, 1]))
                else:
                    ips = []
                site = rng.choice(["harness", "harness", "update", "message"])
                if site == "harness":
                    execute(sim, op, ips, site)
                else:
                    state["pending"].append((op, ips, site))
            # ---- the users
            hc = honest["hc"]
            if hc.status() == 2 and rng.random() < 0.5 and st < nsteps - 14:
                p = b"h%d-%d-" % (idx, st) + bytes(rng.randrange(256) for _ in range(rng.choice([0, 3, 50])))
                hc.client.send(p)
                sent.append((st, p))
            for ip, recs_ in subjects.items():
                for rec in recs_:
                    if rec["hc"].status() == 2 and rng.random() < 0.4:
                        rec["hc"].client.send(b"u%d-%d-" % (idx, st) + bytes(rng.randrange(256) for _ in range(rng.choice([0, 5, 60]))))
            # ---- hostile traffic of the subject IPs (and of the statically blocked ones)
            extra = []
            for ip in SUBJECTS + BLOCKED[:1]:
                for _ in range(rng.choice([0, 1, 1, 2, 3])):
                    a = (ip, rng.choice([4444, 4444, 4445, 4446 + st % 7, 1]))
                    k = rng.choice(["hello", "hello", "hdr+junk", "rand", "flip", "spoof-own-client"])
                    if k == "hello":
                        d = hello
                    elif k == "hdr+junk":
                        n = rng.choice([0, 4, 16, 100])
                        d = S.pack_header([1, rng.getrandbits(32), rng.randrange(65536), rng.randrange(65536), rng.randrange(8),
                                           rng.choice([0, n, max(0, n - 4)]), rng.choice([0, 1, 2]), rng.getrandbits(32)]) + bytes(rng.randrange(256) for _ in range(n))
                    elif k == "rand":
                        d = bytes(rng.randrange(256) for _ in range(rng.choice([1, 19, 20, 33, 200])))
                    else:
                        src = bytearray(rng.choice(w.sent_hist)[1] if w.sent_hist else hello)
                        src[rng.randrange(len(src))] ^= 1 << rng.randrange(8)
                        d = bytes(src)
                        if k == "spoof-own-client" and subjects.get(ip):
                            a = rng.choice(subjects[ip])["addr"]
                    extra.append((a, d))
            rng.shuffle(extra)
            inforce_at_feed = set(state["inforce"])
            n0, l0 = len(sim.sends), len(sim.log)
            alive = w.step(rng.choice([150, 300, 300, 600]), extra)
            # ---- after the tick
            for ip in fix_allowed:
                if ip in state["inforce"]:
                    allowed[ip] = set(a for pool in (sim.ctxt.connections, sim.ctxt.temp_connections) for a in list(pool) if a[0] == ip)
            del fix_allowed[:]
            for c in sim.keep:
                if hasattr(c, "addr") and id(c) in sim.objs:
                    cid_addr[sim.objs[id(c)]] = c.addr
            for pool in (sim.ctxt.connections, sim.ctxt.temp_connections):
                for a in list(pool):
                    if a[0] in state["inforce"] and a[0] in inforce_at_feed and a not in allowed.get(a[0], ()):
                        run.oracle_violation("state for a blocked IP", dict(base, what="state for blocked ip", step=st, addr=list(a),
                                                                           block_list_in_force=sorted(state["inforce"]), last_change=last_op(),
                                                                           server_reports=sorted(sim.ctxt.blocklist)), "server.py gate")
                        allowed.setdefault(a[0], set()).add(a)
            for (k_, a, data) in sim.sends[n0:]:
                if a[0] in state["inforce"] and a[0] in inforce_at_feed and a not in allowed.get(a[0], ()):
                    run.oracle_violation("reply to a blocked IP", dict(base, what="reply to blocked ip", step=st, addr=list(a), bytes=len(data),
                                                                      block_list_in_force=sorted(state["inforce"]), last_change=last_op()), "server.py gate")
            for o in sim.log[l0:]:
                if o[0] == 0 and o[1][0] in (3, 4):
                    a = cid_addr.get(o[1][1])
                    if a is not None and a[0] in inforce_at_feed:
                        run.oracle_violation("handler event caused by a datagram from a blocked IP",
                                             dict(base, what="event from blocked ip", step=st, addr=list(a), event={3: "connect", 4: "handle_message"}[o[1][0]],
                                                  block_list_in_force=sorted(inforce_at_feed), last_change=last_op()), "server.py gate")
            # a fresh real client on every IP that is not blocked any more
            for ip in SUBJECTS:
                if ip not in state["inforce"] and ip in inforce_at_feed and st < nsteps - 30:
                    rec = add_subject(ip)
                    reserve.append({"ip": ip, "rec": rec, "since": st, "payload": b"back-%d-%d" % (idx, st), "sent": False, "done": False})
            for r in reserve:
                if r["done"]:
                    continue
                if r["ip"] in state["inforce"]:
                    r["done"] = True          # blocked again before it was through: nothing is promised
                    continue
                hc_ = r["rec"]["hc"]
                if hc_.status() == 2 and not r["sent"]:
                    hc_.client.send(r["payload"])
                    r["sent"] = True
                if b"echo:" + r["payload"] in hc_.got:
                    r["done"] = True
                    stats["reserved"] += 1
                elif st - r["since"] > 25 and alive:
                    r["done"] = True
                    run.oracle_violation("real client on an IP that was taken off the block list is not served",
                                         dict(base, what="unblocked ip not served", step=st, addr=list(r["rec"]["addr"]), unblocked_at_step=r["since"],
                                              client_status=hc_.status(), block_list_in_force=sorted(state["inforce"]), last_change=last_op()), "server.py gate")
            if not alive:
                died_at = st
                run.oracle_violation("server loop died", dict(base, what="server loop died", step=st, exception=repr(sim.thread_exc)[:200]),
                                     "server.py:UdpServerThread.run")
                break
        w.finish()
        # ---- correspondence: the per-datagram gate, and the run with the per-step list applied
        model = run.model.call_many("srv_gate", gate_cases)
        run.compare("srv_gate", [["live:" + front, c[0], c[1], c[2][:24]] for c in gate_cases], gate_impl, model)
        script = sim.model_script()
        script[2] = []
        for k, step in enumerate(script[4]):
            fl = flags.get(k, [])
            if len(fl) != len(step[2]):
                raise RuntimeError("harness: %d datagrams fed but %d in the script of step %d" % (len(fl), len(step[2]), k))
            step[2] = [it for it, f in zip(step[2], fl) if not f]
        sim.model_script = lambda: script
        diff = sim.check_model()
        got = set(honest["hc"].got)
        echoes = 0
        for st_, p in sent:
            if b"echo:" + p[:600] in got:
                echoes += 1
            elif died_at is None:
                run.oracle_violation("honest client not served", dict(base, what="honest client not served", sent_at_step=st_, payload=p[:30]), "server.py")
        if sim.internal:
            raise RuntimeError("harness-internal problem: %s" % sim.internal[:3])
        run.count("live-block-list worlds")
        run.count("live-block-list worlds behind " + front)
        run.count("live-block-list changes", len(state["ops"]))
        for o in state["ops"]:
            run.count("live-block-list op %s (%s)" % (o["op"], o["site"]))
        run.count("live-block-list datagrams from blocked IPs after a change", stats["blocked_after_change"])
        run.count("live-block-list IPs served again", stats["reserved"])
        run.count("live-block-list echoes", echoes)
        if len(state["ops"]) >= 3 and stats["blocked_after_change"] >= 20 and stats["reserved"] >= 1:
            run.nt(("live-block-list", idx, front, tuple(o["op"] for o in state["ops"])))
        if idx < 2:
            run.sample(dict(base, steps=len(sim.steps), changes=[(o["before_harness_step"], o["op"], o["site"]) for o in state["ops"]], echoes=echoes,
                            blocked_after_change=stats["blocked_after_change"], served_again=stats["reserved"]))
        return ["live block list world %d" % idx, front, configure, len(sim.steps), len(state["ops"])], [0] if diff is None else [1, diff]
    finally:
        w.close()


def blocklist_change_worlds(run, rng, hello):
    from harness import srvx as X
    run.rules.append(LIVE_RULE)
    cases, impl, model = [], [], []
    fronts = list(X.FRONTS) + ["udpserver"]
    n = 60 if run.thorough() else 10
    tot = {"ops": 0}
    for i in range(n):
        c, d = blocklist_change_world(run, rng, i, fronts[i % len(fronts)], hello)
        cases.append(c)
        impl.append([0])
        model.append(d)
        tot["ops"] += c[4]
    if tot["ops"] < n:
        raise RuntimeError("harness: the live-block-list worlds changed the block list only %d times" % tot["ops"])
    run.compare("srv_run", cases, impl, model)


def run(run):
    run.rules.append(RULE)
    run.notes.append("kernel refuses sendto(port 0): %s" % V.os_refuses_port0())
    if not V.os_refuses_port0():
        run.notes.append("mock socket assumption not confirmed on this host")
    gate_cases(run)
    sizes, hello = hello_sizes(run)
    run.notes.append("measured sizes: %r" % (sizes,))
    if not (sizes["server_hello"] and sizes["server_hello"] <= sizes["min_accepted_client_hello"]):
        run.oracle_violation("server hello larger than the smallest accepted client hello",
                             {"what": "hello size premise", "sizes": sizes}, "connection.py:HandshakeClientHelloMessage")
    if sizes["min_accepted_client_hello"] != sizes["client_hello"]:
        run.oracle_violation("a client hello with shortened padding is accepted",
                             {"what": "short hello accepted", "sizes": sizes}, "connection.py:HandshakeClientHelloMessage.deserialize")
    n = 250 if run.thorough() else 40
    cases, impl, model = [], [], []
    for i in range(n):
        c, d = world(run, run.rng, i, sizes, hello)
        cases.append(c)
        impl.append([0])
        model.append(d)
    from harness import srvx as X
    run.rules.append(HALFOPEN_RULE)
    for i in range(120 if run.thorough() else 8):
        c, d = halfopen_world(run, run.rng, i, X.FRONTS[i % len(X.FRONTS)])
        cases.append(c)
        impl.append([0])
        model.append(d)
    run.compare("srv_run", cases, impl, model)
    blocklist_change_worlds(run, run.rng, hello)
    run.rules.append(REFUSING_RULE)
    run.notes.append("transport refuses: port 0 (always), limited broadcast: %s, class E: %s (measured)" % (
        X.refused_by_os(("255.255.255.255", 4000)), X.refused_by_os(("240.0.0.1", 4000))))
    with X.logging_enabled():
        for i in range(60 if run.thorough() else 10):
            refusing_transport_world(run, run.rng, i, X.REACTOR_FRONTS[i % 2], hello)
