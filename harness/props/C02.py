"""C02 — the three-message handshake authenticates the server, agrees one key, promotes on proof of key.

Real endpoints (UdpClient + ClientServerConnection, ServerClientConnection + ServerContext) are
driven through harness/connsim.py with REAL ECDSA / ECDH+HKDF / AES-GCM.  Every endpoint history is
compared (outputs + full state snapshot after every event)
  * with the Conn.v model fed the oracle answers connsim computes from the bytes (unit conn_run), and
  * with the SYMBOLIC model of coq/Model/Handshake.v (unit hs_run): the harness abstracts the real
    keys / signatures / session keys to Dolev-Yao terms (harness/hsworld.py) and the model computes
    the oracle answers itself (verify, dh, kdf, token comparison with the temp pool);
ServerContext.get_token/_validateChallengeResponse/_onConnect are compared with unit ctx_ops.
Oracle: the property restated on the implementation alone (see oracle_* below).  "The key the client is configured
with" is the key handed to UdpClient(...) by the harness, remembered HERE (and in connsim's hs_oracles) — not whatever
the connection object holds at the moment it judges a hello.
Late datagrams: handshake datagrams (genuine, re-signed, foreign, replayed, altered) are also delivered AFTER every
terminal state of the client (connect time-out fired; dropped by a bad signature; closed by the application; closed by
the peer; DROPPED) and of the server connection (kicked by the application, challenge never answered).
Run-level ghost (coq/Model/HsNet.v): the set of hello payloads the genuine server has built so far (this session's
server connection + other sessions); a pinned client may only ever adopt a member of that set.
Repeated connect() (reconnect_worlds, implementation only): the PUBLIC UdpClient API with its socket handling — connect()
is called again on the same UdpClient before any answer, while the server hello of the previous attempt is in flight,
after the handshake completed, after the connect time-out, after disconnect() (and combinations).  Every socket the
client opens gets its own local port; a miniature of the server loop's dispatch (server.py: connections / temp pool /
new hello, keyed by the sender's (address, port)) answers, and every answer is routed to the socket bound to the port
it is addressed to, read or not — as a real network does.  Oracle, after every step: whenever the client reports
CONNECTED (status or connect callback True), the server-side connection for the address of the client's CURRENT socket
holds the same 16-byte key and the same token; after the network is quiet that connection has been promoted."""
import struct, io, os
from harness import lib
from harness import connsim as S
from harness import netsim as N
from harness import hsworld as W

T = S.TICKS

RULE = ("sessions = one real client + one real server-side connection + an attacker holding its own ECDSA/ECDH keys; "
        "schedules: the honest order, every single loss / duplication / swap of the three datagrams, random schedules "
        "(deliver any emitted datagram any number of times, ticks, clock advances up to the hello time-out); attacker: "
        "every header field and payload region of each of the three datagrams rewritten (CRC recomputed and not), "
        "every field of the server hello substituted (root key, ephemeral key, salt, token, signature), hello re-signed "
        "with a fresh key (announcing its own or the genuine root key), hello replayed from another session, challenge "
        "with wrong token / wrong key / garbled / in clear / duplicated / missing, clear multi-message datagrams "
        "(the D1/D2 shape), pinned and unpinned clients; the genuine hello and every attacker variant of it delivered "
        "AFTER each terminal state of the client (connect time-out, bad signature, closed by the application / by the peer, "
        "DROPPED) and handshake datagrams handed to a kicked / expired server connection; non-trivial = a datagram reaches _recv_datagram of an endpoint "
        "whose handshake is in progress and is not the next honest datagram in order")
ASSUMPTIONS = [
    "perfect cryptography (premises of the theorems): ECDSA verify(pub sk) s m <-> s = sign sk m and a signature names "
    "its signer; ECDH commutes; AES-GCM opens only what was sealed under the same key with the same header",
    "honest_agree needs loadb(dumpb(m)) = m for the three handshake classes (Serializable codec: property C13)",
    "the secrecy of the session key against a passive attacker (CDH/HKDF) is not stated; a hello replayed from another "
    "session of the same server is signed by the right key and is adopted (the client then never completes: "
    "C02_run_foreign_hello_never_completes, under the AES-GCM hypothesis that what the server connection opens under "
    "its key was sealed by this client)",
    "run-level theorems: Dolev-Yao hypothesis on the hellos presented to the client (a root signature only on payloads "
    "the root key holder signed earlier: by this server connection or by another session); the server connection's "
    "events are unconstrained",
]
TRUSTED = [
    "harness/hsworld.py: the abstraction function from real keys/signatures/session keys to symbolic terms "
    "(uses the private keys the harness generated; signer found by real verification, key by real ECDH+HKDF)",
    "cryptography/OpenSSL (ECDSA P-256, ECDH, HKDF-SHA256, AES-128-GCM): modelled symbolically, sampled not verified",
    "the server loop's pools (which connection object receives a datagram) are modelled by another property (C10); "
    "here the connection under study is in ctxt.temp_connections as the loop leaves it",
]


# ------------------------------------------------------------------ log tap

class LogTap:
    """the hello / challenge time-out callbacks only log; Conn.v reports them as OLog outputs"""
    CODES = {"unable to connect to server": 1, "no response to challenge": 2}
    current = None       # the connsim.Impl whose event is running

    def __init__(self, orig):
        self.orig = orig

    def __getattr__(self, name):
        return getattr(self.orig, name)

    def error(self, msg, *a, **k):
        code = self.CODES.get(msg)
        if code is not None and LogTap.current is not None:
            LogTap.current.cblog.append([5, code])

    def warning(self, *a, **k):
        pass


def install_logtap():
    import mpgameserver.connection as CM
    if not isinstance(CM.mplogger, LogTap):
        CM.mplogger = LogTap(CM.mplogger)

# ------------------------------------------------------------------ one session

PIN_REPORTS = [0]


class Session:
    def __init__(self, run, pinned=True, with_cb=True):
        self.run = run
        self.world = W.World()
        self.keys = W.DYKeys(self.world)
        self.rid = self.world.reg(S.root_key())
        S.CLOCK.t = T * 100
        self.t = S.CLOCK.t
        self.env = S.env_for_mtu(1500)
        self.pinned = pinned
        self.cfg_pin = S.root_key().getPublicKey() if pinned else None     # what the client is CONFIGURED with
        self.with_cb = with_cb
        self.C = N.Endpoint("client", self.keys, None, established=False, pinned=pinned)
        self.Sv = N.Endpoint("server", self.keys, None, established=False)
        self.world.watch(self.C.impl)
        self.world.watch(self.Sv.impl)
        self.sid = self.world.reg(self.Sv.impl.conn.session_key)
        self.cid = None
        self.out = {"client": [], "server": []}       # raw datagrams emitted
        self.delivered = {"client": [], "server": []}  # raw datagrams handed to _recv_datagram
        self.extras = {"client": [], "server": []}     # impl-side extras after each logged event
        self.rand = []                                 # (salt id, token) generated by the server
        self.shello = []                               # (salt id, hello payload bytes)
        self.chal = []                                 # (token, challenge payload bytes)
        self.adopted = []                              # client ghost
        self.genuine = set()                           # run ghost: signed parts of the hellos THIS server connection built
        self.issued = None                             # token issued with the last server hello
        self.connects = 0
        self.oracle_fail = []
        self.nontrivial = 0
        self.log = []                                  # human-readable script for replays
        self.hello_time = None
        self.skipped_sym = None

    # -- helpers
    def ep(self, who):
        return self.C if who == "client" else self.Sv

    def advance(self, dt):
        self.t += dt
        S.CLOCK.t = self.t
        self.log.append(("adv", dt))

    def all_key_ids(self):
        ids = []
        for e in (self.C, self.Sv):
            c = e.impl.conn
            if c is not None and c.session_key_bytes:
                ids.append(self.keys.id_of(c.session_key_bytes))
        return ids + list(getattr(self, "extra_key_ids", []))

    def _apply(self, who, ev, delivered=None):
        e = self.ep(who)
        conn0 = e.impl.conn
        pre = self._pre(who, conn0)
        LogTap.current = e.impl
        try:
            outs = e.apply(ev)
        finally:
            LogTap.current = None
        conn = e.impl.conn
        mev = e.mevs[-1]
        # connsim reads the challenge reply from the queue; when it left in the same update take it
        # from the emitted datagram
        orcs = None
        if mev[0] == 1 and len(mev[2]) > 2:
            orcs = mev[2][2]
        elif mev[0] == 3:
            orcs = mev[3]
        if who == "client" and orcs:
            for o in orcs:
                if o[0] == 0 and o[4] == b"":
                    for x in outs:
                        if x[0] == 0 and x[1][4] == 3 and len(x[3]) >= 2:
                            o[4] = bytes(x[3][2:])
        raws = list(getattr(e.impl, "last_sent", [])) if ev[0] in ("ctick", "stick") else []
        for d in raws:
            self.out[who].append(bytes(d))
        self._post(who, conn, pre, outs, delivered, orcs)
        return outs

    def _pre(self, who, conn):
        if conn is None:
            return {"key": None, "status": None, "salt": None, "n_handler": 0}
        return {"key": conn.session_key_bytes, "status": conn.status.value, "salt": getattr(conn, "session_salt", None),
                "token": conn.token,
                "n_handler": len(self.Sv.impl.handler.events) if who == "server" else 0}

    def _post(self, who, conn, pre, outs, delivered, orcs):
        w = self.world
        if who == "server":
            if conn.session_salt is not None and conn.session_salt is not pre["salt"]:
                sid_ = w.note_salt(conn.session_salt)
                self.rand.append([sid_, int(conn.token)])
                q = conn.outgoing_messages
                if q and q[-1].type.value == 2:
                    self.shello.append([sid_, bytes(q[-1].payload)])
                    self.genuine.add(bytes(W.split_server_hello(bytes(q[-1].payload))[1]))
                self.issued = int(conn.token)
            other = self.Sv.impl.ctxt.temp_connections.get(conn.addr)
            temp = -1 if other is None else (-2 if other is conn else int(other.token))
            self.extras["server"].append([temp, len(self.rand)])
            self.oracle_server(conn, pre, delivered)
        else:
            if conn is not None:
                for x in outs:
                    if x[0] == 0 and x[1][4] == 3 and len(x[3]) >= 2 and x[2] != -2:
                        self.chal.append([int(conn.token), bytes(x[3][2:])])
                if orcs:
                    for o in orcs:
                        if o[0] == 0 and o[4]:
                            self.chal.append([int(o[2]), bytes(o[4])])
                self.oracle_client(conn, pre, delivered)
            self.extras["client"].append(list(self.adopted[-1]) if self.adopted else [])

    def pre_abstract(self, d):
        """let the world see the keys / salts a datagram carries before connsim names the derived key"""
        try:
            h, b = S.abstract(d, self.keys, self.all_key_ids())
            if b[0] == 2:
                return
            for seq, typ, p in S.decode_msgs_py(h[4], h[6], b[3] if b[0] == 0 else b[1]) or []:
                if typ in (1, 2, 3):
                    try:
                        self.world.abstract_msg(p)
                    except W.Unabstractable:
                        pass
        except Exception:   # noqa
            pass

    # -- actions
    def connect(self):
        self._apply("client", ("hello", self.t, self.with_cb))
        self.cid = self.world.reg(self.C.impl.conn.session_key)
        self.hello_time = self.t
        self.log.append(("connect",))

    def ctick(self, d=None):
        if self.C.impl.conn is None:
            return
        rx = None
        if d is not None:
            from mpgameserver.connection import PacketHeader
            try:
                PacketHeader.from_bytes(False, d)
                self.pre_abstract(d)
                rx = ("dg", d, self.all_key_ids())
                self.delivered["client"].append(d)
            except Exception:   # noqa
                rx = ("bad", d)
        self.log.append(("ctick", None if d is None else d.hex()))
        return self._apply("client", ("ctick", self.t, rx), delivered=d if rx and rx[0] == "dg" else None)

    def srecv(self, d):
        from mpgameserver.connection import PacketHeader
        try:
            PacketHeader.from_bytes(True, d)
        except Exception:   # noqa
            self.run.count("gate-refused")
            return None
        self.pre_abstract(d)
        self.delivered["server"].append(d)
        self.log.append(("srecv", d.hex()))
        return self._apply("server", ("recv", self.t, d, self.all_key_ids()), delivered=d)

    def stick(self):
        self.log.append(("stick",))
        return self._apply("server", ("stick", self.t))

    def cdisc(self):
        """the application closes the client: UdpClient.disconnect()"""
        if self.C.impl.conn is None:
            return
        self.log.append(("cdisc",))
        return self._apply("client", ("disc",))

    def sdisc(self):
        """the application kicks the client: ServerClientConnection.disconnect()"""
        self.log.append(("sdisc",))
        return self._apply("server", ("disc",))

    # -- the property, restated on the implementation alone
    def fail(self, what, site, **kw):
        case = {"what": what, "pinned": self.pinned, "script": [list(x) for x in self.log[-40:]]}
        case.update(kw)
        self.oracle_fail.append((what, case, site))

    def parse_msgs(self, d, key):
        """independent decode of a delivered datagram: (sealed_ok, [(type, payload)]) under `key`"""
        from cryptography.hazmat.primitives.ciphers.aead import AESGCM
        try:
            ident, ctime, seq, ack, typ, ln, cnt, bits = struct.unpack(">4sLHHBHBL", d[:20])
        except Exception:   # noqa
            return False, []
        sealed = False
        p = None
        if key:
            try:
                p = AESGCM(key).decrypt(d[:12], d[20:20 + ln + 16], d[:20])
                sealed = True
            except Exception:   # noqa
                p = None
        if p is None:
            import binascii
            data = d[:20 + ln]
            if len(d) >= 24 + ln and struct.unpack(">L", d[20 + ln:24 + ln])[0] == (binascii.crc32(data) & 0xFFFFFFFF):
                p = data[20:]
            else:
                return False, []
        ms = S.decode_msgs_py(typ, cnt, p)
        return sealed, [(t, pl) for _, t, pl in (ms or [])]

    def oracle_client(self, conn, pre, d):
        from mpgameserver.serializable import Serializable
        from mpgameserver import crypto
        key = conn.session_key_bytes
        if self.pinned:
            held = getattr(conn, "server_public_key", None)
            if (held is None or held.getBytes() != self.cfg_pin.getBytes()) and not getattr(self, "pin_reported", False) \
                    and PIN_REPORTS[0] < 3:
                self.pin_reported = True          # once per session (it stays that way), three sessions per run
                PIN_REPORTS[0] += 1
                self.fail("client configured with the server's public key no longer holds that key",
                          "ClientServerConnection.server_public_key", status=conn.status.value,
                          holds=None if held is None else "another key")
        if conn.status.value == 2 and not key:
            self.fail("client CONNECTED without a session key", "ClientServerConnection")
        if key is not None and len(key) != 16:
            self.fail("session key is not 16 bytes", "ClientServerConnection")
        if pre["key"] is not None and d is not None and \
                (key != pre["key"] or conn.token != pre.get("token") or (pre["status"] == 2 and conn.status.value != 2)):
            # a client that already holds a session key changed key / token / left CONNECTED while
            # processing a datagram: only a datagram sealed under the key it held may do that
            sealed, _ = self.parse_msgs(d, pre["key"])
            if not sealed:
                self.fail("client holding a session key changed key/token/status on a datagram not sealed under that key",
                          "Packet.from_bytes / ClientServerConnection._recvServerHello",
                          rekeyed=key != pre["key"], status=conn.status.value)
        if key != pre["key"] or (conn.status.value == 2 and pre["status"] != 2):
            # the key / CONNECTED was adopted in this event: it must come from a hello in d that verifies
            ok = False
            if d is not None:
                _, msgs = self.parse_msgs(d, pre["key"])
                for t, pl in msgs:
                    if t != 2:
                        continue
                    try:
                        # verification with the key the client was configured with, done here by hand
                        rootder, payload, sig = W.split_server_hello(pl)
                        pin = self.cfg_pin          # the configured key, whatever the connection object holds now
                        if pin is None:
                            from mpgameserver.crypto import EllipticCurvePublicKey
                            pin = EllipticCurvePublicKey.fromBytes(rootder)
                        pin.verify(sig, payload)
                        m = Serializable.loadb(pl, server_public_key=pin)
                        if crypto.ecdh_client(conn.session_key, m.server_pubkey, m.salt) == key and m.token == conn.token:
                            ok = True
                            # run level (C02_run_authentication): a client pinned to the genuine root adopts only a
                            # hello whose signed part the genuine server built EARLIER, in this session or another one
                            if self.pinned and bytes(payload) not in self.genuine and bytes(payload) not in GENUINE_OTHER:
                                self.fail("pinned client adopted a hello the genuine server never built",
                                          "ClientServerConnection._recvServerHello (run ghost)")
                            self.adopted.append(self.world.abstract_msg(pl)[1:])
                    except W.Unabstractable:
                        ok = True
                    except Exception:   # noqa
                        pass
            if not ok:
                self.fail("client adopted a key / CONNECTED without a hello signed by the configured key",
                          "ClientServerConnection._recvServerHello", status_before=pre["status"],
                          status=conn.status.value, mutation=getattr(self, "mut", None))

    def oracle_server(self, conn, pre, d):
        from mpgameserver.serializable import Serializable
        ev = self.Sv.impl.handler.events[pre["n_handler"]:]
        nconn = sum(1 for x in ev if x == "connect")
        self.connects += nconn
        key = conn.session_key_bytes
        if conn.status.value == 2 and not key:
            self.fail("server connection CONNECTED without a session key", "ServerClientConnection", token=int(conn.token))
        if nconn or (conn.status.value == 2 and pre["status"] != 2):
            ok = False
            if d is not None and pre["key"]:
                sealed, msgs = self.parse_msgs(d, pre["key"])
                if sealed:
                    for t, pl in msgs:
                        if t == 3:
                            try:
                                m = Serializable.loadb(pl)
                                if m.token == conn.token and conn.token != 0 and conn.token == self.issued:
                                    ok = True
                            except Exception:   # noqa
                                pass
            if not ok:
                self.fail("handler.connect / CONNECTED without an authentic challenge response carrying the issued token",
                          "ServerClientConnection._recvChallengeResponse", token=int(conn.token), keyless=not pre["key"])
        if self.connects > 1:
            self.fail("handler.connect called twice for one connection", "ServerContext._onConnect")

    def oracle_final(self, honest_complete):
        c, s = self.C.impl.conn, self.Sv.impl.conn
        if c is not None and c.status.value == 2 and s.status.value == 2:
            if c.session_key_bytes != s.session_key_bytes:
                self.fail("both CONNECTED with different session keys", "handshake")
            if c.token != s.token:
                self.fail("both CONNECTED with different tokens", "handshake")
        if honest_complete:
            if c.status.value != 2 or s.status.value != 2 or self.connects != 1 or \
                    c.session_key_bytes != s.session_key_bytes or c.token != s.token or not c.session_key_bytes:
                self.fail("honest three-message run did not end CONNECTED with equal key and token",
                          "handshake", cstatus=c.status.value, sstatus=s.status.value, connects=self.connects)

    # -- correspondence
    def tables(self, who):
        tab = []
        seen = set()
        for d in self.delivered[who]:
            h, b = S.abstract(d, self.keys, self.all_key_ids() + self.past_key_ids())
            if b[0] == 2:
                continue
            payload = b[3] if b[0] == 0 else b[1]
            for seq, typ, p in S.decode_msgs_py(h[4], h[6], payload) or []:
                if typ in (1, 2, 3) and bytes(p) not in seen:
                    seen.add(bytes(p))
                    tab.append([bytes(p), self.world.abstract_msg(p)])
        return [tab, self.shello, self.chal]

    def past_key_ids(self):
        return [k for k in self.keys.by_id]

    @staticmethod
    def hev(mev):
        if mev[0] == 1:
            rx = mev[2]
            return [1, mev[1], rx[:2] if rx[0] == 2 else rx]
        if mev[0] == 3:
            return [0, mev[1], mev[2]]
        if mev[0] == 6:
            return [2, mev[1], mev[2]]
        return [3, mev]

    @staticmethod
    def canon_snap(who, snap):
        """the client's `token` attribute is scratch until a key is adopted: _recvServerHello assigns it
        before the remaining attribute accesses can raise (a challenge object under a SERVER_HELLO type
        leaves msg.token behind and then raises AttributeError); Conn.v keeps the state unchanged on any
        exception.  The attribute is compared from the adoption on (and checked by the oracle there)."""
        if who == "client" and snap and snap[1] == -1:
            snap = list(snap)
            snap[18] = 0
        return snap

    def diff_trace(self, who, e, reply, extras):
        for n, i in enumerate(e.index):
            a = e.itrace[n]
            b = [S.canon(reply[i][0]), reply[i][1]]
            sa, sb = self.canon_snap(who, a[1]), self.canon_snap(who, b[1])
            d = None
            if a[0] != b[0]:
                d = {"what": "outputs", "impl": lib.jsonable(a[0])[:6], "model": lib.jsonable(b[0])[:6]}
            elif sa != sb:
                df = [j for j, (p, q) in enumerate(zip(sa, sb)) if p != q]
                d = {"what": "state fields %s" % df, "impl": lib.jsonable([sa[j] for j in df])[:4],
                     "model": lib.jsonable([sb[j] for j in df])[:4]}
            elif extras:
                x = self.extras[who][n]
                mx = [reply[i][2][0], len(self.rand) - reply[i][2][1]] if who == "server" else reply[i][2][2]
                if x != mx:
                    d = {"what": "extras", "impl": lib.jsonable(x), "model": lib.jsonable(mx)}
            if d:
                d.update({"endpoint": who, "event": n, "ev": lib.jsonable(e.events[n])[:2],
                          "script": lib.jsonable([list(z) for z in self.log])[:20]})
                return d
        return None

    def check(self):
        """both ties for both endpoints; returns list of differences"""
        run = self.run
        diffs = []
        self.world.harvest()
        for who, e in (("client", self.C), ("server", self.Sv)):
            if not e.mevs:
                continue
            # (a) Conn.v fed the oracle answers connsim computed from the bytes
            reply = run.model.call("conn_run", [self.env, [1 if who == "server" else 0, -1, 4, -1], e.mevs, 1])
            d = self.diff_trace(who, e, reply, False)
            run.compare("conn_run", [who], [None], [d])
            if d:
                diffs.append(d)
            # (b) the symbolic model computing the answers itself
            try:
                tabs = self.tables(who)
            except W.Unabstractable as ex:
                run.count("histories not abstractable (%s)" % ex)
                continue
            if who == "client":
                init = [0, self.cid or 0, self.rid if self.pinned else -1, 0, 1, -1, []]
            else:
                init = [1, self.sid, -1, self.rid, 1, -2, self.rand]
            reply = run.model.call("hs_run", [self.env, init, tabs, [self.hev(m) for m in e.mevs]])
            d = self.diff_trace(who, e, reply, True)
            run.compare("hs_run", [who], [None], [d])
            if d:
                diffs.append(d)
        return diffs

    def close(self):
        for what, case, site in self.oracle_fail[:3]:
            self.run.oracle_violation(what, case, site)
        S.restore_mtu()


# ------------------------------------------------------------------ the attacker's toolbox

def rebuild(dg, keys):
    return S.concrete(dg, keys)


def clear_dgram(h, payload):
    h = list(h)
    h[5] = len(payload)
    return S.concrete([h, [1, payload]], None)


def hdr_of(d):
    return S.unpack_header(d)


def header_mutations(d, rng, recrc):
    """every header field rewritten; for clear datagrams optionally with the CRC recomputed"""
    h = hdr_of(d)
    ln = h[5]
    out = []
    alts = {0: [1 - h[0]], 1: [(h[1] + 1) % (1 << 32), 0], 2: [(h[2] + 1) % 65536, 0, 65535], 3: [(h[3] + 1) % 65536, 77], 4: [1, 2, 3, 4, 5, 6, 7, 0],
            5: [ln - 1, (ln + 1) % 65536, 0], 6: [0, 2, 3, 255], 7: [1, 0xFFFFFFFF]}
    for f, vals in alts.items():
        for v in vals:
            if v == h[f] or v < 0:
                continue
            h2 = list(h)
            h2[f] = v
            hb = S.pack_header(h2)
            if recrc:
                import binascii
                body = d[20:20 + ln]
                data = hb + body
                out.append(("hdr%d=%d+crc" % (f, v), data + struct.pack(">L", binascii.crc32(data[:20 + h2[5]] if h2[5] <= ln else data) & 0xFFFFFFFF)))
            else:
                out.append(("hdr%d=%d" % (f, v), hb + d[20:]))
    return out


def byte_mutations(d, rng, n, lo=20):
    out = []
    for _ in range(n):
        i = rng.randrange(lo, len(d))
        b = bytearray(d)
        b[i] ^= 1 << rng.randrange(8)
        out.append(("flip@%d" % i, bytes(b)))
    out.append(("trunc-1", d[:-1]))
    out.append(("trunc-half", d[:max(20, len(d) // 2)]))
    out.append(("extend", d + b"\x00\x01"))
    return out


def payload_of_clear(d):
    h = hdr_of(d)
    return d[20:20 + h[5]]


def d1_mutations(sess, d1, rng, full):
    """client hello: header fields, key bytes, version, padding"""
    from mpgameserver import connection as C
    out = header_mutations(d1, rng, True) + header_mutations(d1, rng, False)[:: (1 if full else 3)]
    out += byte_mutations(d1, rng, 24 if full else 6)
    h = hdr_of(d1)
    p = payload_of_clear(d1)
    seq, body = p[:2], p[2:]
    aid, ak = sess.world.new_key()
    for name, ver, key, padd in (("version2", 2, None, 0), ("version0", 0, None, 0), ("attacker-key", 1, ak, 0),
                                 ("short-pad", 1, None, -1), ("long-pad", 1, None, 1)):
        m = C.HandshakeClientHelloMessage()
        m.client_pubkey = (key or sess.C.impl.conn.session_key).getPublicKey()
        m.client_version = ver
        b = m.dumpb()
        if padd < 0:
            b = b[:-3]
        elif padd > 0:
            b = b + b"\x00\x00"
        out.append(("hello:" + name, clear_dgram(h, seq + b)))
    # wrong message classes under a CLIENT_HELLO header
    cr = C.HandshakeClientChallengeResponseMessage()
    cr.token = 0
    out.append(("hello:challenge-bytes", clear_dgram(h, seq + cr.dumpb())))
    out.append(("hello:junk", clear_dgram(h, seq + b"\x00\x01\x02")))
    out.append(("hello:empty", clear_dgram(h, seq)))
    return out, ak


def keyless_attacks(sess, rng):
    """clear datagrams aimed at a server connection: the D1/D2 shapes"""
    from mpgameserver import connection as C
    out = []
    for tok in (0, int(sess.Sv.impl.conn.token), 0x40000001):
        cr = C.HandshakeClientChallengeResponseMessage()
        cr.token = tok
        crb = cr.dumpb()
        multi = struct.pack(">HHB", len(crb), 1, 3) + crb + struct.pack(">HHB", 3, 2, 6) + b"abc"
        for typ in (1, 2, 3, 6):
            out.append(("clear-multi[chal(%d),app]/type%d" % (tok, typ), clear_dgram([1, 100, 1, 0, typ, 0, 2, 0], multi)))
            out.append(("clear-single-chal(%d)/type%d" % (tok, typ), clear_dgram([1, 100, 1, 0, typ, 0, 1, 0], b"\x00\x01" + crb)))
    out.append(("clear-app", clear_dgram([1, 100, 1, 0, 6, 0, 1, 0], b"\x00\x01hello")))
    out.append(("clear-disconnect", clear_dgram([1, 100, 1, 0, 5, 0, 1, 0], b"\x00\x01")))
    return out


def d2_mutations(sess, d2, rng, full, other_hello=None):
    """server hello: every field substituted, re-signed, replayed"""
    out = header_mutations(d2, rng, True) + header_mutations(d2, rng, False)[:: (1 if full else 3)]
    out += byte_mutations(d2, rng, 40 if full else 10)
    h = hdr_of(d2)
    p = payload_of_clear(d2)
    seq, body = p[:2], p[2:]
    root = S.root_key()
    srv = sess.Sv.impl.conn
    w = sess.world
    aid, ak = w.new_key()       # attacker's signing key
    eid, ek = w.new_key()       # attacker's ephemeral key
    salt, tok = srv.session_salt, int(srv.token)
    rootder, payload, sig = W.split_server_hello(body)
    variants = [
        ("resigned-by-attacker(announces itself)", W.make_server_hello(ak, srv.session_key.getPublicKey(), salt, tok)),
        ("resigned-by-attacker(announces root)", W.make_server_hello(ak, srv.session_key.getPublicKey(), salt, tok, announced=root)),
        ("resigned-by-attacker(token high bit)", W.make_server_hello(ak, srv.session_key.getPublicKey(), salt, tok | 0x80000000)),
        ("resigned-by-attacker(token 0, other salt)", W.make_server_hello(ak, srv.session_key.getPublicKey(), bytes(16), 0)),
        ("mitm(attacker eph, attacker sig, announces itself)", W.make_server_hello(ak, ek.getPublicKey(), salt, tok)),
        ("mitm(attacker eph, attacker sig, announces root)", W.make_server_hello(ak, ek.getPublicKey(), salt, tok, announced=root)),
        ("root-field-swapped(sig kept)", W.join_server_hello(body, ak.getPublicKey().getBytes(), payload, sig)),
        ("sig-from-attacker(payload kept)", W.join_server_hello(body, rootder, payload, ak.sign(payload))),
        ("sig-truncated", W.join_server_hello(body, rootder, payload, sig[:-1])),
        ("sig-empty", W.join_server_hello(body, rootder, payload, b"")),
    ]
    # type confusion: the UNSIGNED key-exchange parameters (attacker's ephemeral key, salt, token) offered under the type
    # id of every OTHER class registered at run time, in the layouts a Serializable body can have (bare fields / field
    # count + fields / named-field count + fields) — whatever class Serializable.loadb builds from a clear SERVER_HELLO,
    # only HandshakeServerHelloMessage.deserialize verifies a signature
    import io as _io
    from mpgameserver import serializable as _SZ, connection as _C

    def _ser(*vals):
        s = _io.BytesIO()
        for v in vals:
            _SZ.serialize_value(s, v)
        return s.getvalue()
    _der = ek.getPublicKey().getBytes()
    confusion = []
    for tid in sorted(_SZ.SerializableType.registry):
        if tid == _C.HandshakeServerHelloMessage.type_id:
            continue
        hd = struct.pack(">H", tid)
        confusion.append(("as-type-%d(bare fields)" % tid, hd + _ser(_der, salt, tok)))
        confusion.append(("as-type-%d(count+fields)" % tid, hd + _ser(3, _der, salt, tok)))
    confusion.append(("bare-fields(no type id)", _ser(_der, salt, tok)))
    variants = confusion + variants
    # payload fields altered under the genuine signature
    for name, eph, sl, tk in (("eph-swapped", ek.getPublicKey(), salt, tok), ("salt-altered", srv.session_key.getPublicKey(), bytes([salt[0] ^ 1]) + salt[1:], tok),
                              ("token-altered", srv.session_key.getPublicKey(), salt, tok ^ 1), ("token-zero", srv.session_key.getPublicKey(), salt, 0)):
        forged = W.make_server_hello(ak, eph, sl, tk)
        _, pl2, _ = W.split_server_hello(forged)
        variants.append((name + "(genuine sig)", W.join_server_hello(body, rootder, pl2, sig)))
    if other_hello is not None:
        variants.append(("replayed-from-another-session", other_hello))
    from mpgameserver import connection as C
    cr = C.HandshakeClientChallengeResponseMessage()
    cr.token = 0x51525354
    variants.append(("challenge-bytes", cr.dumpb()))
    ch = C.HandshakeClientHelloMessage()
    ch.client_pubkey = ek.getPublicKey()
    ch.client_version = 1
    variants.append(("clienthello-bytes", ch.dumpb()))
    variants.append(("junk", b"\x00\x01\x02"))
    for name, b in variants:
        out.append(("shello:" + name, clear_dgram(h, seq + b)))
    return out, (aid, ak, eid, ek)


def seal(key, h, payload):
    from cryptography.hazmat.primitives.ciphers.aead import AESGCM
    h = list(h)
    h[5] = len(payload)
    hb = S.pack_header(h)
    return hb + AESGCM(key).encrypt(hb[:12], payload, hb)


def d3_mutations(sess, d3, rng, full):
    """challenge response: header (AAD), ciphertext, tag, key, token, clear form"""
    from mpgameserver import connection as C
    out = header_mutations(d3, rng, False)
    out += byte_mutations(d3, rng, 24 if full else 8)
    h = hdr_of(d3)
    ckey = sess.C.impl.conn.session_key_bytes
    tok = int(sess.C.impl.conn.token)

    def chal(t):
        m = C.HandshakeClientChallengeResponseMessage()
        m.token = t
        return m.dumpb()
    h2 = list(h)
    h2[2] = h[2] + 1            # a fresh datagram seq so that only the content decides
    out.append(("chal:wrong-token(right key)", seal(ckey, h2, b"\x00\x07" + chal(tok ^ 1))))
    out.append(("chal:token0(right key)", seal(ckey, h2, b"\x00\x07" + chal(0))))
    out.append(("chal:junk(right key)", seal(ckey, h2, b"\x00\x07" + b"\x00\x01\x02")))
    out.append(("chal:serverhello-bytes(right key)", seal(ckey, h2, b"\x00\x07" + (sess.shello[-1][1] if sess.shello else b""))))
    out.append(("chal:empty(right key)", seal(ckey, h2, b"\x00\x07")))
    wrong = bytes(16)
    sess.extra_key_ids = [sess.keys.id_of(wrong)]
    out.append(("chal:right-token(wrong key)", seal(wrong, h2, b"\x00\x07" + chal(tok))))
    out.append(("chal:right-token(clear+crc)", clear_dgram(h2, b"\x00\x07" + chal(tok))))
    h3 = list(h2)
    h3[4] = 1
    out.append(("chal:right-token(clear, typed CLIENT_HELLO)", clear_dgram(h3, b"\x00\x07" + chal(tok))))
    return out


# ------------------------------------------------------------------ scenarios

def honest_prefix(sess, upto):
    """drive the honest handshake up to (not including) stage `upto`:
    1 = D1 emitted, 2 = D1 delivered and D2 emitted, 3 = D2 delivered and D3 emitted, 4 = D3 delivered"""
    sess.connect()
    sess.ctick()
    if upto <= 1:
        return
    sess.srecv(sess.out["client"][0])
    sess.advance(300)
    sess.stick()
    if upto <= 2:
        return
    sess.ctick(sess.out["server"][0])
    k = 0
    while len(sess.out["client"]) < 2 and k < 4:
        sess.advance(300)
        sess.ctick()
        k += 1
    if upto <= 3:
        return
    sess.srecv(sess.out["client"][1])
    sess.advance(300)
    sess.stick()
    sess.ctick(sess.out["server"][-1] if len(sess.out["server"]) > 1 else None)


def finish_honest(sess, stage):
    """after an injection at `stage`, let the honest datagrams flow"""
    if stage <= 1:
        sess.srecv(sess.out["client"][0])
        sess.advance(300)
        sess.stick()
    if stage <= 2 and sess.out["server"]:
        sess.ctick(sess.out["server"][0])
        k = 0
        while len(sess.out["client"]) < 2 and k < 3:
            sess.advance(300)
            sess.ctick()
            k += 1
    if stage <= 3 and len(sess.out["client"]) > 1:
        sess.srecv(sess.out["client"][1])
    sess.advance(300)
    sess.stick()
    sess.ctick(sess.out["server"][-1] if len(sess.out["server"]) > 1 else None)


GENUINE_OTHER = set()      # run ghost: signed parts of the hellos OTHER sessions of the genuine server built


def other_session_hello(run):
    """a genuine server hello (signed by the same root) produced for ANOTHER client"""
    s = Session(run)
    honest_prefix(s, 2)
    b = payload_of_clear(s.out["server"][0])[2:]
    s.close()
    GENUINE_OTHER.add(bytes(W.split_server_hello(b)[1]))
    return b


def run_session(run, name, body, pinned=True, honest_complete=False, with_cb=True, model=True):
    """model=False: implementation-only session (oracle clauses only) — used where the application's connect
    callback RAISES: the exception leaves UdpClient.update(), which the Conn.v step function does not describe"""
    sess = Session(run, pinned=pinned, with_cb=with_cb)
    try:
        body(sess)
        sess.oracle_final(honest_complete)
        diffs = sess.check() if model else []
        run.count("sessions")
        run.count("session:" + name.split(":")[0])
        c, s = sess.C.impl.conn, sess.Sv.impl.conn
        out = (c.status.value if c else 0, 1 if (c and c.session_key_bytes) else 0, s.status.value,
               1 if s.session_key_bytes else 0, sess.connects)
        run.nt((name, out))
        run.sample({"session": name, "pinned": pinned, "client(status,key)": out[:2], "server(status,key)": out[2:4],
                    "connect_events": out[4], "model_agrees": not diffs})
        return sess, out
    finally:
        sess.close()


def schedules(run, rng, n):
    """random schedules over the honest datagrams: loss, duplication, reordering, delay"""
    for k in range(n):
        def body(sess, k=k):
            sess.connect()
            steps = rng.randrange(8, 22)
            for _ in range(steps):
                a = rng.random()
                if a < 0.22:
                    sess.ctick()
                elif a < 0.40:
                    sess.stick()
                elif a < 0.62 and sess.out["client"]:
                    sess.srecv(rng.choice(sess.out["client"]))
                elif a < 0.84 and sess.out["server"]:
                    sess.ctick(rng.choice(sess.out["server"]))
                else:
                    sess.advance(rng.choice([15, 300, 300, 1500, T // 2, T]))
        run_session(run, "schedule:%d" % k, body, pinned=rng.random() < 0.8, with_cb=rng.random() < 0.7)


def attack_schedules(run, rng, n, other):
    """random schedules with the attacker's datagrams injected at random points towards both ends"""
    for k in range(n):
        def body(sess, k=k):
            sess.connect()
            for _ in range(rng.randrange(8, 20)):
                a = rng.random()
                if a < 0.15:
                    sess.ctick()
                elif a < 0.28:
                    sess.stick()
                elif a < 0.42 and sess.out["client"]:
                    sess.srecv(rng.choice(sess.out["client"]))
                elif a < 0.56 and sess.out["server"]:
                    sess.ctick(rng.choice(sess.out["server"]))
                elif a < 0.70 and sess.out["client"]:
                    d = sess.out["client"][0]
                    ms = d1_mutations(sess, d, rng, False)[0] if hdr_of(d)[4] == 1 else []
                    if len(sess.out["client"]) > 1 and sess.C.impl.conn.session_key_bytes:
                        ms = ms + d3_mutations(sess, sess.out["client"][1], rng, False)
                    ms = ms + keyless_attacks(sess, rng)
                    sess.srecv(rng.choice(ms)[1])
                elif a < 0.86 and any(hdr_of(x)[4] == 2 for x in sess.out["server"]):
                    d2 = [x for x in sess.out["server"] if hdr_of(x)[4] == 2][0]
                    ms = d2_mutations(sess, d2, rng, False, other)[0]
                    sess.ctick(rng.choice(ms)[1])
                else:
                    sess.advance(rng.choice([15, 300, 300, 1500, T // 2]))
        run_session(run, "attack-schedule:%d" % k, body, pinned=rng.random() < 0.7, with_cb=rng.random() < 0.7)


def systematic_orders(run):
    """the honest order, each single loss, each duplication, each adjacent swap of deliveries"""
    base = ["c0", "s0", "c1"]           # deliver client dgram 0, server dgram 0, client dgram 1
    variants = [("honest", base, True)]
    for i in range(3):
        variants.append(("loss-%d" % i, base[:i] + base[i + 1:], False))
        variants.append(("dup-%d" % i, base[:i + 1] + [base[i]] + base[i + 1:], True))
        variants.append(("dup-late-%d" % i, base + [base[i]], True))
    variants.append(("swap-01", ["s0", "c0", "s0", "c1"], True))
    variants.append(("swap-12", ["c0", "c1", "s0", "c1"], True))
    variants.append(("all-twice", ["c0", "c0", "s0", "s0", "c1", "c1"], True))
    for name, order, complete in variants:
        def body(sess, order=order):
            sess.connect()
            sess.ctick()
            for x in order:
                who, i = x[0], int(x[1])
                src = sess.out["client" if who == "c" else "server"]
                for _ in range(3):
                    if len(src) > i:
                        break
                    sess.advance(300)
                    sess.stick()
                    sess.ctick()
                if len(src) <= i:
                    continue
                if who == "c":
                    sess.srecv(src[i])
                    sess.advance(300)
                    sess.stick()
                else:
                    sess.ctick(src[i])
                    sess.advance(300)
                    sess.ctick()
            sess.advance(300)
            sess.stick()
            sess.ctick()
        for pinned in (True, False):
            run_session(run, "order:" + name, body, pinned=pinned, honest_complete=complete)


def injections(run, rng, full):
    other = other_session_hello(run)
    # stage 1: mutated client hellos / clear attacks at a fresh server connection
    probe = Session(run)
    honest_prefix(probe, 1)
    muts1, _ = d1_mutations(probe, probe.out["client"][0], rng, full)
    n1 = len(muts1)
    nk = len(keyless_attacks(probe, rng))
    probe.close()
    for i in range(n1 + nk):
        for then_honest in ((True, False) if full or i % 4 == 0 else (True,)):
            def body(sess, i=i, then_honest=then_honest):
                honest_prefix(sess, 1)
                ms = d1_mutations(sess, sess.out["client"][0], rng, full)[0] + keyless_attacks(sess, rng)
                name, d = ms[i % len(ms)]
                sess.mut = name
                sess.srecv(d)
                sess.advance(300)
                sess.stick()
                if then_honest:
                    finish_honest(sess, 1)
            s, out = run_session(run, "inject1:%d" % i, body)
            run.count("mutation:d1/" + getattr(s, "mut", "?").split("@")[0].split("=")[0])
    # stage 2: mutated server hellos at a client that is waiting (pinned and unpinned)
    probe = Session(run)
    honest_prefix(probe, 2)
    n2 = len(d2_mutations(probe, probe.out["server"][0], rng, full, other)[0])
    probe.close()
    for pinned in (True, False):
        for i in range(n2):
            if not pinned and not full and i % 2 and i < n2 - 24:
                continue
            def body(sess, i=i):
                honest_prefix(sess, 2)
                ms = d2_mutations(sess, sess.out["server"][0], rng, full, other)[0]
                name, d = ms[i % len(ms)]
                sess.mut = name
                sess.ctick(d)
                sess.advance(300)
                sess.ctick()
                # whatever the client answered goes to the server
                for x in sess.out["client"][1:]:
                    sess.srecv(x)
                finish_honest(sess, 2)
            s, out = run_session(run, "inject2:%d:%s" % (i, pinned), body, pinned=pinned)
            run.count("mutation:d2/" + getattr(s, "mut", "?").split("@")[0].split("=")[0])
    # stage 3: mutated challenges at a server connection that sent its hello
    probe = Session(run)
    honest_prefix(probe, 3)
    n3 = len(d3_mutations(probe, probe.out["client"][1], rng, full))
    probe.close()
    for i in range(n3):
        for then_honest in (True, False):
            if not then_honest and not full and i % 3:
                continue
            def body(sess, i=i, then_honest=then_honest):
                honest_prefix(sess, 3)
                ms = d3_mutations(sess, sess.out["client"][1], rng, full)
                name, d = ms[i % len(ms)]
                sess.mut = name
                sess.srecv(d)
                sess.advance(300)
                sess.stick()
                if then_honest:
                    finish_honest(sess, 3)
                    sess.srecv(sess.out["client"][1])      # duplicated challenge
            s, out = run_session(run, "inject3:%d" % i, body)
            run.count("mutation:d3/" + getattr(s, "mut", "?").split("@")[0].split("=")[0])
    # after the handshake: replays of all three datagrams and of mutated ones at both ends
    def body(sess):
        honest_prefix(sess, 4)
        for d in list(sess.out["client"][:2]) + [x[1] for x in keyless_attacks(sess, rng)[:8]]:
            sess.srecv(d)
        for d in list(sess.out["server"][:1]) + [d2_mutations(sess, sess.out["server"][0], rng, False, other)[0][-6][1]]:
            sess.ctick(d)
        sess.advance(300)
        sess.stick()
        sess.ctick()
    run_session(run, "replay-after", body, honest_complete=True)
    return other


CLIENT_ENDS = ["timeout", "timeout-unanswered", "bad-signature", "bad-signature+timeout", "closed-by-application",
               "closed-by-peer", "dropped", "closed-before-hello"]


def drive_client_to_end(sess, end, rng):
    """bring the client to a terminal state; the genuine server hello (D2) exists but (except where the handshake
    completes first) never reached the client in time.  Returns the genuine D2 datagram."""
    if end == "timeout-unanswered":
        honest_prefix(sess, 2)                     # the server answered, the answer is lost
        sess.advance(2 * T + 15)
        sess.ctick()                               # the connect time-out fires: DISCONNECTED, callback(False)
        sess.advance(rng.choice([15, 300, 3 * T]))
        sess.ctick()
    elif end == "timeout":
        honest_prefix(sess, 2)
        for _ in range(4):                         # polled at frame rate until the time-out fires
            sess.advance(T // 2 + 15)
            sess.ctick()
            sess.stick()
        sess.advance(T // 2)
        sess.ctick()
    elif end in ("bad-signature", "bad-signature+timeout"):
        honest_prefix(sess, 2)
        forged = d2_mutations(sess, sess.out["server"][0], rng, False, None)[0]
        forged = [d for name, d in forged if name.startswith("shello:resigned") or name.startswith("shello:mitm")]
        sess.ctick(rng.choice(forged))             # InvalidSignature: DISCONNECTED (the hello timer keeps running)
        if end.endswith("timeout"):
            sess.advance(2 * T + 300)
            sess.ctick()
    elif end == "closed-by-application":
        honest_prefix(sess, 4)
        sess.cdisc()
        sess.advance(300)
        sess.ctick()
    elif end == "closed-by-peer":
        honest_prefix(sess, 4)
        sess.sdisc()
        sess.advance(300)
        sess.stick()
        if len(sess.out["server"]) > 1:
            sess.ctick(sess.out["server"][-1])     # DISCONNECT: the client goes DISCONNECTING
        sess.advance(300)
        sess.ctick()
    elif end == "dropped":
        honest_prefix(sess, 4)
        sess.advance(5 * T + 300)
        sess.ctick()                               # nothing received for 5 s: DROPPED
    elif end == "closed-before-hello":
        honest_prefix(sess, 2)
        sess.cdisc()                               # the application gives up while CONNECTING
        sess.advance(300)
        sess.ctick()
    return [x for x in sess.out["server"] if hdr_of(x)[4] == 2][0]


def late_datagrams(run, rng, full, other):
    """handshake datagrams delivered AFTER a terminal state.  Client: for every terminal state, the genuine hello and
    every attacker variant of it (re-signed by another key announcing itself / the genuine root, man-in-the-middle
    parameters, fields swapped under the genuine signature, replay from another session, header rewrites), then whatever
    the client answers is handed to the server and the honest datagrams keep flowing.  Server connection: kicked by the
    application (or never answered) and then handed the client hello / challenge / forged challenges again."""
    probe = Session(run)
    honest_prefix(probe, 2)
    names = [n for n, _ in d2_mutations(probe, probe.out["server"][0], rng, full, other)[0]]
    probe.close()
    idx_hello = [i for i, n in enumerate(names) if n.startswith("shello:")]
    idx_other = [i for i, n in enumerate(names) if not n.startswith("shello:")]
    for end in CLIENT_ENDS:
        picks = [-1] + idx_hello + (idx_other if full else rng.sample(idx_other, 3))
        if not full and end not in ("timeout", "timeout-unanswered", "bad-signature+timeout"):
            picks = [-1] + rng.sample(idx_hello, 6) + rng.sample(idx_other, 1)
        for i in picks:
            for pinned in ((True, False) if (full or (i in idx_hello[:6] and end.startswith("timeout"))) else (True,)):
                def body(sess, i=i, end=end):
                    d2 = drive_client_to_end(sess, end, rng)
                    if i < 0:
                        name, d = "genuine-late", d2
                    else:
                        name, d = d2_mutations(sess, d2, rng, full, other)[0][i]
                    sess.mut = "%s after %s" % (name, end)
                    n_before = len(sess.out["client"])
                    sess.ctick(d)
                    sess.advance(300)
                    sess.ctick()
                    if rng.random() < 0.5:
                        sess.ctick(d)                      # and once more
                    for x in sess.out["client"][n_before:]:
                        sess.srecv(x)                      # whatever the client answered goes to the server
                    sess.advance(300)
                    sess.stick()
                    sess.ctick(d2)                         # the genuine hello, later still
                    sess.advance(300)
                    sess.ctick()
                    for x in sess.out["client"][n_before:]:
                        sess.srecv(x)
                    sess.stick()
                s, out = run_session(run, "late:%s:%d:%s" % (end, i, pinned), body, pinned=pinned, with_cb=rng.random() < 0.8)
                run.count("late-hello/after-" + end)
                run.count("late-hello/client-ends-" + ("CONNECTED" if out[0] == 2 else "unconnected"))
    # the server connection after ITS terminal states
    for end in ("kicked-after-connect", "kicked-while-connecting", "challenge-never-answered"):
        for variant in range(6 if full else 3):
            def body(sess, end=end, variant=variant):
                if end == "kicked-after-connect":
                    honest_prefix(sess, 4)
                    sess.sdisc()
                elif end == "kicked-while-connecting":
                    honest_prefix(sess, 3)
                    sess.sdisc()
                else:
                    honest_prefix(sess, 3)
                    sess.advance(2 * T + 300)
                sess.advance(300)
                sess.stick()
                late = list(sess.out["client"][:2])
                if len(sess.out["client"]) > 1 and sess.C.impl.conn.session_key_bytes:
                    late += [d for _, d in d3_mutations(sess, sess.out["client"][1], rng, False)[-8:]]
                late += [d for _, d in keyless_attacks(sess, rng)[:6]]
                rng.shuffle(late)
                for d in late[:4 + variant]:
                    sess.srecv(d)
                    if rng.random() < 0.5:
                        sess.advance(300)
                        sess.stick()
                sess.advance(300)
                sess.stick()
                sess.ctick(sess.out["server"][-1])
            run_session(run, "late-server:%s:%d" % (end, variant), body)
            run.count("late-datagrams/server-" + end)


def raising_connect_callback(run, rng, full, other):
    """the application's connect callback RAISES (connsim "hello" with_cb = 2: it records the call, then raises).  The
    exception leaves UdpClient.update(); whom the client trusts, which key it adopts and when the server promotes must not
    depend on it: every oracle clause is judged as usual (implementation only), honest runs must still complete."""
    def honest(sess):
        honest_prefix(sess, 4)
        sess.advance(300)
        sess.stick()
        sess.ctick()
    for pinned in (True, False):
        s, out = run_session(run, "raising-cb:honest:%s" % pinned, honest, pinned=pinned, honest_complete=True, with_cb=2, model=False)
        if not any(o[0] == 3 for tr in s.C.itrace for o in tr[0]):
            raise RuntimeError("raising connect callback: no exception left UdpClient.update() — the callback did not raise")
    probe = Session(run)
    honest_prefix(probe, 2)
    names = [n for n, _ in d2_mutations(probe, probe.out["server"][0], rng, full, other)[0]]
    probe.close()
    idx = [i for i, n in enumerate(names) if n.startswith("shello:")]
    for end in (None, "timeout", "bad-signature+timeout"):
        for i in (idx if full else rng.sample(idx, 8)):
            def body(sess, i=i, end=end):
                if end is None:
                    honest_prefix(sess, 2)
                    d2 = sess.out["server"][0]
                else:
                    d2 = drive_client_to_end(sess, end, rng)       # callback(False) raises out of update() on the way
                name, d = d2_mutations(sess, d2, rng, full, other)[0][i]
                sess.mut = "%s%s, connect callback raises" % (name, " after " + end if end else "")
                sess.ctick(d)
                sess.advance(300)
                sess.ctick()
                for x in sess.out["client"][1:]:
                    sess.srecv(x)
                sess.advance(300)
                sess.stick()
                sess.ctick(d2)
                sess.advance(300)
                sess.ctick()
                for x in sess.out["client"][1:]:
                    sess.srecv(x)
                sess.stick()
            run_session(run, "raising-cb:%s:%d" % (end, i), body, with_cb=2, model=False)
            run.count("raising-connect-callback")


def reconnect_world(run, rng, idx, plan):
    """see the module docstring.  plan: list of moments at which connect() is called again"""
    import types, logging
    import mpgameserver.client as CL
    from mpgameserver.connection import ServerClientConnection, PacketHeader, PacketType, ConnectionStatus
    from mpgameserver.context import ServerContext
    S.install_clock()
    S.CLOCK.t = T * 100
    CL.select = types.SimpleNamespace(select=lambda r, w, x, t: ([s for s in r if s.inbox], w, []))
    ctxt = ServerContext(S.Handler(), S.root_key())
    host = "10.7.%d.%d" % (idx // 200, idx % 200 + 1)
    server_addr = ("10.7.0.254", 4000)
    socks = []

    def make(addr):
        s = S.FakeSock()
        s.port = 40000 + len(socks)
        socks.append(s)
        return s
    client = CL.UdpClient(S.root_key().getPublicKey())
    client._make_socket = make
    cbs = []                     # (attempt, value)
    attempts = [0]
    delay = rng.choice([0, 1, 2, 3])          # one-way latency in frames
    up, down = [], []            # (due frame, port, raw)
    frame = [0]
    log = []
    case = {"world": idx, "plan": list(plan), "latency_frames": delay}

    def connect():
        attempts[0] += 1
        n = attempts[0]
        client.connect(server_addr, lambda ok, n=n: cbs.append((n, ok)))
        client.conn.clock = S.CLOCK.time
        log.append(["connect", frame[0], client.sock.port])

    def server_frame():
        # server.py main loop: dispatch by sender address, then update every connection and send
        due = [x for x in up if x[0] <= frame[0]]
        for x in due:
            up.remove(x)
            addr, raw = (host, x[1]), x[2]
            try:
                hdr = PacketHeader.from_bytes(True, raw)
            except Exception:       # noqa
                continue
            try:
                if addr in ctxt.connections:
                    c = ctxt.connections[addr]
                    c._recv_datagram(hdr, raw)
                    c.incoming_messages = []
                elif addr in ctxt.temp_connections:
                    if hdr.pkt_type != PacketType.CHALLENGE_RESP:
                        continue
                    ctxt.temp_connections[addr]._recv_datagram(hdr, raw)
                else:
                    if hdr.pkt_type != PacketType.CLIENT_HELLO:
                        continue
                    c = ServerClientConnection(ctxt, addr)
                    c.send_keep_alive_interval = ctxt.keep_alive_interval
                    c.outgoing_timeout = ctxt.outgoing_timeout
                    ctxt.temp_connections[addr] = c
                    c._recv_datagram(hdr, raw)
            except Exception:       # noqa  (the loop logs and goes on)
                pass
        for c in list(ctxt.connections.values()):
            if c.status == ConnectionStatus.DISCONNECTING:
                c.disconnect()
            gone = c.status == ConnectionStatus.DISCONNECTED or c.timedout(ctxt.connection_timeout)
            m = c.update()
            if gone:
                del ctxt.connections[c.addr]
            if m is not None:
                down.append((frame[0] + delay, c.addr[1], bytes(m[0].to_bytes(m[1]))))
        for c in list(ctxt.temp_connections.values()):
            if c.status == ConnectionStatus.DISCONNECTED or c.timedout(ctxt.temp_connection_timeout):
                del ctxt.temp_connections[c.addr]
            else:
                m = c.update()
                if m is not None:
                    down.append((frame[0] + delay, c.addr[1], bytes(m[0].to_bytes(m[1]))))

    def judge(where):
        run.evaluations += 1
        conn = client.conn
        reported = [n for (n, ok) in cbs if ok]
        is_conn = conn is not None and conn.status == ConnectionStatus.CONNECTED
        if not is_conn:
            return True
        addr = (host, client.sock.port)
        sc = ctxt.connections.get(addr) or ctxt.temp_connections.get(addr)
        same = (sc is not None and sc.session_key_bytes is not None and bytes(sc.session_key_bytes) == bytes(conn.session_key_bytes or b"")
                and len(conn.session_key_bytes or b"") == 16 and int(sc.token) == int(conn.token))
        if not same:
            run.oracle_violation("client-connected-with-a-key-or-token-the-server-does-not-hold",
                                 dict(case, where=where, frame=frame[0], connect_calls=attempts[0], callbacks=cbs[-4:], events=log[-8:],
                                      client_port=client.sock.port, sockets_opened=len(socks),
                                      server_has_connection_for_that_port=sc is not None,
                                      same_token=(sc is not None and int(sc.token) == int(conn.token)),
                                      same_key=(sc is not None and sc.session_key_bytes is not None
                                                and bytes(sc.session_key_bytes) == bytes(conn.session_key_bytes or b""))),
                                 "UdpClient.connect / ClientServerConnection._recvServerHello")
            return False
        return True

    def step(n=1):
        for _ in range(n):
            frame[0] += 1
            S.CLOCK.t += 525
            if client.conn is not None:
                for sk in socks:
                    sk.sent = []
                try:
                    client.update()
                except Exception as e:      # noqa
                    log.append(["update raised", frame[0], repr(e)[:60]])
                for sk in socks:
                    for raw in sk.sent:
                        up.append((frame[0] + delay, sk.port, raw))
                    sk.sent = []
            server_frame()
            for x in [x for x in down if x[0] <= frame[0]]:
                down.remove(x)
                for sk in socks:
                    if sk.port == x[1]:
                        sk.inbox.append(x[2])         # delivered to the socket bound to that port, read or not
            if not judge("after frame"):
                return False
        return True

    ok = True
    logging.disable(logging.CRITICAL)
    try:
        connect()
        for moment in plan:
            if not ok:
                break
            if moment == "at once":
                pass
            elif moment == "hello sent":
                ok = step(1)
            elif moment == "answer in flight":
                ok = step(1 + delay)                   # the server has answered; its hello has not been read yet
            elif moment == "answer read":
                ok = step(2 + 2 * delay)
            elif moment == "completed":
                ok = step(6 + 4 * delay)
            elif moment == "timed out":
                up[:] = []
                down[:] = []
                for _ in range(int(5.2 * T) // 525):
                    frame[0] += 1
                    S.CLOCK.t += 525
                    try:
                        client.update()
                    except Exception:   # noqa
                        pass
                    for sk in socks:
                        sk.sent = []                   # everything is lost while the client waits for its time-out
                    ctxt.temp_connections.clear()      # (the server forgot the half-open attempts long ago)
            elif moment == "disconnected":
                ok = step(6 + 4 * delay)
                client.disconnect()
                log.append(["disconnect", frame[0]])
                ok = ok and step(rng.choice([0, 1, 3]))
            if ok:
                connect()
                ok = judge("right after connect()")
        if ok:
            ok = step(12 + 6 * delay)
        if ok:
            # quiet network, honest parties: the last attempt completed on both sides
            conn = client.conn
            addr = (host, client.sock.port)
            run.evaluations += 1
            if not (conn.status == ConnectionStatus.CONNECTED and addr in ctxt.connections and cbs and cbs[-1] == (attempts[0], True)):
                run.oracle_violation("honest-handshake-after-repeated-connect-did-not-complete",
                                     dict(case, client_status=conn.status.name, promoted=addr in ctxt.connections, callbacks=cbs[-4:],
                                          connect_calls=attempts[0], events=log[-8:], sockets_opened=len(socks)),
                                     "UdpClient.connect")
                ok = False
            else:
                run.nt(("reconnect", tuple(plan), delay))
    finally:
        logging.disable(logging.NOTSET)
    run.count("reconnect_worlds")
    return ok


def reconnect_worlds(run, rng, full):
    moments = ["at once", "hello sent", "answer in flight", "answer read", "completed", "timed out", "disconnected"]
    plans = [[m] for m in moments] + [["answer in flight", "answer in flight"], ["hello sent", "completed"], ["completed", "answer in flight"]]
    plans += [[rng.choice(moments) for _ in range(rng.choice([2, 3]))] for _ in range(30 if full else 6)]
    idx = 0
    for rep in range(3 if full else 2):
        for plan in plans:
            idx += 1
            if not reconnect_world(run, rng, idx, plan):
                return


def mask(r):
    return (r & 0x7fffffff) | 0x40000000


def ctx_unit2(run, rng, n):
    """ServerContext.get_token / _validateChallengeResponse / _onConnect vs Handshake.v (unit ctx_ops)"""
    from mpgameserver.context import ServerContext
    import mpgameserver.context as CX

    class Stub:
        def __init__(self, addr, token):
            self.addr, self.token = addr, token
            self.log = type("L", (), {"info": staticmethod(lambda *a, **k: None), "exception": staticmethod(lambda *a, **k: None)})()

    reqs, impl = [], []
    for _ in range(n):
        h = S.Handler()
        ctx = ServerContext(h, S.root_key())
        toks = [mask(rng.randrange(0, 1 << 32)) for _ in range(4)] + [0, 0x40000000]
        temp = [[a, rng.choice(toks)] for a in rng.sample(range(1, 9), rng.randrange(0, 4))]
        conns = [[a, rng.choice(toks)] for a in rng.sample(range(11, 19), rng.randrange(0, 4))]
        objs = {}
        for a, t in temp:
            objs[a] = ctx.temp_connections[a] = Stub(a, t)
        for a, t in conns:
            objs[a] = ctx.connections[a] = Stub(a, t)
        req = [[list(x) for x in temp], [list(x) for x in conns], []]
        res = []
        for _ in range(rng.randrange(1, 7)):
            k = rng.randrange(3)
            used = [c.token for c in list(ctx.temp_connections.values()) + list(ctx.connections.values())]
            addrs = list(ctx.temp_connections) + list(ctx.connections) + [99]
            if k == 0:
                rs = [rng.choice([rng.randrange(0, 1 << 32), 0, 0x80000000] + [u ^ rng.choice([0, 0x80000000]) for u in used])
                      for _ in range(rng.randrange(1, 6))]
                stream, drawn = list(rs), []

                def fake(nb, stream=stream, drawn=drawn):
                    if not stream:
                        raise EOFError
                    drawn.append(stream.pop(0))
                    return struct.pack(">L", drawn[-1])
                CX.os = type("O", (), {"urandom": staticmethod(fake)})()
                try:
                    try:
                        res.append([ctx.get_token(), len(drawn)])
                    except EOFError:
                        res.append([-1])
                finally:
                    CX.os = os
                req[2].append([0, rs])
            elif k == 1:
                a, t = rng.choice(addrs), rng.choice(toks + used)
                issued = ctx.temp_connections[a].token if a in ctx.temp_connections else None
                ok = 1 if ctx._validateChallengeResponse(Stub(a, 12345), t) else 0
                res.append(ok)
                req[2].append([1, a, t])
                # oracle (implementation only): accepted only with the token issued to THIS pending connection
                if ok and issued != t:
                    run.oracle_violation("challenge-accepted-with-a-token-not-issued-to-this-connection",
                                         {"addr": a, "echoed_token": t, "issued_token": issued,
                                          "temp": [[x, c.token] for x, c in ctx.temp_connections.items()],
                                          "connected": [[x, c.token] for x, c in ctx.connections.items()]},
                                         "ServerContext._validateChallengeResponse")
                if not ok and issued == t and issued is not None:
                    run.oracle_violation("challenge-with-the-issued-token-refused",
                                         {"addr": a, "echoed_token": t}, "ServerContext._validateChallengeResponse")
            else:
                a = rng.choice(addrs)
                st = objs.get(a) or Stub(a, rng.choice(toks))
                n0 = len(h.events)
                ctx._onConnect(st)
                res.append([1 if len(h.events) > n0 else 0,
                            [[x, c.token] for x, c in ctx.temp_connections.items()],
                            [[x, c.token] for x, c in ctx.connections.items()]])
                req[2].append([2, a, st.token])
        reqs.append(req)
        impl.append(res)
    run.compare("ctx_ops", reqs, impl, run.model.call_many("ctx_ops", reqs))
    # oracle: a token handed out is never 0, has bit 30 set, and is not held by any connection
    return len(reqs)


def replay(run, data):
    """./check C02 --replay f : re-run the recorded script on a fresh session of the current /repo tree.
    Datagrams in the script are replayed as bytes (ephemeral keys of a fresh session differ, so honest
    sealed datagrams of the original run are forgeries here; clear attack datagrams replay exactly)."""
    import json, logging
    logging.disable(logging.CRITICAL)
    W.init_ser_hdr()
    install_logtap()
    f = data.get("failure") or {}
    case = f.get("case") or {}
    if "echoed_token" in case:
        from mpgameserver.context import ServerContext
        ctx = ServerContext(S.Handler(), S.root_key())
        mk = lambda a, t: type("Stub", (), {"addr": a, "token": t})()
        for a, t in case.get("temp", []):
            ctx.temp_connections[a] = mk(a, t)
        for a, t in case.get("connected", []):
            ctx.connections[a] = mk(a, t)
        ok = bool(ctx._validateChallengeResponse(mk(case["addr"], 12345), case["echoed_token"]))
        bad = ok != (case.get("issued_token") == case["echoed_token"])
        print(json.dumps({"recorded": f.get("what"), "accepted": ok, "issued": case.get("issued_token"),
                          "echoed": case["echoed_token"], "violates": bad}))
        return 1 if bad else 0
    sess = Session(run, pinned=case.get("pinned", True))
    for step in case.get("script", []):
        k = step[0]
        if k == "connect":
            sess.connect()
        elif k == "adv":
            sess.advance(step[1])
        elif k == "stick":
            sess.stick()
        elif k == "cdisc":
            sess.cdisc()
        elif k == "sdisc":
            sess.sdisc()
        elif k == "ctick":
            sess.ctick(bytes.fromhex(step[1]) if step[1] else None)
        elif k == "srecv":
            sess.srecv(bytes.fromhex(step[1]))
    c, s = sess.C.impl.conn, sess.Sv.impl.conn
    print(json.dumps({"recorded": f.get("what"), "replayed_failures": [x[0] for x in sess.oracle_fail],
                      "client": [c.status.value if c else None, bool(c and c.session_key_bytes)],
                      "server": [s.status.value, bool(s.session_key_bytes), int(s.token)],
                      "connect_events": sess.connects, "model_differences": sess.check()}, indent=1)[:3000])
    sess.close()
    return 1 if sess.oracle_fail else 0


def run(run):
    rng = run.rng
    full = run.thorough()
    import logging
    logging.disable(logging.CRITICAL)      # per-connection warnings of the implementation (not observed)
    W.init_ser_hdr()
    install_logtap()
    PIN_REPORTS[0] = 0
    run.rules.append(RULE)
    ctx_unit2(run, rng, 4000 if full else 600)
    systematic_orders(run)
    run.exhaustive.append("every single loss / duplication / late duplication / adjacent swap of the three handshake "
                          "datagrams, pinned and unpinned")
    schedules(run, rng, 6000 if full else 120)
    other = injections(run, rng, full)
    late_datagrams(run, rng, full, other)
    raising_connect_callback(run, rng, full, other)
    attack_schedules(run, rng, 6000 if full else 100, other)
    reconnect_worlds(run, rng, full)
    logging.disable(logging.CRITICAL)
    run.rules.append("repeated connect() on one UdpClient (implementation only): connect() again at once / after the hello left / with the "
                     "answer in flight / after the answer was read / after completion / after the connect time-out / after disconnect(), "
                     "sequences of 1-3 such calls, one-way latency 0..3 frames, every socket its own port, answers routed by (address, port); "
                     "non-trivial = world whose last attempt completed on both sides")
    run.evaluations += run.dist.get("sessions", 0)
    logging.disable(logging.NOTSET)
