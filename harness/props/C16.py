"""C16 — the HTTP router matches paths exactly as the documented pattern grammar says.

Correspondence units (model coq/Model/Router.v vs mpgameserver.http_server.Router):
  router_compile    patternToRegex: the regular expression SOURCE TEXT (re_ptn.pattern) and the tokens / ValueError
  router_ast_text   the model's syntax tree of that text, printed, must again be re_ptn.pattern
  router_match      re_ptn.match(path).groups() vs the model's backtracking matcher on the syntax tree
  router_spec       the documented rule (Coq `spec_path`) vs what the real router answers, on the documented grammar
  router_table      registerRoutes / getRoute / dispatch on tables of <= 3 routes, every registration order
  router_sweep      exhaustive: one pattern against every path of <= n segments over the path alphabet
Oracle: the documented rule restated in Python on strings (doc_match), independent of the Coq text, applied to the
real Router only: every pattern of the documented grammar x every path; first registered matching route of the
method; 404 otherwise."""
import io, itertools
from harness import lib

RULE = ("patterns = every sequence of <= 4 pieces over {abc, a.c, :x, :y?, :r*, :r+} (1555 patterns: the documented grammar, "
        "wildcard-in-the-middle ones, ValueError ones) plus a malformed stream (regex metacharacters in literals, odd slashes, "
        "':' alone, repeated names, unicode, newline/tab) plus random strings over the metacharacters; paths = every sequence "
        "of <= n segments over {abc, abcdef, ab, aXc, a.c, '', x} (prefix/extension of a literal, '.' stand-in, empty "
        "segments = doubled and trailing slashes); quick: n=3 for all patterns and n=5 for the documented-grammar patterns "
        "of <= 2 pieces; thorough: n=5 for all (19608 paths per pattern, exhaustive); plus paths without leading slash, "
        "with newlines, unicode; tables: subsets of <= 3 routes from a pool of 14 overlapping (method, pattern) pairs in "
        "every registration order (thorough: all subsets) x 7 methods x 18 paths, rate-limited or not; non-trivial = the "
        "pattern compiles and the path matches, or (explicit pairs) shares its first segment with the pattern; "
        "HISTORIES on one long-lived router: routes registered one registerRoutes call at a time, as Route lists and as "
        "Resource subclasses built with the @get/@put/@post/@delete decorators (registration order = definition order), "
        "AFTER requests were already served; the same queries (including paths the new route matches) asked before and "
        "after every registration through getRoute AND dispatch, several requests per client address through the real "
        "rate limiter (below its limit), a second router alive in the same process; percent-encoded segments (%2F, %2e, "
        "%61bc) in the path alphabet of the random pairs and of the table queries (the router matches the text as it is); "
        "IDENTIFICATION pairs: 23 patterns with literals in several cases / scripts (composed and decomposed accents, ligature, "
        "full-width, Angstrom sign) x a matching path x every identlib.text_variants of the path and of each segment (case, NFC/NFD/"
        "NFKC/NFKD, blanks, BOM, zero-width, look-alikes) + trailing dot, percent-encoded unreserved characters, doubled slashes, "
        "'.'/'..' segments, ';params' '?query' '#fragment' backslashes: a different text is a different path; table queries "
        "with case / dot / blank variants of registered paths and methods 'get' / 'Get'")
ASSUMPTIONS = ["request paths contain no newline (premise no_nl of C16_match_spec; an HTTP request line cannot hold one)",
               "?, * and + parameters only in the last segment (the documented grammar; premise wf_pat)"]
TRUSTED = ["CPython's re module is trusted to parse the generated expression text into the syntax tree printed by the model "
           "(Router.pr_regex) and to match it with greedy/ordered backtracking semantics (Router.re_match); compared "
           "exhaustively on the bounded domain, not verified",
           "Twisted's construction of request.path and the RateLimiter are outside the model (limiter answer is an input)"]

S = lambda s: [ord(c) for c in s]
U = lambda l: "".join(chr(c) for c in l)
SITE = "mpgameserver/http_server.py:Router.patternToRegex"
SITE_TABLE = "mpgameserver/http_server.py:Router.getRoute/dispatch"

PIECES = ["abc", "a.c", ":x", ":y?", ":r*", ":r+"]
PSEGS = ["abc", "abcdef", "ab", "aXc", "a.c", "", "x"]


def new_router():
    from mpgameserver.http_server import Router
    return Router()


def enc_groups(g):
    return [[] if v is None else [S(v)] for v in g]


def enc_dict(d):
    return [[S(k), [] if v is None else [S(v)]] for k, v in d.items()]


def impl_compile(rt, pat):
    def f():
        rx, toks = rt.patternToRegex(pat)
        return [S(rx.pattern), [S(t) for t in toks]]
    return lib.guarded(f)


# ---------------------------------------------------------------- the documented rule, on strings

def pieces_of(pattern):
    out = []
    for part in pattern.split("/"):
        if not part:
            continue
        if part[0] == ":":
            if part[-1] == "?":
                out.append(("opt", part[1:-1]))
            elif part[-1] == "*":
                out.append(("star", part[1:-1]))
            elif part[-1] == "+":
                out.append(("plus", part[1:-1]))
            else:
                out.append(("one", part[1:]))
        else:
            out.append(("lit", part))
    return out


def documented(pieces):
    """?, *, + only on the last piece"""
    return all(k in ("lit", "one") for k, _ in pieces[:-1])


def doc_match(pieces, path):
    """None, or the list of bound values (None = parameter absent).  Written on strings, left to right:
    literal: the next segment is the literal in full; :name one non-empty segment; :name? nothing or one segment
    (then at most the tolerated slash); :name* nothing or everything after the slash; :name+ a non-empty remainder;
    at the end one optional trailing slash."""
    rest = path
    vals = []
    for kind, name in pieces:
        if kind == "lit":
            if not rest.startswith("/" + name):
                return None
            rest = rest[1 + len(name):]
            if rest and rest[0] != "/":
                return None
        elif kind == "one":
            if not rest.startswith("/"):
                return None
            j = rest.find("/", 1)
            seg = rest[1:] if j < 0 else rest[1:j]
            if seg == "":
                return None
            vals.append(seg)
            rest = "" if j < 0 else rest[j:]
        elif kind == "opt":
            if rest == "":
                vals.append(None)
                return vals
            if rest[0] != "/":
                return None
            body = rest[1:]
            if body.endswith("/"):
                body = body[:-1]
            if "/" in body:
                return None
            vals.append(body)
            return vals
        elif kind == "star":
            if rest == "":
                vals.append(None)
                return vals
            if rest[0] != "/":
                return None
            vals.append(rest[1:])
            return vals
        elif kind == "plus":
            if len(rest) < 2 or rest[0] != "/":
                return None
            vals.append(rest[1:])
            return vals
    return vals if rest in ("", "/") else None


def doc_dict(pieces, vals):
    d = {}
    for (k, n), v in zip([p for p in pieces if p[0] != "lit"], vals):
        d[n] = v
    return d


# ---------------------------------------------------------------- generators

def all_patterns(maxlen):
    out = []
    for k in range(0, maxlen + 1):
        for ps in itertools.product(PIECES, repeat=k):
            out.append("/" + "/".join(ps))
    return out


def all_paths(alpha, n):
    """same order as U_Router.seg_upto: k = 0..n, itertools.product order; '' is the empty path"""
    out = []
    for k in range(0, n + 1):
        for segs in itertools.product(alpha, repeat=k):
            out.append("".join("/" + s for s in segs))
    return out


MAL_PATTERNS = ["", "/", "//", "abc", "abc/", "/abc/", "//abc//a.c", ":", "/:", "/:?", "/:*", "/:+", "/:x/:x", "/:x/:x?",
                "/a+", "/a*", "/a?", "/(", "/)", "/(a)", "/[a]", "/[", "/a|b", "/^a", "/a$", "/$", "/a b", "/a\\d", "/\\",
                "/a{2}", "/a-b", "/~a", "/a#b", "/a&b", "/é", "/中/:x", "/a:b", "/::x", "/:x?y", "/x:?",
                "/:a?/:b?", "/:a*/:b+", "/:a+/x/:b*", "/:a?/b", "/:a*/b", "/:a+/b", "/:a*/:b", "/:a?/:b/c", "/a.c/a.c",
                "/abc/:rest+", "/a\nb", "/a\tb", "/:x\n", "/.", "/..", "/.*", "/.+", "/a.c/:r+", "/:r*/abc/a.c"]
MAL_PATHS = ["", "/", "//", "///", "abc", "abc/", "x/abc", "/abc\n", "/abc/\n", "/abc\n/", "/abc/x\ny", "/abc/x\n", "\n", "/\n",
             "/abc/\n\n", "/a\nb", "/a\tb", "/é", "/中/v", "/aXc", "/a.c", "/a+", "/a", "/aa", "/aaa", "/(", "/(a)", "/a|b",
             "/b", "/a b", "/a\\d", "/a1", "/\\", "/a{2}", "/aa", "/a-b", "/abc/abcdef", "/abcdef", "/abc/x/y/z/w/v/u",
             "/x/x", "/x/x/", "/x//", "/x/y/z", "/.", "/..", "/.*", "/ab", "/a.c/a.c", "/aXc/aXc", "/a.c/aXc", "/x/abc/a.c",
             "/x/y/abc/a.c", "/abc/a.c", "//abc/a.c", "/x/b", "/b", "//b", "/x/y/b", "/x/q/c", "/q/c"]

POOL = [("GET", "/abc"), ("GET", "/abc/:x"), ("GET", "/abc/abc"), ("GET", "/abc/:r*"), ("GET", "/:x/:y?"), ("POST", "/abc/:x"),
        ("GET", "/a.c/:r+"), ("PUT", "/:x"), ("DELETE", "/abc/:x/:x"), ("GET", "/:r*"), ("PATCH", "/abc"), ("get", "/abc"),
        ("GET", "/:a?/:b?"), ("POST", "/:a*/b"),
        # siblings: the same literals and the same parameter name, only the quantifier differs (and the method)
        ("PUT", "/abc/:x+"), ("DELETE", "/abc/:x*"), ("POST", "/abc/:x?"), ("GET", "/abc/:x+")]
SIBLINGS = {1, 5, 14, 15, 16, 17}          # indices in POOL of the routes spelled /abc/:x<quantifier>
QPATHS = ["", "/", "/abc", "/abc/", "/abc/abc", "/abc/x", "/abc/x/", "/abc/x/y", "/abcdef", "/abc/abcdef", "/aXc/v", "/a.c/v",
          "/a.c/", "/x", "/x/b", "/abc//", "abc", "/abc/x/x"]
QMETHODS = ["GET", "POST", "PUT", "DELETE", "PATCH", "HEAD", "get"]


# patterns with literal segments in several scripts / cases, and paths that a canonicalisation would identify with a path
# the pattern matches: the router matches the text as it is (literal segments must equal the path's segments IN FULL)
IDENT_PATTERNS = ["/abc", "/abc/:x", "/Abc", "/ABC/:x", "/abc/a.c", "/a.c/:r+", "/abc/:r*", "/:x/abc", "/abc/:y?", "/caf\u00e9", "/cafe\u0301/:x",
                  "/\ufb01le/:x", "/file/:x", "/stra\u00dfe", "/\u212b/:r*", "/\u00c5/:r*", "/\uff41\uff42\uff43", "/abc/v1", "/abc/V1/:x", "/a b/:x",
                  "/%61bc", "/abc./:x", "/abc/\u0130"]
IDENT_QPATHS = ["/ABC", "/Abc/x", "/abc.", "/abc /x", "/abc\u200b", "/\uff41\uff42\uff43", "/./abc", "/abc/../abc", "/abc;v=1", "/abc?x=1", "/abc#f",
                "\\abc", "/abc/X", "/%61%62%63", "/abc%20", "/abc/.", "/abc\ufeff", "\ufeff/abc", " /abc", "/abc\x00", "/abc\r"]


def ident_pairs(r, thorough):
    """(pattern, path): a path built to match the pattern, then every identlib.text_variants of the whole path and of one
    segment (case, Unicode normal forms, blanks, BOM, zero-width, full-width, look-alikes), plus URL habits: a trailing dot,
    doubled / extra slashes, '.' and '..' segments, percent-encoding of unreserved characters, ';params', '?query', '#frag'"""
    from harness import identlib
    import urllib.parse
    out = []
    for p in IDENT_PATTERNS:
        pcs = pieces_of(p)
        for _ in range(3 if thorough else 1):
            segs = []
            for kind, name in pcs:
                if kind == "lit":
                    segs.append(name)
                elif kind in ("one", "plus") or r.random() < 0.6:
                    segs.append(r.choice(["x", "Abc", "caf\u00e9", "v 1", "a.c", "\ufb01"]))
                    if kind in ("plus", "star") and r.random() < 0.4:
                        segs.append(r.choice(["y", "Z"]))
            q = "".join("/" + x for x in segs)
            vs = [q] + [t for _, t in identlib.text_variants(q)]
            for j, x in enumerate(segs):
                for _, t in identlib.text_variants(x):
                    if "/" not in t:
                        vs.append("".join("/" + (t if i == j else y) for i, y in enumerate(segs)))
                vs.append("".join("/" + (x + "." if i == j else y) for i, y in enumerate(segs)))
                vs.append("".join("/" + ("".join("%%%02X" % b for b in x.encode("utf-8")) if i == j else y) for i, y in enumerate(segs)))
                vs.append("".join("/" + (urllib.parse.quote(x, safe="") if i == j else y) for i, y in enumerate(segs)))
                vs.append("".join("/" + ("%%%02x" % ord(x[0]) + x[1:] if i == j and x and ord(x[0]) < 128 else y) for i, y in enumerate(segs)))
                vs.append("".join(("//" if i == j else "/") + y for i, y in enumerate(segs)))
                vs.append("".join(("/./" if i == j else "/") + y for i, y in enumerate(segs)))
                vs.append("".join(("/zz/../" if i == j else "/") + y for i, y in enumerate(segs)))
            vs += [q + t for t in (";v=1", "?a=1", "#top", "/.", "/..", "//", "/?", "%2F", "%00", "\\")] + [q.replace("/", "\\"), q[1:], "/" + q]
            for v in dict.fromkeys(vs):
                out.append((p, v))
    return out


class Box:
    hit = None


def build_router(routes):
    """routes: [(method, pattern, id)] -> (router, registration result)"""
    from mpgameserver.http_server import Route, JsonResponse
    rt = new_router()
    box = Box()

    def mk(i):
        def cb(request):
            box.hit = (i, dict(request.matches))
            return JsonResponse({"id": i}, 200)
        return cb
    objs = [Route("r%d" % i, m, p, mk(i)) for (m, p, i) in routes]
    for o, (m, p, i) in zip(objs, routes):
        o.rid = i
    reg = lib.guarded(lambda: rt.registerRoutes(objs), wrap=lambda x: [])
    return rt, box, reg


_ip = [0]


def fresh_ip():
    _ip[0] += 1
    n = _ip[0]
    return "10.%d.%d.%d" % ((n >> 16) & 255, (n >> 8) & 255, n & 255)


class Limiter:
    """stands for Router.limiter when the model's input says 'this client is over its limit'"""
    def __init__(self, answer):
        self.answer = answer

    def insert(self, k):
        return self.answer


def impl_dispatch(rt, box, method, path, limited):
    from mpgameserver.http_server import Request
    real = rt.limiter
    if limited:
        rt.limiter = Limiter(True)     # the limiter's answer is an input of the model (see TRUSTED)
    try:
        box.hit = None
        req = Request((fresh_ip(), 4000), method, path, {}, "", {}, io.BytesIO(b""))
        resp = rt.dispatch(req)
    finally:
        rt.limiter = real
    if resp.status_code == 200 and box.hit is not None:
        return [200, box.hit[0], enc_dict(box.hit[1])]
    return [resp.status_code]


def impl_get_route(rt, method, path):
    res = rt.getRoute(method, path)
    if res is None:
        return []
    endpt, d = res
    return [[endpt.rid, enc_dict(d)]]


# ---------------------------------------------------------------- histories on one long-lived router

PCT_SEGS = ["%61bc", "a%2Fb", "%2e%2e", "abc%2F", "%2F", "abc%2fx", "%41BC", "a%2ec"]
QPATHS_PCT = ["/%61bc", "/abc%2Fx", "/abc/%2e%2e", "/abc/a%2Fb", "/abc%2F", "/a%2ec/v", "/abc/x%2Fy/z", "/%2F", "/abc/%00"]
HDRS = {b"Content-Length": [b"0"]}


def sample_path(pcs, r):
    """a path the pattern is meant to match (by construction from its pieces), sometimes spoiled"""
    out = ""
    for kind, name in pcs:
        if kind == "lit":
            out += "/" + name
        elif kind == "one":
            out += "/" + r.choice(["x", "abc", "a.c", "%2e%2e"])
        elif kind == "opt":
            out += r.choice(["", "/", "/x", "/x/"])
        elif kind == "star":
            out += r.choice(["", "/", "/x", "/x/y", "//x"])
        else:
            out += r.choice(["/x", "/x/y", "/x/"])
    c = r.random()
    if c < 0.15:
        out += "/"
    elif c < 0.25:
        out += "def"
    elif c < 0.3:
        out = out[:-1]
    return out


def build_resource(group, box):
    """a Resource subclass written the way a user writes one: decorated methods in definition order.
    group: [(method, pattern, id)] with methods GET/PUT/POST/DELETE"""
    import mpgameserver.http_server as H
    src = ["class R%dResource(Resource):" % group[0][2]]
    for (m, p, i) in group:
        src.append("    @%s(%r)" % (m.lower(), p))
        src.append("    def h%d(self, request):" % i)
        src.append("        return hit(%d, request)" % i)

    def hit(i, request):
        box.hit = (i, dict(request.matches))
        return H.JsonResponse({"id": i}, 200)
    ns = {"Resource": H.Resource, "get": H.get, "put": H.put, "post": H.post, "delete": H.delete, "hit": hit}
    exec("\n".join(src), ns)
    res = ns["R%dResource" % group[0][2]]()
    for route in res.routes():
        route.rid = int(route.name.rsplit(".h", 1)[1])
    return res


def impl_dispatch_ip(rt, box, method, path, ip):
    """dispatch through the router's own rate limiter"""
    from mpgameserver.http_server import Request
    box.hit = None
    req = Request((ip, 4000), method, path, {}, "", dict(HDRS), io.BytesIO(b""))
    resp = rt.dispatch(req)
    if resp.status_code == 200 and box.hit is not None:
        return [200, box.hit[0], enc_dict(box.hit[1])]
    return [resp.status_code]


def doc_valid(m, p, by_resource):
    pcs = pieces_of(p)
    return sum(1 for k_, _ in pcs if k_ in ("opt", "star", "plus")) <= 1 and (by_resource or m in ("GET", "POST", "PUT", "DELETE"))


def histories(run, violation):
    from mpgameserver.http_server import Route, JsonResponse
    M, r = run.model, run.rng
    margs, mimpl, mcases = [], [], []
    nh = 2500 if run.thorough() else 160
    other = build_router([("GET", "/abc/:x", 900), ("POST", "/:r*", 901)])      # a second router alive in the process
    for hi in range(nh):
        rt = new_router()
        box = Box()
        order = r.sample(range(len(POOL)), r.randrange(2, 6))
        # split the order into registration calls: single Route lists, or Resources of 1-3 decorated methods
        calls, i = [], 0
        while i < len(order):
            k = r.choice([1, 1, 2, 3])
            grp = [(POOL[j][0], POOL[j][1], j) for j in order[i:i + k]]
            kind = "resource" if r.random() < 0.5 and all(g[0] in ("GET", "POST", "PUT", "DELETE") for g in grp) else "routes"
            calls.append((kind, grp))
            i += k
        table = []          # the documented table so far: [(method, pieces, id, pattern)]
        log = []
        ipn = [0, fresh_ip()]

        def ask(qs, when):
            res = []
            for (m, q) in qs:
                ipn[0] += 1
                if ipn[0] % 3 == 0:
                    ipn[1] = fresh_ip()         # at most three requests per client address: below the limit of 5
                g = impl_get_route(rt, m, q)
                d = impl_dispatch_ip(rt, box, m, q, ipn[1])
                res.append([g, d])
                exp = []
                for (rm, pcs, i_, p_) in table:
                    if rm == m:
                        v = doc_match(pcs, q)
                        if v is not None:
                            exp = [[i_, enc_dict(doc_dict(pcs, v))]]
                            break
                run.evaluations += 1
                case = {"history": log[-6:], "asked": when, "routes": [(x[0], x[3], x[2]) for x in table], "method": m, "path": q}
                if all(documented(x[1]) for x in table):
                    if g != exp:
                        violation("first-match", dict(case, expected=lib.jsonable(exp), router=lib.jsonable(g)))
                    want = [404] if not exp else [200] + exp[0]
                    if d != want:
                        violation("dispatch-status", dict(case, limited=False, expected=lib.jsonable(want), router=lib.jsonable(d)))
                    if exp:
                        run.nt(("hist", hi, len(log), m, q))
            # the same state through the model: the routes registered so far as one table
            margs.append([[[S(x[0]), S(x[3]), x[2]] for x in table], [[S(m), S(q), False] for (m, q) in qs]])
            mimpl.append([lib.ok([]), res])
            mcases.append(({"history": list(log), "asked": when}, len(qs)))
            # the other router of the process is not disturbed
            if impl_get_route(other[0], "GET", "/abc/x") != [[900, enc_dict({"x": "x"})]]:
                violation("first-match", dict(case, note="a second Router instance of the process answers differently now"))

        for kind, grp in calls:
            qs = [(r.choice(QMETHODS[:4]) if r.random() < 0.85 else r.choice(QMETHODS), r.choice(QPATHS + QPATHS_PCT))
                  for _ in range(3)]
            for (m, p, i_) in grp:
                qs.append((m if r.random() < 0.8 else r.choice(QMETHODS[:4]), sample_path(pieces_of(p), r)))
            qs = [(m, q) for (m, q) in qs if "\n" not in q]
            ask(qs, "before " + kind + repr([g[2] for g in grp]))
            if kind == "resource":
                reg = lib.guarded(lambda: rt.registerRoutes(build_resource(grp, box)), wrap=lambda x: [])
            else:
                def mk(i_):
                    def cb(request):
                        box.hit = (i_, dict(request.matches))
                        return JsonResponse({"id": i_}, 200)
                    return cb
                objs = [Route("r%d" % i_, m, p, mk(i_)) for (m, p, i_) in grp]
                for o, g in zip(objs, grp):
                    o.rid = g[2]
                reg = lib.guarded(lambda: rt.registerRoutes(objs), wrap=lambda x: [])
            ok_all = True
            for (m, p, i_) in grp:
                if not doc_valid(m, p, kind == "resource"):
                    ok_all = False
                    break
                table.append((m, pieces_of(p), i_, p))
            log.append([kind, [(g[0], g[1], g[2]) for g in grp], "ok" if reg[0] == 0 else "raised"])
            run.evaluations += 1
            got_ids = [getattr(x, "rid", None) for x in rt.routes]
            if (reg[0] == 0) != ok_all or got_ids != [x[2] for x in table]:
                violation("first-match", {"history": log[-6:], "note": "registration outcome", "registerRoutes": reg,
                                          "router_routes": got_ids, "expected_routes": [x[2] for x in table]})
            ask(qs, "after " + kind + repr([g[2] for g in grp]))
        run.count("histories")
    mod = []
    for i in range(0, len(margs), 200):
        mod += M.call_many("router_table", margs[i:i + 200])
    run.compare("router_history", mcases, mimpl, [[m[0], [[x[0], x[1]] for x in m[1]]] for m in mod])
    run.count("history_queries", sum(c[1] for c in mcases))



# ---------------------------------------------------------------- the run

def run(run):
    import logging, warnings
    warnings.simplefilter('ignore')        # re.compile FutureWarning on unescaped literals (unrepaired tree only)
    logging.disable(logging.CRITICAL)      # 'unsupported method' is logged by the router for every such query
    M = run.model
    r = run.rng
    rt0 = new_router()
    nviol = [0]

    def violation(what, case):
        nviol[0] += 1
        run.count("oracle_violations")
        if nviol[0] <= 8:
            run.oracle_violation(what, case, SITE_TABLE if what in ("first-match", "dispatch-status") else SITE)

    # ---- 1. patternToRegex: text and tokens
    deferred = []
    pats = all_patterns(4) + MAL_PATTERNS
    meta = "()[]{}?*+-|^$\\.&~# \t:ab/é"
    for _ in range(6000 if run.thorough() else 600):
        pats.append("".join(r.choice(meta) for _ in range(r.randrange(0, 9))))
    pats = list(dict.fromkeys(pats))
    comp = [impl_compile(rt0, p) for p in pats]
    run.compare("router_compile", [(p,) for p in pats], comp, M.call_many("router_compile", [[S(p)] for p in pats]))
    okp = [p for p, c in zip(pats, comp) if c[0] == 0]
    run.compare("router_ast_text", [(p,) for p in okp], [c[1][0] for c in comp if c[0] == 0],
                M.call_many("router_ast_text", [[S(p)] for p in okp]))
    run.count("patterns", len(pats))
    run.count("patterns_valueerror", sum(1 for c in comp if c[0] == 1 and c[1] == 1))
    run.count("patterns_other_error", sum(1 for c in comp if c[0] == 1 and c[1] != 1))
    for p, c in zip(pats, comp):
        # the oracle on compilation: within the grammar (at most one wildcard piece) a pattern must compile
        pcs = pieces_of(p)
        nw = sum(1 for k, _ in pcs if k in ("opt", "star", "plus"))
        if nw <= 1 and c[0] != 0:
            deferred.append(("pattern-rejected", {"pattern": p, "err": c[1]}))
        if nw > 1 and not (c[0] == 1 and c[1] == 1):
            deferred.append(("second-wildcard-accepted", {"pattern": p}))
    run.sample({"unit": "router_compile", "pattern": "/abc/:x/:r+", "impl": (lambda c: [U(c[1][0]), [U(t) for t in c[1][1]]] if c[0] == 0 else c)(impl_compile(rt0, "/abc/:x/:r+"))})

    compiled = {}

    def rx(p):
        if p not in compiled:
            try:
                compiled[p] = rt0.patternToRegex(p)
            except Exception as e:       # noqa
                compiled[p] = lib.exc_code(e)
        return compiled[p]

    def impl_match(p, path):
        c = rx(p)
        if isinstance(c, int):
            return lib.err(c)
        m = c[0].match(path)
        return lib.ok([] if m is None else [enc_groups(m.groups())])

    def check_pair(p, pcs, path, groups):
        """oracle on one (pattern, path): groups = impl groups tuple or None"""
        exp = doc_match(pcs, path)
        got = None if groups is None else list(groups)
        if exp != got:
            violation("route-mismatch", {"pattern": p, "path": path, "documented": exp, "router": got,
                                         "kind": "over-match" if exp is None else ("under-match" if got is None else "bindings")})

    # ---- 0. the D11 witnesses, always, first
    for p, q in [("/abc/:rest+", "/abcdef"), ("/a.c", "/aXc"), ("/abc/:rest+", "/abcdef/x"), ("/a.c/:x", "/abc/v")]:
        c = rx(p)
        run.evaluations += 1
        if not isinstance(c, int):
            m = c[0].match(q)
            check_pair(p, pieces_of(p), q, None if m is None else m.groups())
    c = rx("/abc/:rest+")
    run.sample({"oracle": "documented rule", "pattern": "/abc/:rest+", "path": "/abcdef",
                "router_matches": (not isinstance(c, int)) and c[0].match("/abcdef") is not None, "documented": None})
    for w, cse in deferred:
        violation(w, cse)

    # ---- 2. explicit pairs: malformed patterns x malformed paths, D11 witnesses, random
    pairs = [("/abc/:rest+", "/abcdef"), ("/a.c", "/aXc"), ("/abc/:rest+", "/abc/def"), ("/abc/:rest+", "/abc"),
             ("/abc/:rest+", "/abc/"), ("/a.c", "/a.c")]
    small_paths = all_paths(PSEGS, 2)
    for p in MAL_PATTERNS:
        for q in MAL_PATHS + small_paths:
            pairs.append((p, q))
    somep = all_patterns(3)
    for it in range(40000 if run.thorough() else 6000):
        p = r.choice(somep)
        k = r.randrange(0, 7)
        segs = PSEGS + ["y", "a.cX", "é"] + (PCT_SEGS if it % 4 == 0 else [])
        q = "".join("/" + r.choice(segs) for _ in range(k))
        if r.random() < 0.1:
            q = q[1:]
        if r.random() < 0.05:
            q += "\n"
        pairs.append((p, q))
    idp = ident_pairs(r, run.thorough())
    run.count("identification_pairs", len(idp))
    pairs += idp
    impl = [impl_match(p, q) for p, q in pairs]
    run.compare("router_match", pairs, impl, M.call_many("router_match", [[S(p), S(q)] for p, q in pairs]))
    # the documented rule in the model vs the real router, on the documented grammar and newline-free paths
    dpairs = [(p, q) for (p, q) in pairs if documented(pieces_of(p)) and "\n" not in q and not isinstance(rx(p), int)]
    mspec = M.call_many("router_spec", [[S(p), S(q)] for p, q in dpairs])
    run.compare("router_spec", dpairs, [[True, impl_match(p, q)[1]] for p, q in dpairs], [[bool(m[0]), m[1]] for m in mspec])
    for (p, q), res in zip(pairs, impl):
        pcs = pieces_of(p)
        if res[0] == 0 and documented(pcs) and "\n" not in q:
            run.evaluations += 1
            c = rx(p)
            m = c[0].match(q)
            check_pair(p, pcs, q, None if m is None else m.groups())
            if m is not None or (pcs and q.startswith("/" + pcs[0][1])):
                run.nt((p, q))
    run.count("explicit_pairs", len(pairs))

    # ---- 3. exhaustive sweeps
    def sweep(plist, n, label):
        paths = all_paths(PSEGS, n)
        args = [[S(p), [S(a) for a in PSEGS], n] for p in plist]
        mod = []
        for i in range(0, len(args), 100):
            mod += M.call_many("router_sweep", args[i:i + 100])
        spec_pl = [p for p in plist if documented(pieces_of(p)) and not isinstance(rx(p), int)]
        mspec = {}
        sargs = [[S(p), [S(a) for a in PSEGS], n] for p in spec_pl]
        for i in range(0, len(sargs), 100):
            for p, m in zip(spec_pl[i:i + 100], M.call_many("router_sweep_spec", sargs[i:i + 100])):
                mspec[p] = m
        for p, m in zip(plist, mod):
            c = rx(p)
            pcs = pieces_of(p)
            doc = documented(pcs)
            if isinstance(c, int):
                run.compare("router_sweep", [(p,)], [lib.err(c)], [m])
                continue
            match = c[0].match
            im = []
            for q in paths:
                mm = match(q)
                if mm is not None:
                    im.append([S(q), enc_groups(mm.groups())])
                    if doc:
                        check_pair(p, pcs, q, mm.groups())
                    run.nt((p, q))
                elif doc and doc_match(pcs, q) is not None:
                    check_pair(p, pcs, q, None)
            run.evaluations += len(paths)
            run.count("sweep_pairs_" + label, len(paths))
            run.count("sweep_matches_" + label, len(im))
            good = m[0] == 0 and m[1][0] == len(paths) and m[1][1] == im
            if good:
                run.compare("router_sweep", [(p, n)], [True], [True])
            else:
                # report the first differing path only
                mm = {U(x[0]): x[1] for x in (m[1][1] if m[0] == 0 else [])}
                ii = {U(x[0]): x[1] for x in im}
                bad = [q for q in paths if mm.get(q) != ii.get(q)][:1]
                run.compare("router_sweep", [(p, n, bad)], [[len(paths), [ii.get(q) for q in bad]]],
                            [[m[1][0] if m[0] == 0 else m, [mm.get(q) for q in bad]]])
            if p in mspec:
                sp = mspec[p]
                if bool(sp[0]) and sp[1] == im:
                    run.compare("router_spec", [(p, n)], [True], [True])
                else:
                    ss = {U(x[0]): x[1] for x in sp[1]}
                    ii = {U(x[0]): x[1] for x in im}
                    bad = [q for q in paths if ss.get(q) != ii.get(q)][:1]
                    run.compare("router_spec", [(p, n, bad)], [[True, [ii.get(q) for q in bad]]],
                                [[bool(sp[0]), [ss.get(q) for q in bad]]])
        run.exhaustive.append("%s: %d patterns x every path of <= %d segments over %r (%d paths)"
                              % (label, len(plist), n, PSEGS, len(paths)))

    p4 = all_patterns(4)
    if run.thorough():
        sweep(p4, 5, "all<=4pieces_x_paths<=5")
    else:
        sweep(p4, 3, "all<=4pieces_x_paths<=3")
        sweep([p for p in all_patterns(2) if documented(pieces_of(p))], 5, "documented<=2pieces_x_paths<=5")
    sweep(MAL_PATTERNS, 3, "malformed_patterns_x_paths<=3")

    # ---- 4. route tables: <= 3 routes, every registration order, every method
    tables = []
    for k in (1, 2, 3):
        combos = list(itertools.combinations(range(len(POOL)), k))
        if not run.thorough() and k == 3:
            combos = r.sample(combos, 60)
        for cb in combos:
            for perm in itertools.permutations(cb):
                tables.append([(POOL[i][0], POOL[i][1], i) for i in perm])
    tables.append([("GET", "/:a?/:b?", 1), ("GET", "/abc", 2)])          # ValueError first: nothing registered
    tables.append([("GET", "/abc", 1), ("GET", "/:a?/:b?", 2), ("GET", "/abc/:x", 3)])
    args, impls, cases = [], [], []
    for tb in tables:
        rt, box, reg = build_router(tb)
        qs = [(m, q, False) for m in QMETHODS for q in QPATHS]
        if not run.thorough() and not (len(tb) >= 2 and all(i in SIBLINGS for (_, _, i) in tb)):
            qs = r.sample(qs, 30)       # tables of sibling routes (same skeleton, different quantifier) are always asked everything
        qs += [("GET", "/abc/x", True), ("HEAD", "/abc", True)]
        qs += [(m, q, False) for m in ("GET", "POST") for q in r.sample(QPATHS_PCT, 2)]
        qs += [(m, q, False) for m in ("GET", "get", "Get") for q in r.sample(IDENT_QPATHS, 2)]
        res = []
        for (m, q, lim) in qs:
            g = impl_get_route(rt, m, q)
            d = impl_dispatch(rt, box, m, q, lim)
            res.append((g, d))
        # the oracle: first registered route of the method that matches by the documented rule; otherwise 404
        registered = []
        for (m, p, i) in tb:
            pcs = pieces_of(p)
            if sum(1 for k_, _ in pcs if k_ in ("opt", "star", "plus")) > 1 or m not in ("GET", "POST", "PUT", "DELETE"):
                break
            registered.append((m, pcs, i, p))
        if all(documented(x[1]) for x in registered):
            for (m, q, lim), (g, d) in zip(qs, res):
                exp = []
                for (rm, pcs, i, p) in registered:
                    if rm == m:
                        v = doc_match(pcs, q)
                        if v is not None:
                            exp = [[i, enc_dict(doc_dict(pcs, v))]]
                            break
                run.evaluations += 1
                if g != exp:
                    violation("first-match", {"routes": [(x[0], x[3], x[2]) for x in registered], "method": m, "path": q,
                                              "expected": lib.jsonable(exp), "router": lib.jsonable(g)})
                want = [429] if lim else ([404] if not exp else [200] + exp[0])
                if d != want:
                    violation("dispatch-status", {"routes": [(x[0], x[3], x[2]) for x in registered], "method": m, "path": q,
                                                  "limited": lim, "expected": lib.jsonable(want), "router": lib.jsonable(d)})
                if exp:
                    run.nt((tuple(x[2] for x in registered), m, q))
        args.append([[[S(m), S(p), i] for (m, p, i) in tb], [[S(m), S(q), lim] for (m, q, lim) in qs]])
        impls.append([reg, [[g, d] for (g, d) in res]])
        cases.append((tb, len(qs)))
    mod = []
    for i in range(0, len(args), 200):
        mod += M.call_many("router_table", args[i:i + 200])
    # model reply: [reg, [[getRoute, dispatch, spec getRoute] ...]]
    run.compare("router_table", cases, impls, [[m[0], [[x[0], x[1]] for x in m[1]]] for m in mod])
    run.evaluations += sum(c[1] for c in cases)
    run.count("tables", len(tables))
    run.exhaustive.append("tables: every subset of <= %s routes of a pool of %d (method, pattern) pairs in every registration "
                          "order (%d tables)" % ("3" if run.thorough() else "2 (3: sample of 60 subsets)", len(POOL), len(tables)))
    # spec_get_route (Coq) vs the real getRoute where every registered pattern is in the documented grammar
    sc, si, sm = [], [], []
    for tb, im, m in zip(tables, impls, mod):
        if all(documented(pieces_of(p)) for (_, p, _) in tb) and im[0][0] == 0:
            sc.append((tb,))
            si.append([x[0] for x in im[1]])
            sm.append([x[2] for x in m[1]])
    run.compare("router_spec_get_route", sc, si, sm)
    run.sample({"unit": "router_table", "routes": tables[40], "query": ["GET", "/abc/x"],
                "impl": lib.jsonable(impl_get_route(build_router(tables[40])[0], "GET", "/abc/x"))})

    # ---- 4b. the identification pairs through the front door: one registered route, the variants of a matching path asked
    # through getRoute AND dispatch (a canonicalisation of the request path or of the method before matching shows here)
    by_pat = {}
    for p, q in idp:
        if "\n" not in q:
            by_pat.setdefault(p, []).append(q)
    args, impls, cases = [], [], []
    for p, vs in by_pat.items():
        pcs = pieces_of(p)
        tb = [("GET", p, 1)]
        rt, box, reg = build_router(tb)
        qs = [("GET", q, False) for q in vs] + [(m, vs[0], False) for m in ("get", "Get", "GET ", "POST")]
        res = []
        for (m, q, lim) in qs:
            g = impl_get_route(rt, m, q)
            d = impl_dispatch(rt, box, m, q, lim)
            res.append((g, d))
            v = doc_match(pcs, q) if m == "GET" else None
            exp = [] if v is None else [[1, enc_dict(doc_dict(pcs, v))]]
            run.evaluations += 1
            if g != exp:
                violation("first-match", {"routes": [("GET", p, 1)], "method": m, "path": q, "expected": lib.jsonable(exp),
                                          "router": lib.jsonable(g), "note": "variant of a matching path"})
            want = [404] if not exp else [200] + exp[0]
            if d != want:
                violation("dispatch-status", {"routes": [("GET", p, 1)], "method": m, "path": q, "limited": False,
                                              "expected": lib.jsonable(want), "router": lib.jsonable(d)})
            if exp:
                run.nt(("ident", p, q))
        args.append([[[S(m), S(pp), i] for (m, pp, i) in tb], [[S(m), S(q), lim] for (m, q, lim) in qs]])
        impls.append([reg, [[g, d] for (g, d) in res]])
        cases.append((tb, len(qs)))
    mod = M.call_many("router_table", args)
    run.compare("router_table", cases, impls, [[m[0], [[x[0], x[1]] for x in m[1]]] for m in mod])
    run.count("identification_front_door_queries", sum(c[1] for c in cases))

    # ---- 5. histories: registration after requests were served, Resource classes, the real limiter
    histories(run, violation)

    run.rules.append(RULE)


def replay(run, data):
    """./check C16 --replay <file>: re-evaluate the recorded failing case on the implementation"""
    import json
    f = data.get("failure") or {}
    case = f.get("case") or {}
    print(json.dumps({"what": f.get("what"), "case": case}, indent=1))
    rt = new_router()
    if "pattern" in case and "path" in case:
        pcs = pieces_of(case["pattern"])
        try:
            rx, toks = rt.patternToRegex(case["pattern"])
        except Exception as e:      # noqa
            print("patternToRegex raised %r" % (e,))
            return 1
        m = rx.match(case["path"])
        got = None if m is None else list(m.groups())
        exp = doc_match(pcs, case["path"]) if documented(pcs) else "outside the documented grammar"
        print("regex %r\nrouter   -> %r\ndocumented -> %r" % (rx.pattern, got, exp))
        return 0 if got == exp else 1
    if "pattern" in case:
        print("patternToRegex ->", impl_compile(rt, case["pattern"]))
        return 1
    if "routes" in case:
        rt, box, reg = build_router([tuple(x) for x in case["routes"]])
        print("registerRoutes ->", reg)
        print("getRoute ->", impl_get_route(rt, case["method"], case["path"]), " expected ", case.get("expected"))
        return 1
    return 0
