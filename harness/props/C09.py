"""C09 — wire codec round-trips; datagrams respect the MTU; packing never fails.

Correspondence: hdr_codec / hdr_dec / msgs_enc / clear_dgram / crc_parse / crc32 / sealed_dgram /
sealed_parse / toy_tag / env_of_mtu / consts against PacketHeader, Packet, Packet.setMTU,
Packet.overhead; conn_run (the whole ConnectionBase state after every event) on send/tick
histories aimed at the packing boundaries.
Oracle (implementation only): Packet.from_bytes(Packet.to_bytes(p)) == p with length/count
describing the payload; every datagram handed to the socket is <= MTU-28 bytes, decodes
independently, and the multiset of messages emitted equals the multiset queued; nothing raises;
messages that fit together travel together.
Packet.setMTU on LIVE connections (connsim's optional event "setmtu", model unit conn_run_mtu): a connection
created under one MTU keeps running while the MTU is lowered or raised, with messages queued and re-sends pending
across the change; every datagram emitted after the change is measured against the NEW MTU-28, messages that fit
together under the new MTU travel together, boundary lengths of the new MTU leave the queue, nothing raises and
nothing queued is lost (one endpoint histories "live-mtu" and two-endpoint sessions).
LONG-LIVED connections (histories "wrap" / "long", net sessions "wrap-*"): the 16-bit message and datagram counters start
just below the ring wrap 65535 -> 1 (model side: unit conn_run_from) and cross it while messages are queued, several per
datagram, fragmented ones included, in all retry modes and both roles; thorough: one history that queues 70000 messages
on one connection from the initial counters.  Same oracle as everywhere (nothing raises, nothing queued is lost, every
datagram within the MTU and decodable); in addition, after EVERY event of every history the connection's sequence
counters (seq_sending, seq_message, seq_fragment) and the sequence numbers of the queued messages must still be
members of the ring: SeqNum instances in 1..65535 (0 only while unused) — a counter that silently left the ring is
reported where it happens, long before a struct.pack can fail.
BACKLOGS (histories "backlog"): hundreds of queued messages that do NOT fit into the datagram under construction (bulk
messages of about half / a third / a whole datagram, or the 260..400 fragments of one large payload) with tiny messages
queued BEHIND them, before them and in the middle.  Oracle after EVERY build of EVERY history (not only the backlog ones),
stated as the packer's first-fit rule over the WHOLE queue: once a datagram has been produced, no message that is still
queued would have fitted into it (payload + accounted overhead within MAX_PAYLOAD_SIZE+2 and fewer than 255 messages) —
"messages that fit together travel in one datagram" however long the queue is."""
import struct, binascii, collections
from harness import lib
from harness import connsim as S
from harness import packlib as P

USES_GENERATED_KERNELS = True
USES_GENERATED_HDR = True
RULE = ("codec: random + boundary (0/1/max of every header field, 0/1/2/254/255/256 messages, payload lengths 0/1/65535/65536) "
        "+ malformed (short, bad magic, bad type, wrong direction, bad crc, truncated/extended, tampered header or tag); "
        "packing: send/tick histories with empty payloads, hundreds of tiny messages, lengths MAX_PAYLOAD_SIZE-3..+2, "
        "sums straddling the datagram capacity, all retry modes, client and server role, MTU sweep "
        "(thorough: every MTU 512..1500 for the boundary lengths); non-trivial = a history in which a datagram is "
        "within 5 bytes of MTU-28, or carries 255 messages, or leaves messages queued for a later datagram; "
        "long-lived connections: message / datagram counters started 0..300 below 65535 and driven across the wrap with 1..60 "
        "messages per datagram (thorough: 70000 messages from the initial counters), ring membership of every counter after every event")
ASSUMPTIONS = [
    "AEAD correctness: open k iv aad (seal k iv aad p) = Some p and |seal ... p| = |p| + 16 (AES-GCM of the cryptography package); "
    "crc is any function into 0..2^32-1 (premises of the closed round-trip theorems; instantiated by a toy scheme in Coq, "
    "sampled with the real AES-GCM / CRC-32 on every run)",
    "packet assembly is only reached through send()/disconnect()/the handshake replies, which never queue a message of "
    "type UNKNOWN (hypothesis no_unknown of pack_total / fit_together)",
    "live setMTU histories: a message (or fragment) still queued or pending re-send when the MTU is LOWERED fits the new "
    "MTU on its own (the generator only queues lengths <= min(old, new) MAX_PAYLOAD_SIZE before a change); a single "
    "message longer than the new limit can neither be sent within the new MTU nor be re-fragmented by the code, it "
    "stays queued — outside the property's quantifier, not exercised",
]
TRUSTED = ["harness/packlib.py decode_datagram: independent struct/AESGCM/CRC decoding of the emitted datagrams"]

T = S.TICKS
TYPES = [0, 1, 2, 3, 4, 5, 6, 7]
RING = 65535


def ring_probe(conn):
    """the connection's sequence counters and the numbers of the queued / pending messages are members of the ring:
    SeqNum instances within 1..65535 (0 only for a counter that was never advanced).  None when fine."""
    from mpgameserver.connection import SeqNum
    for name in ("seq_sending", "seq_message", "seq_fragment"):
        v = getattr(conn, name)
        if not isinstance(v, SeqNum) or not (0 <= int(v) <= RING):
            return {"counter": name, "type": type(v).__name__, "value": int(v)}
    for m in conn.outgoing_messages:
        if not (1 <= int(m.seq) <= RING):
            return {"counter": "queued message seq", "type": type(m.seq).__name__, "value": int(m.seq)}
    for name in ("pending_acks", "pending_retry_msg"):
        for k in getattr(conn, name):
            if not (1 <= int(k) <= RING):
                return {"counter": name + " key", "type": type(k).__name__, "value": int(k)}
    return None


def queue_probe(log):
    """probe for packlib.drive: the ring probe, and (side effect) per event the shortest message still queued:
    log[n] = (queue length, shortest queued payload, its queue position, sequence numbers of the first queued entries)"""
    def f(conn):
        q = conn.outgoing_messages
        if q:
            pos = min(range(len(q)), key=lambda i: len(q[i].payload))
            log.append((len(q), len(q[pos].payload), pos, int(q[pos].seq)))
        else:
            log.append((0, None, None, None))
        return ring_probe(conn)
    return f


# ------------------------------------------------------------------ implementation runners

def mk_header(h):
    from mpgameserver.connection import PacketHeader, PacketType
    hdr = PacketHeader()
    hdr.isServer = not h[0]
    hdr.ctime, hdr.seq, hdr.ack = h[1], h[2], h[3]
    hdr.pkt_type = PacketType(h[4])
    hdr.length, hdr.count, hdr.ack_bits = h[5], h[6], h[7]
    return hdr


def hdr_list(hdr):
    return [1 if hdr.isServer else 0, hdr.ctime, int(hdr.seq), int(hdr.ack), hdr.pkt_type.value, hdr.length,
            hdr.count, hdr.ack_bits]


def impl_hdr_enc(h):
    return lib.guarded(lambda: mk_header(h).to_bytes())


def impl_hdr_dec(is_server, d):
    from mpgameserver.connection import PacketHeader
    return lib.guarded(lambda: hdr_list(PacketHeader.from_bytes(bool(is_server), d)))


def mk_msgs(ms):
    from mpgameserver.connection import PendingMessage, PacketType
    return [PendingMessage(s, PacketType(t), p, None, 0) for s, t, p in ms]


def impl_msgs_enc(ms):
    from mpgameserver.connection import Packet
    return lib.guarded(lambda: bytes(Packet.create(mk_header([1, 0, 0, 0, 0, 0, 0, 0]), mk_msgs(ms)).msg))


def impl_dgram(key_bytes, h, ms):
    """Packet.create + to_bytes; also returns the header fields create() filled in"""
    from mpgameserver.connection import Packet

    def f():
        pkt = Packet.create(mk_header(h), mk_msgs(ms))
        return bytes(pkt.to_bytes(key_bytes))
    return lib.guarded(f)


def impl_parse(is_server, key_bytes, d):
    """PacketHeader.from_bytes + Packet.from_bytes -> [hdr, msgs]"""
    from mpgameserver.connection import Packet, PacketHeader

    def f():
        hdr = PacketHeader.from_bytes(bool(is_server), d)
        pkt = Packet.from_bytes(hdr, key_bytes, d)
        return [[int(m.seq), m.type.value, bytes(m.payload)] for m in pkt.msgs]
    return lib.guarded(f)


def impl_env(mtu):
    from mpgameserver.connection import Packet
    try:
        Packet.setMTU(mtu)
        return [lib.ok([Packet.MAX_PAYLOAD_SIZE, Packet.MAX_FRAGMENT_SIZE, Packet.MAX_FRAGMENTS]), Packet.MAX_SIZE]
    finally:
        S.restore_mtu()


def impl_consts(mtu, n):
    from mpgameserver.connection import Packet, PacketHeader
    names = ["MTU", "MAX_SIZE", "MAX_SIZE_CRC", "MAX_PAYLOAD_SIZE", "MAX_FRAGMENT_SIZE", "RECV_SIZE"]
    saved = [getattr(Packet, x) for x in names]
    try:
        r = lib.guarded(lambda: (Packet.setMTU(mtu), [getattr(Packet, x) for x in names])[1])
    finally:
        for x, v in zip(names, saved):
            setattr(Packet, x, v)
    return [saved, r, lib.guarded(lambda: Packet.overhead(n)), PacketHeader.SIZE, PacketHeader.TAG_SIZE,
            PacketHeader.CRC_SIZE, Packet.MAX_FRAGMENTS, Packet.UDP_HEADER_SIZE]


# ------------------------------------------------------------------ generators: codec

def rnd_bytes(r, n):
    return bytes(r.getrandbits(8) for _ in range(n))


def gen_header(r, valid=True):
    lim = [2, 2 ** 32, 2 ** 16, 2 ** 16, 8, 2 ** 16, 2 ** 8, 2 ** 32]
    h = []
    for i, m in enumerate(lim):
        c = r.random()
        if c < 0.25:
            v = 0
        elif c < 0.5:
            v = m - 1
        elif c < 0.6:
            v = 1
        else:
            v = r.randrange(m)
        h.append(v)
    if not valid:
        i = r.choice([1, 2, 3, 5, 6, 7])
        h[i] = r.choice([lim[i], lim[i] + 1, -1, lim[i] * 2 + 3, -lim[i]])
    return h


def gen_msgs(r, n, maxlen=40, bad=False):
    ms = []
    for _ in range(n):
        c = r.random()
        ln = 0 if c < 0.25 else (1 if c < 0.35 else r.randrange(0, maxlen + 1))
        ms.append([r.choice([0, 1, 65535, r.randrange(65536)]), r.choice(TYPES), rnd_bytes(r, ln)])
    if bad and ms:
        r.choice(ms)[0] = r.choice([65536, -1, 70000, 2 ** 32])
    return ms


def codec(run):
    M, r = run.model, run.rng
    scale = 25 if run.thorough() else 1
    from mpgameserver.connection import PacketHeader

    # ---- consts / env_of_mtu (translator side and the model's environment)
    mtus = [512, 513, 576, 1095, 1096, 1097, 1280, 1499, 1500, 9000, 100, 66, 64, 0] + [r.randrange(512, 1501) for _ in range(20)]
    if run.thorough():
        mtus = sorted(set(mtus + list(range(512, 1501))))
        run.exhaustive.append("env_of_mtu / setMTU: every MTU 512..1500")
    ccases = [(m, n) for m in mtus[:40] for n in (0, 1, 2, 3, 255)] + [(m, 4) for m in mtus]
    run.compare("consts", ccases, [impl_consts(*c) for c in ccases], M.call_many("consts", [list(c) for c in ccases]))
    run.compare("env_of_mtu", mtus, [impl_env(m) for m in mtus], M.call_many("env_of_mtu", [[m] for m in mtus]))

    # ---- header encode: valid / out-of-range
    hs = [gen_header(r) for _ in range(600 * scale)] + [gen_header(r, valid=False) for _ in range(300 * scale)]
    for i in range(8):          # each field at its extremes, the others mid-range
        lim = [2, 2 ** 32, 2 ** 16, 2 ** 16, 8, 2 ** 16, 2 ** 8, 2 ** 32][i]
        for v in (0, 1, lim - 1) + ((lim, -1) if i not in (0, 4) else ()):
            h = [1, 1000, 10, 9, 6, 100, 2, 5]
            h[i] = v
            hs.append(h)
    ie = [impl_hdr_enc(h) for h in hs]
    run.compare("hdr_codec", hs, ie, M.call_many("hdr_codec", [[h] for h in hs]))
    # the same cases on PacketHeader.to_bytes as REGENERATED from connection.py (tools/py2v_bytes.py -> Gen/HdrKernels.v);
    # header list = [to_server, ctime, seq, ack, type, length, count, ack_bits]; the kernel takes isServer = not to_server
    run.compare("gen_hdr_to_bytes", hs, ie, M.call_many("gen_hdr_to_bytes", [[0 if h[0] else 1] + list(h[1:]) for h in hs]))
    from mpgameserver.connection import PacketIdentifier, PacketType
    run.compare("gen_hdr_consts", [[]], [[PacketIdentifier.TO_SERVER.value, PacketIdentifier.TO_CLIENT.value,
                                          sorted(PacketType._value2name)]],
                [[m[0], m[1], sorted(m[2])] for m in M.call_many("gen_hdr_consts", [[]])])
    run.count("hdr_enc_refused", sum(1 for x in ie if x[0] == 1))
    # ---- header decode: bytes of valid headers (both directions) + malformed
    ds = []
    for h, e in zip(hs, ie):
        if e[0] == 0:
            b = e[1]
            ds.append((h[0], b + rnd_bytes(r, r.choice([0, 0, 3, 50]))))
            ds.append((1 - h[0], b))                                  # wrong direction
            if r.random() < 0.3:
                ds.append((h[0], b[:r.randrange(0, 20)]))              # short
            if r.random() < 0.3:
                i = r.randrange(0, 20)
                ds.append((h[0], b[:i] + bytes([b[i] ^ (1 << r.randrange(8))]) + b[i + 1:]))   # one bit flipped
            if r.random() < 0.2:
                ds.append((h[0], b[:12] + bytes([r.choice([8, 9, 200, 255])]) + b[13:]))       # bad type
            if r.random() < 0.2:
                ds.append((h[0], rnd_bytes(r, 4) + b[4:]))                                     # bad magic
    idc = [impl_hdr_dec(s, d) for s, d in ds]
    run.compare("hdr_dec", ds, idc, M.call_many("hdr_dec", [[s, d] for s, d in ds]))
    run.count("hdr_dec_refused", sum(1 for x in idc if x[0] == 1))
    # oracle: header round trip on the implementation
    for h, e in zip(hs, ie):
        if e[0] == 0:
            run.evaluations += 1
            back = impl_hdr_dec(h[0], e[1])
            if len(e[1]) != 20 or back != lib.ok(h):
                run.oracle_violation("header-roundtrip", {"header": h, "bytes": e[1], "decoded": back}, "PacketHeader.to_bytes/from_bytes")
                break
        else:
            if e != lib.err(lib.ERR["struct.error"]):
                run.oracle_violation("header-out-of-range-not-refused", {"header": h, "result": e}, "PacketHeader.to_bytes")
                break

    # ---- message lists: Packet.create
    mcases = []
    for n in [0, 1, 2, 3, 254, 255, 256, 300]:
        mcases.append(gen_msgs(r, n, maxlen=3))
    for _ in range(250 * scale):
        mcases.append(gen_msgs(r, r.choice([0, 1, 1, 2, 2, 3, 5, 9, 40]), bad=r.random() < 0.15))
    big = rnd_bytes(r, 65536)
    mcases += [[[1, 6, big[:65535]]], [[1, 6, big]], [[1, 6, big[:65535]], [2, 6, b""]], [[1, 6, big], [2, 6, b"a"]],
               [[1, 6, b"a"], [2, 7, big[:65530]]]]
    im = [impl_msgs_enc(ms) for ms in mcases]
    run.compare("msgs_enc", mcases, im, M.call_many("msgs_enc", [[ms] for ms in mcases]),
                describe=lambda ms: [[m[0], m[1], len(m[2])] for m in ms][:6])

    # ---- datagrams: CRC form and sealed form, both directions + the oracle round trip
    keys = S.Keys()
    kid = 7
    kb = keys.fixed(kid)
    pcases = []
    for n in [0, 1, 2, 3, 254, 255, 256]:
        pcases.append((gen_header(r), gen_msgs(r, n, maxlen=2)))
    for _ in range(300 * scale):
        bad = r.random() < 0.12
        pcases.append((gen_header(r, valid=r.random() > 0.1), gen_msgs(r, r.choice([0, 1, 1, 2, 3, 7, 30]), bad=bad,
                                                                       maxlen=r.choice([3, 40, 400]))))
    pcases.append((gen_header(r), [[1, 6, big[:65533]]]))      # payload 65535: fits the 16-bit length
    pcases.append((gen_header(r), [[1, 6, big[:65534]]]))      # payload 65536: refused
    # single-message packets take their type from the header (it is not transmitted per message)
    for h, ms in pcases:
        if len(ms) == 1:
            ms[0][1] = h[4]
    clear = [impl_dgram(None, h, ms) for h, ms in pcases]
    run.compare("clear_dgram", pcases, clear, M.call_many("clear_dgram", [[h, ms] for h, ms in pcases]),
                describe=lambda c: [c[0], [[m[0], m[1], len(m[2])] for m in c[1]][:6]])
    sealed = [impl_dgram(kb, h, ms) for h, ms in pcases]
    msealed = M.call_many("sealed_dgram", [[kid, h, ms] for h, ms in pcases])
    # swap the toy AEAD for the real one on the model's answer: datagram = hdr ++ plaintext ++ toy_tag
    from cryptography.hazmat.primitives.ciphers.aead import AESGCM
    aes = AESGCM(kb)
    conv = []
    for (h, ms), m in zip(pcases, msealed):
        if m[0] == 0 and h[4] != 2:
            d = m[1]
            hb, pt, tag = d[:20], d[20:-16], d[-16:]
            if tag != P.toy_tag(kid, hb[:12], hb):
                conv.append([2, "model datagram does not end with toy_tag(key, hdr[:12], hdr)"])
            else:
                conv.append(lib.ok(hb + aes.encrypt(hb[:12], pt, hb)))
        else:
            conv.append(m)
    run.compare("sealed_dgram", pcases, sealed, conv,
                describe=lambda c: [c[0], [[m[0], m[1], len(m[2])] for m in c[1]][:6]])
    run.count("dgram_refused", sum(1 for x in clear if x[0] == 1))

    # parse: what was built (+ trailing bytes), and mutations
    cparse, sparse = [], []          # (is_server, datagram) / (is_server, real datagram, toy datagram)
    for (h, ms), c, s in zip(pcases, clear, sealed):
        if c[0] == 0:
            d = c[1]
            cparse.append((h[0], d + rnd_bytes(r, r.choice([0, 0, 7]))))
            if r.random() < 0.5:
                i = r.randrange(len(d))
                cparse.append((h[0], d[:i] + bytes([d[i] ^ (1 << r.randrange(8))]) + d[i + 1:]))   # bit flip -> crc
            if r.random() < 0.3:
                cparse.append((h[0], d[:r.randrange(20, len(d) + 1)]))                            # truncated
            if r.random() < 0.3 and len(d) > 24:
                # count field larger / smaller than the messages present, crc recomputed
                hb = bytearray(d[:20])
                hb[15] = r.choice([0, 1, 2, hb[15] + 1 & 255, 255])
                body = bytes(hb) + d[20:-4]
                cparse.append((h[0], body + struct.pack(">L", binascii.crc32(body) & 0xFFFFFFFF)))
            if r.random() < 0.2 and len(d) > 24:
                hb = bytearray(d[:20])                        # length field changed, crc recomputed over the announced part
                ln = min(65535, r.choice([0, 1, max(0, len(d) - 24 - 1), len(d) - 24 + 1, 65535]))
                hb[13:15] = struct.pack(">H", ln)
                body = (bytes(hb) + d[20:])[:20 + ln]
                cparse.append((h[0], body + struct.pack(">L", binascii.crc32(body) & 0xFFFFFFFF)))
        if s[0] == 0 and h[4] != 2:
            d = s[1]
            hb = d[:20]
            pt = aes.decrypt(hb[:12], d[20:], hb)
            toy = hb + pt + P.toy_tag(kid, hb[:12], hb)
            extra = rnd_bytes(r, r.choice([0, 0, 5]))
            sparse.append((h[0], d + extra, toy + extra))
            if r.random() < 0.4:                              # tamper with the header (aad / iv)
                i = r.choice([4, 5, 6, 7, 8, 9, 10, 11, 16, 17, 18, 19, 15])
                x = 1 << r.randrange(8)
                sparse.append((h[0], d[:i] + bytes([d[i] ^ x]) + d[i + 1:], toy[:i] + bytes([toy[i] ^ x]) + toy[i + 1:]))
            if r.random() < 0.3:                              # tamper with the tag
                i = len(d) - 1 - r.randrange(16)
                sparse.append((h[0], d[:i] + bytes([d[i] ^ 1]) + d[i + 1:], toy[:i] + bytes([toy[i] ^ 1]) + toy[i + 1:]))
            if r.random() < 0.3:                              # truncated
                n = r.randrange(20, len(d))
                sparse.append((h[0], d[:n], toy[:n]))
    cp_i = [impl_parse(s, None, d) for s, d in cparse]
    ok_hdr = [i for i, (s, d) in enumerate(cparse) if impl_hdr_dec(s, d)[0] == 0]
    cpm = M.call_many("crc_parse", [[S.unpack_header(cparse[i][1]), cparse[i][1]] for i in ok_hdr])
    run.compare("crc_parse", [cparse[i] for i in ok_hdr], [cp_i[i] for i in ok_hdr], cpm)
    sp_i = [impl_parse(s, kb, d) for s, d, t in sparse]
    ok_hdr = [i for i, (s, d, t) in enumerate(sparse) if impl_hdr_dec(s, d)[0] == 0]
    spm = M.call_many("pack_sealed_parse", [[kid, S.unpack_header(sparse[i][2]), sparse[i][2]] for i in ok_hdr])
    run.compare("pack_sealed_parse", [sparse[i][:2] for i in ok_hdr], [sp_i[i] for i in ok_hdr], spm)
    run.count("parse_refused", sum(1 for x in cp_i + sp_i if x[0] == 1))
    # toy tag itself (python re-statement used above) and crc32
    tc = [[r.randrange(2 ** 31), rnd_bytes(r, 12), rnd_bytes(r, 20)] for _ in range(30)]
    run.compare("toy_tag", tc, [P.toy_tag(*c) for c in tc], M.call_many("toy_tag", tc))
    cc = [rnd_bytes(r, r.choice([0, 1, 2, 20, 100, 1500])) for _ in range(60 * scale)]
    run.compare("crc32", cc, [binascii.crc32(c) & 0xFFFFFFFF for c in cc], M.call_many("crc32", [[c] for c in cc]))

    # ---- oracle: packet round trip on the implementation alone
    for (h, ms), c, s in zip(pcases, clear, sealed):
        in_range = (0 <= h[1] < 2 ** 32 and 0 <= h[2] < 2 ** 16 and 0 <= h[3] < 2 ** 16 and 0 <= h[7] < 2 ** 32
                    and len(ms) <= 255 and all(0 <= m[0] < 2 ** 16 for m in ms))
        size = sum(len(m[2]) for m in ms) + (0 if not ms else 2 if len(ms) == 1 else 5 * len(ms))
        in_range = in_range and size < 2 ** 16
        for form, res, kbytes in (("crc", c, None), ("sealed", s, kb)):
            run.evaluations += 1
            if not in_range:
                if res != lib.err(lib.ERR["struct.error"]):
                    run.oracle_violation("out-of-range-packet-not-refused",
                                         {"form": form, "header": h, "n_msgs": len(ms), "size": size, "result": res[:1]},
                                         "Packet.create/to_bytes")
                    return
                continue
            if res[0] != 0:
                run.oracle_violation("in-range-packet-refused", {"form": form, "header": h, "n_msgs": len(ms), "size": size,
                                                                 "error": res[1]}, "Packet.create/to_bytes")
                return
            d = res[1]
            rx_key = kbytes if (kbytes is not None and h[4] != 2) else None
            want_len = 20 + size + (16 if rx_key else 4)
            hd = impl_hdr_dec(h[0], d)
            back = impl_parse(h[0], rx_key, d + b"trailing")
            good = (len(d) == want_len and hd[0] == 0 and hd[1][5] == size and hd[1][6] == len(ms)
                    and hd[1][:5] == h[:5] and hd[1][7] == h[7] and back == lib.ok([[m[0], m[1], m[2]] for m in ms]))
            if not good:
                run.oracle_violation("packet-roundtrip", {"form": form, "header": h,
                                                          "msgs": [[m[0], m[1], len(m[2])] for m in ms][:8],
                                                          "len": len(d), "expected_len": want_len,
                                                          "decoded_header": hd, "decoded": lib.jsonable(back)[:2]},
                                     "Packet.to_bytes/from_bytes")
                return
            if len(ms) >= 2:
                run.nt(("pkt", form, tuple(h), len(ms), size))
    run.sample({"unit": "clear_dgram", "header": pcases[9][0], "msgs": [[m[0], m[1], len(m[2])] for m in pcases[9][1]][:4],
                "impl": lib.jsonable(clear[9])[:1]})


# ------------------------------------------------------------------ packing histories

def overhead(n):
    return 0 if n == 0 else 2 if n == 1 else 5 * n


class Hist:
    """a send/tick history for one endpoint"""

    def __init__(self, role, mtu, label):
        self.role, self.mtu, self.label = role, mtu, label
        self.events = []
        self.t = T * 100
        self.sent = []            # (payload, retry)
        self.groups = []          # (first index into sent, count, tick event index): bursts expected in ONE datagram
        self.complete = True      # enough ticks for everything queued to be sent at least once (see boundary())
        self.seq0 = None          # optional [datagram counter, message counter] the connection starts with
        self.tiny_first = None    # optional ([indices into sent], tick event index): these ride in that tick's datagram

    def send(self, payload, retry=0, cb=None):
        self.events.append(("send", payload, retry, cb))
        self.sent.append((payload, retry))

    def tick(self, n=1, dt=300):
        for _ in range(n):
            self.t += dt
            self.events.append(("ctick", self.t, None) if self.role == "client" else ("stick", self.t))

    def cfg(self, which, v):
        self.events.append(("cfg", which, v))

    def setmtu(self, mtu):
        """Packet.setMTU(mtu) while the connection exists"""
        self.events.append(("setmtu", mtu))


def fill(i, n):
    """n bytes, recognisable per message"""
    tag = b"%06d:" % i
    return (tag * (n // len(tag) + 1))[:n]


def gen_histories(run):
    r = run.rng
    hs = []

    def cap(mtu):
        return mtu - 66        # MAX_PAYLOAD_SIZE

    def boundary(role, mtu, retry):
        """the single-message boundary: MAX_PAYLOAD_SIZE-3 .. MAX_PAYLOAD_SIZE (+1, +2 are fragmented)"""
        h = Hist(role, mtu, "boundary")
        mp = cap(mtu)
        for i, n in enumerate([mp - 3, mp - 2, mp - 1, mp, mp + 1, mp + 2]):
            h.send(fill(i, n), retry, None)
        h.tick(12 if retry == 0 else 40)
        # with a retry mode and a silent peer the re-sends (packed first, every keep-alive interval) fill every
        # datagram and what is still queued waits: by design, so only 'nothing fabricated / sizes / no exception'
        # is checked there; complete accounting under retry modes is done with two endpoints (net_histories)
        h.complete = retry == 0
        return h

    def pairs(role, mtu):
        """two/three messages whose accounted size straddles the capacity (retry NONE: the statement
        'what fits together travels together' is about an empty re-send store)"""
        retry = 0
        h = Hist(role, mtu, "pairs")
        mp = cap(mtu)
        k = 0
        for d in (-2, -1, 0, 1, 2):
            a = r.randrange(0, mp - 12)
            b = mp + 2 - 10 - a + d            # a + b + overhead(2) = mp + 2 + d
            i0 = len(h.sent)
            h.send(fill(k, a), retry); h.send(fill(k + 1, b), retry); k += 2
            h.tick(1)
            if d <= 0:
                h.groups.append((i0, 2, len(h.events) - 1))
            h.tick(2)
        for d in (-1, 0, 1):
            a = r.randrange(0, (mp - 20) // 2)
            b = r.randrange(0, (mp - 20) // 2)
            c3 = mp + 2 - 15 - a - b + d
            i0 = len(h.sent)
            for n in (a, b, c3):
                h.send(fill(k, n), retry); k += 1
            h.tick(1)
            if d <= 0:
                h.groups.append((i0, 3, len(h.events) - 1))
            h.tick(2)
        return h

    def retry_pairs(role, mtu):
        """two / three un-acked BEST_EFFORT messages that fall due for re-sending in the SAME tick (after a
        stall) and whose accounted size straddles the capacity: the re-send pass of _build_packet_impl has
        its own fit test"""
        h = Hist(role, mtu, "retry-pairs")
        h.complete = False
        mp = cap(mtu)
        k = 0
        for d in (-9, -6, -3, -1, 0, 1, 2, 3, 5, 6, 8, 9):
            a = r.randrange(1, mp - 12)
            b = mp + 2 - 10 - a + d            # a + b + overhead(2) = mp + 2 + d
            if b < 0:
                continue
            h.send(fill(k, a), 1); h.tick(1)
            h.send(fill(k + 1, b), 1); h.tick(1)
            k += 2
            h.tick(1, dt=4500)                  # stall: both are due now
            h.tick(2)
            h.tick(1, dt=T + 3000)              # and now both have timed out (message time-out 1 s): store empty again
            h.tick(1)
        for d in (-1, 0, 1, 4, 7):
            a = r.randrange(1, (mp - 20) // 2)
            b = r.randrange(1, (mp - 20) // 2)
            c3 = mp + 2 - 15 - a - b + d
            for n in (a, b, c3):
                h.send(fill(k, n), 1); h.tick(1); k += 1
            h.tick(1, dt=4500)
            h.tick(2)
            h.tick(1, dt=T + 3000)
            h.tick(1)
        return h

    def tiny(role, mtu, retry, n, ln):
        """n messages of length ln in one burst (count limit 255 and the capacity interact)"""
        h = Hist(role, mtu, "tiny")
        for i in range(n):
            h.send(fill(i, ln) if ln else b"", retry)
        per = min(255, max(1, (cap(mtu) + 2) // (ln + 5)))
        if n // per + 3 > 5:
            retry = 0           # keep re-sends (which are packed first) from starving the queue in this history
            h.events = [(e[0], e[1], 0, e[3]) for e in h.events]
            h.sent = [(p, 0) for p, _ in h.sent]
        if n <= per and (n != 1):
            h.tick(1)
            h.groups.append((0, n, len(h.events) - 1))
        h.tick(n // per + 3)
        return h

    def mixed(role, mtu, retry):
        """random bursts with ticks in between (one endpoint, silent peer)"""
        h = Hist(role, mtu, "mixed")
        h.complete = retry == 0
        mp = cap(mtu)
        k = 0
        budget = 40
        while budget > 0 and len(h.sent) < 100:
            for _ in range(r.choice([1, 1, 2, 3, 8, 30])):
                c = r.random()
                n = (0 if c < 0.2 else r.randrange(0, 8) if c < 0.45 else r.randrange(0, mp + 1) if c < 0.8
                     else mp - r.randrange(0, 4) if c < 0.9 else r.randrange(mp // 2 - 8, mp // 2 + 8))
                h.send(fill(k, n), retry, r.choice([None, None, k]))
                k += 1
            n = r.choice([1, 1, 2, 3])
            h.tick(n)
            budget -= n
        h.tick(len(h.sent) + 60)       # one message per tick at worst, plus the 1 s after which re-sends stop
        return h

    def live_mtu(role, mtu0, mtu1, retry):
        """the MTU is changed (both directions) while the connection exists and has messages queued"""
        h = Hist(role, mtu0, "live-mtu")
        h.complete = retry == 0
        mp0, mp1 = cap(mtu0), cap(mtu1)
        lo = min(mp0, mp1)
        k = 0
        # under the first MTU: some traffic, then a burst that is still (partly) queued when the MTU changes;
        # every length fits both limits on its own
        for n in (lo, 5, 0, lo - 1):
            h.send(fill(k, n), retry); k += 1
        h.tick(2)
        for n in (lo // 2, lo // 2 - 7, lo // 2 + 3, 7, lo - 4, r.randrange(0, lo + 1), 11, 0):
            h.send(fill(k, n), retry); k += 1
        h.tick(r.choice([0, 1, 2]))
        h.setmtu(mtu1)
        h.tick(1)
        for n in (r.randrange(0, lo + 1), 3, lo // 3, lo // 3):
            h.send(fill(k, n), retry); k += 1
        h.tick(14 if retry == 0 else 30)
        guaranteed = retry != 0             # with a retry mode and a silent peer the re-sends compete with what is queued (and
        if retry != 0:                      # guaranteed messages are re-queued at every time-out): the "exactly this group in one
                                            # datagram" clause is judged in the retry-NONE histories only
            h.tick(1, dt=T + 3000)          # everything un-acked has timed out: the re-send store is empty again
            h.tick(2)
            retry = 0
        # under the new MTU, queue and re-send store empty: pairs / triples straddling the NEW capacity
        for d in (-2, -1, 0, 1, 2):
            a = r.randrange(0, mp1 - 12)
            b = mp1 + 2 - 10 - a + d
            i0 = len(h.sent)
            h.send(fill(k, a), 0); h.send(fill(k + 1, b), 0); k += 2
            h.tick(1)
            if d <= 0 and not guaranteed:
                h.groups.append((i0, 2, len(h.events) - 1))
            h.tick(2)
        for d in (-1, 0, 1):
            a = r.randrange(0, (mp1 - 20) // 2)
            b = r.randrange(0, (mp1 - 20) // 2)
            c3 = mp1 + 2 - 15 - a - b + d
            i0 = len(h.sent)
            for n in (a, b, c3):
                h.send(fill(k, n), 0); k += 1
            h.tick(1)
            if d <= 0 and not guaranteed:
                h.groups.append((i0, 3, len(h.events) - 1))
            h.tick(2)
        # the single-message boundary of the NEW MTU (+1, +2 are fragmented under the new limits)
        for n in (mp1 - 3, mp1 - 2, mp1 - 1, mp1, mp1 + 1, mp1 + 2):
            h.send(fill(k, n), 0); k += 1
        h.tick(12)
        # and back: a second change on the same connection
        h.setmtu(mtu0)
        for n in (mp0, mp0 - 1, lo // 2, lo // 2, mp0 + 1):
            h.send(fill(k, n), 0); k += 1
        h.tick(10)
        return h

    def wrap(role, mtu, retry, off_d, off_m, per):
        """a long-lived connection: the counters start off_d / off_m below the ring maximum and the history queues enough
        messages (per of them per tick: several per datagram; every 7th burst also a fragmented one, whose fragments consume
        message numbers; empty payloads too) to carry the MESSAGE counter across 65535 -> 1 with a margin"""
        h = Hist(role, mtu, "wrap")
        h.seq0 = [RING - off_d, RING - off_m]
        h.complete = retry == 0
        mp = cap(mtu)
        k = 0
        queued = 0
        burst = 0
        acct = 0
        while queued < off_m + 3 * per + 12:
            for _ in range(per):
                c = r.random()
                n = 0 if c < 0.2 else r.randrange(0, 9) if c < 0.8 else r.randrange(0, min(mp, 200))
                h.send(fill(k, n), retry, r.choice([None, None, k]))
                k += 1
                queued += 1
                acct += n + 5
            if burst % 7 == 3:
                h.send(fill(k, mp + 1 + r.randrange(0, 40)), retry); k += 1; queued += 2
                acct += 2 * (mp + 5)
            burst += 1
            h.tick(1)
        # enough ticks for the queue to drain: while something is queued a datagram carries at least MAX_PAYLOAD_SIZE-205 accounted
        # bytes (every unfragmented message here is at most 200+5) or 255 messages
        h.tick(acct // (mp - 205) + queued // 255 + (6 if retry == 0 else 12))
        return h

    def backlog(role, mtu, n_bulk, shape, tail, where="behind"):
        """a BACKLOG: n_bulk queued messages that cannot join the datagram under construction once one / two / three of
        them are in it (shape "half" / "third" / "whole": bulk messages of about a half / a third / the whole capacity,
        "frag": ONE payload of n_bulk fragments), and tiny messages (lengths `tail`) queued behind them (where="behind"),
        in the middle ("middle": after two thirds of the bulk) or both; all in the same tick, retry NONE.  The spare room
        of every datagram admits the tiny messages, so first-fit over the whole queue puts them into the FIRST datagram."""
        h = Hist(role, mtu, "backlog")
        mp = cap(mtu)
        k = 0
        tiny_idx = []

        def tinies():
            nonlocal k
            for n in tail:
                tiny_idx.append(len(h.sent))
                h.send(fill(k, n), 0); k += 1
        if shape == "frag":
            fs = 1024 if mp >= 1030 else mp - 6
            h.send(fill(k, fs * (n_bulk - 1) + r.randrange(1, fs + 1)), 0); k += 1
            per = 1
            tinies()
            claim = fs + 6 + sum(tail) + 5 * (1 + len(tail)) <= mp + 2      # a full fragment leaves room only when it is the 1024 one
        else:
            claim = True
            per = {"half": 2, "third": 3, "whole": 1}[shape]
            spare = (5 * len(tail) + sum(tail)) * (2 if where == "both" else 1) + r.randrange(0, 6)
            size = (mp + 2 - 5 * per - spare) // per
            for i in range(n_bulk):
                if where in ("middle", "both") and i == (2 * n_bulk) // 3:
                    tinies()
                h.send(fill(k, size - (r.randrange(0, 3) if shape != "whole" else 0)), 0); k += 1
            if where in ("behind", "both"):
                tinies()
        h.tick(1)
        if claim:
            h.tiny_first = (tiny_idx, len(h.events) - 1)       # these must all be in the datagram of this tick
        h.tick(n_bulk // per + 4)
        return h

    def long_history(role, mtu, total, per):
        """one connection, initial counters, `total` messages queued (per of them per tick)"""
        h = Hist(role, mtu, "long")
        k = 0
        while k < total:
            for _ in range(per):
                h.send(fill(k, k % 7), 0)
                k += 1
            h.tick(1)
        h.tick(5)
        return h

    quick_mtus = [512, 513, 576, 1095, 1096, 1097, 1280, 1499, 1500] + [r.randrange(512, 1501) for _ in range(12)]
    mtus = list(range(512, 1501)) if run.thorough() else quick_mtus
    # long-lived connections: the message (and datagram) counter crosses the ring wrap
    for n in range(48 if run.thorough() else 12):
        role = ["client", "server"][n % 2]
        retry = [0, 1, -1][(n // 2) % 3]
        off_m = r.choice([0, 1, 2, 5, 40, r.randrange(0, 300)])
        off_d = r.choice([0, 1, 3, 20, r.randrange(0, 300)])
        hs.append(wrap(role, r.choice([512, 1096, 1500, r.randrange(512, 1501)]), retry, off_d, off_m, r.choice([1, 2, 5, 20, 60])))
    if run.thorough():
        # (server role: a one-endpoint history has a silent peer, and the client gives up after 5 s of silence — send() is then a
        # no-op; the client role crosses the wrap through the seq0 histories above and the two-endpoint sessions)
        hs.append(long_history("server", 1500, 70000, 150))
        hs.append(long_history("server", 512, 66000, 40))
    for mtu in mtus:
        role = r.choice(["client", "server"])
        hs.append(boundary(role, mtu, r.choice([0, 1, -1]) if run.thorough() else 0))
        if not run.thorough() or mtu % 8 == 0:
            hs.append(pairs(r.choice(["client", "server"]), mtu))
            hs.append(retry_pairs(r.choice(["client", "server"]), mtu))
    if not run.thorough():
        for retry in (1, -1):
            hs.append(boundary("client", 1500, retry))
            hs.append(boundary("server", 512, retry))
    else:
        run.exhaustive.append("packing boundary history (lengths MAX_PAYLOAD_SIZE-3..+2) for every MTU 512..1500")
    for mtu in ([512, 1500, 1096] if not run.thorough() else [512, 600, 777, 1000, 1095, 1096, 1200, 1400, 1500]):
        for n, ln in [(300, 0), (255, 0), (256, 0), (254, 0), (600, 0), (520, 1), (300, 3), (90, 11), (290, 0)]:
            hs.append(tiny(r.choice(["client", "server"]), mtu, r.choice([0, 0, 1, -1]), n, ln))
        per = (mtu - 64) // 5          # how many empty messages the capacity admits (below 255 only for tiny MTUs)
        hs.append(tiny("client", mtu, 0, min(255, per), 0))
    # backlogs: hundreds of queued messages that do not fit, tiny ones behind / among them
    bl = [("server", 1500, 300, "half", [10]), ("server", 512, 300, "whole", [0]), ("server", 1096, 330, "third", [2, 0]),
          ("server", 1500, 270, "frag", [5, 0, 40]), ("server", 1500, 257, "whole", [4]), ("server", 1500, 254, "whole", [4]),
          ("client", 900, 120, "half", [7, 7])]
    if run.thorough():
        bl += [("client", 1500, 330, "half", [0, 3, 1]), ("server", 512, 400, "whole", [0]), ("server", 1096, 390, "third", [2, 0]),
               ("server", 600, 340, "frag", [1])]
    for role, mtu, n_bulk, shape, tail in bl:
        hs.append(backlog(role, mtu, n_bulk, shape, tail, where=r.choice(["behind", "behind", "both"])))
    for _ in range(24 if run.thorough() else 2):
        shape = r.choice(["half", "third", "whole", "frag"])
        n_bulk = r.choice([255, 256, 257, 258, 300, r.randrange(200, 420)])
        role = "server" if n_bulk // {"half": 2, "third": 3, "whole": 1, "frag": 1}[shape] > 180 else r.choice(["client", "server"])
        hs.append(backlog(role, r.choice(quick_mtus), n_bulk, shape, [r.choice([0, 1, 2, 9]) for _ in range(r.choice([1, 2, 4]))],
                          where=r.choice(["behind", "middle", "both"])))
    for _ in range(80 if run.thorough() else 20):
        hs.append(mixed(r.choice(["client", "server"]), r.choice(quick_mtus), r.choice([0, 0, 0, 1, -1])))
    # Packet.setMTU on a live connection: lowered and raised, extremes and random pairs, all retry modes
    changes = [(1500, 512), (512, 1500), (1500, 576), (576, 1500), (1500, 1096), (1095, 1500), (1500, 1499), (700, 701)]
    changes += [tuple(r.sample(range(512, 1501), 2)) for _ in range(60 if run.thorough() else 8)]
    for n, (m0, m1) in enumerate(changes):
        hs.append(live_mtu(r.choice(["client", "server"]), m0, m1, [0, 0, 1, -1][n % 4]))
    return hs


def reassemble(msgs):
    """emitted (seq, type, payload) list -> list of application payloads (APP messages as they
    are, APP_FRAGMENT messages joined per fragment id once all indices are there); duplicates by
    message seq are dropped the way the receiver drops them"""
    out = []
    frags = {}
    seen = {}
    for pos, (seq, typ, p) in enumerate(msgs):
        # a repetition of a message number is a re-send — unless more than 30000 messages were emitted in between: then the
        # 16-bit counter has been round the ring and the number belongs to a new message (long-lived connections)
        if seq in seen and pos - seen[seq] <= 30000:
            continue
        seen[seq] = pos
        if typ == 6:
            out.append(bytes(p))
        elif typ == 7:
            fid, idx, cnt = struct.unpack(">HHH", p[:6])
            d = frags.setdefault(fid, {})
            d[idx] = bytes(p[6:])
            if len(d) == cnt:
                out.append(b"".join(d[i] for i in range(1, cnt + 1)))
    return out


def check_history(run, h):
    """correspondence + oracle for one history; returns False when a violation was recorded"""
    qlog = []
    res = P.drive(run, h.role, h.events, key=7, mtu=h.mtu, every=len(h.events) < 120, seq0=h.seq0, probe=queue_probe(qlog))
    case = {"role": h.role, "mtu": h.mtu, "kind": h.label, "events": P.short_events(h.events)[:40],
            "n_events": len(h.events)}
    if h.seq0 is not None:
        case["seq0"] = list(h.seq0)
    run.compare("conn_run_mtu" if any(e[0] == "setmtu" for e in h.events) else "conn_run_from" if h.seq0 is not None else "conn_run",
                [case], [None if res["agree"] else res["diff"]], [None])
    ring_ok = True
    if res["probe"]:
        # reported once per history; the rest of the oracle still runs (so that what the drifted counter leads to shows up too)
        n, why = res["probe"][0]
        run.oracle_violation("sequence-counter-left-its-ring",
                             dict(case, event=n, ev=P.short_events([h.events[n]])[0], **why,
                                  queued_before=sum(1 for e in h.events[:n] if e[0] == "send")), "ConnectionBase sequence counters")
        ring_ok = False
    kb = res["keys"].bytes_of(7)
    mp = h.mtu - 66
    limit = h.mtu - 28
    emitted = []            # (event index, seq, type, payload)
    nontrivial = False
    requeues = any(e[0] == "send" and e[2] == -1 for e in h.events)
    for n, (ev, raws, errs) in enumerate(zip(h.events, res["raws"], res["errs"])):
        run.evaluations += 1
        if ev[0] == "setmtu":
            # Packet.setMTU on the live connection: from here on the NEW limit is the one to respect
            mp = ev[1] - 66
            limit = ev[1] - 28
            case = dict(case, mtu_now=ev[1], mtu_changed_at_event=n)
        if errs:
            what = "send-raised" if ev[0] == "send" else "packet-construction-raised"
            if not (ev[0] == "send" and len(ev[1]) > 1024 * 8192):
                run.oracle_violation(what, dict(case, event=n, error=errs[0],
                                                queued=sum(1 for e in h.events[:n] if e[0] == "send")),
                                     "ConnectionBase.send" if ev[0] == "send" else "_build_packet/Packet.create")
                return False
        for d in raws:
            if len(d) > limit:
                run.oracle_violation("datagram-exceeds-mtu", dict(case, event=n, length=len(d), limit=limit),
                                     "_build_packet_impl")
                return False
            dec = P.decode_datagram(d, kb)
            if "error" in dec or not dec["exact"]:
                run.oracle_violation("emitted-datagram-does-not-decode",
                                     dict(case, event=n, length=len(d), why=dec.get("error", "length/count do not describe the payload")),
                                     "Packet.create/to_bytes")
                return False
            if len(dec["msgs"]) > 255:
                run.oracle_violation("more-than-255-messages", dict(case, event=n, count=len(dec["msgs"])), "_build_packet_impl")
                return False
            for s, t, p in dec["msgs"]:
                emitted.append((n, s, t, p))
            if len(d) >= limit - 5 or len(dec["msgs"]) == 255:
                nontrivial = True
        if len(raws) == 1 and ev[0] in ("ctick", "stick") and n < len(qlog) and qlog[n][0] and not requeues:
            # first-fit over the WHOLE queue: nothing that is still queued would have fitted into the datagram just produced
            # (judged where the queue after the tick is what the build left: a RETRY_ON_TIMEOUT message that timed out in this
            # tick is queued again AFTER the build)
            run.evaluations += 1
            dec = P.decode_datagram(raws[0], kb)
            cnt = len(dec["msgs"])
            used = sum(len(p) for _, _, p in dec["msgs"])
            qn, shortest, pos, qseq = qlog[n]
            if cnt < 255 and shortest + overhead(cnt + 1) + used <= mp + 2:
                run.oracle_violation("queued-message-would-have-fitted",
                                     dict(case, event=n, datagram_messages=cnt, datagram_payload_bytes=used,
                                          capacity=mp + 2, queued=qn, fitting_length=shortest, queue_position=pos,
                                          message_seq=qseq, datagram_length=len(raws[0])), "_build_packet_impl")
                return False
            if qn > 255:
                nontrivial = True
                run.count("builds_with_backlog_over_255")
    if h.tiny_first is not None:
        idxs, evi = h.tiny_first
        here = collections.Counter(p for n, s, t, p in emitted if n == evi)
        wantt = collections.Counter(h.sent[i][0] for i in idxs)
        run.evaluations += 1
        if wantt - here:
            run.oracle_violation("fit-together-split",
                                 dict(case, event=evi, lengths=[len(p) for p in wantt.elements()], datagrams=len(res["raws"][evi]),
                                      carried=sum((wantt & here).values()), behind_backlog=True), "_build_packet_impl")
            return False
    # accounting: multiset of application payloads emitted vs queued
    got = collections.Counter(reassemble([(s, t, p) for _, s, t, p in emitted]))
    want = collections.Counter(p for p, _ in h.sent)
    if got != want:
        missing = want - got
        extra = got - want
        m = sorted(missing.items(), key=lambda kv: len(kv[0]))[:3]
        x = sorted(extra.items(), key=lambda kv: len(kv[0]))[:3]
        if missing and not h.complete and not extra:
            pass
        elif missing:
            ln = len(m[0][0])
            run.oracle_violation("queued-message-never-sent",
                                 dict(case, missing=[[len(p), c] for p, c in m], n_missing=sum(missing.values()),
                                      length=ln, length_minus_max_payload=ln - mp),
                                 "_build_packet_impl")
        else:
            run.oracle_violation("message-emitted-but-never-queued", dict(case, extra=[[len(p), c] for p, c in x]),
                                 "_build_packet_impl")
        if not (missing and not h.complete and not extra):
            return False
    # messages that fit together travel together
    for i0, cnt, evi in h.groups:
        here = [p for n, s, t, p in emitted if n == evi and t == 6]
        wantg = [p for p, _ in h.sent[i0:i0 + cnt]]
        run.evaluations += 1
        if len(res["raws"][evi]) != 1 or collections.Counter(here) != collections.Counter(wantg):
            run.oracle_violation("fit-together-split",
                                 dict(case, event=evi, lengths=[len(p) for p in wantg], datagrams=len(res["raws"][evi]),
                                      carried=len(here)), "_build_packet_impl")
            return False
        nontrivial = nontrivial or cnt >= 2
    if h.seq0 is not None or h.label == "long":
        # did the message counter really cross the wrap, with messages queued AND emitted on both sides of it?
        seqs = [s for _, s, t, p in emitted]
        m0 = h.seq0[1] if h.seq0 is not None else 0
        if (m0 == RING or any(x > RING - 400 for x in seqs)) and any(x < 400 for x in seqs):
            nontrivial = True
            run.count("hist_message_counter_wrapped")
        elif not h.complete:
            # retry modes against a silent peer: the re-sends (packed first) can starve the queue; the two-endpoint wrap
            # sessions (net_history with seq0) carry the retry modes across the wrap with acknowledgements flowing
            run.count("hist_wrap_starved_by_resends")
        else:
            raise RuntimeError("wrap history did not cross the message-counter wrap: the harness is not exercising the surface: %r"
                               % ((h.role, h.mtu, h.seq0, len(h.sent), RING in seqs, 1 in seqs, h.complete, len(h.events)),))
    if nontrivial:
        run.nt((h.label, h.role, h.mtu, len(h.events), len(h.sent)))
    run.count("hist_" + h.label)
    run.count("datagrams", sum(len(x) for x in res["raws"]))
    return ring_ok


def net_history(run, mtu, frames, seed_label, mtu2=None, seq0=None):
    """two real endpoints on a loss-free simulated network (acks flow, so re-sends stop): sends in
    all retry modes from both sides; every datagram either side hands to the socket is measured and
    decoded independently; the multiset of application payloads emitted must equal the multiset queued.
    mtu2: Packet.setMTU(mtu2) is called in the middle of the session, on the live connections, right after a
    burst (messages are queued and re-sends pending on both sides); lengths queued before the change fit both MTUs.
    seq0 = [datagram counter, message counter] both connections start with (just below the ring wrap: the session carries
    them across it); the ring membership of every sequence counter is probed on both connections after every frame."""
    from harness import netsim as N
    r = run.rng
    mp = mtu - 66
    net = N.Net(run, r, {"tick": 300}, mtu=mtu, seq0=seq0)
    case = {"kind": "net", "mtu": mtu, "frames": frames, "label": seed_label}
    if seq0 is not None:
        case["seq0"] = list(seq0)
    drift = None
    sends = []
    change_at = None
    mark = {"client": None, "server": None}
    if mtu2 is not None:
        change_at = frames // 3
        mp = min(mtu, mtu2) - 66            # before the change: single messages that fit both limits
        case["mtu_changed_to"] = mtu2
        case["changed_at_frame"] = change_at
    try:
        for f in range(frames):
            if f == change_at:
                for _ in range(r.choice([40, 100])):
                    who = r.choice(["client", "server"])
                    n = r.choice([0, 1, 3, 30, mp // 3, mp // 2, mp - 1, mp])
                    retry = r.choice([0, 0, 1, -1])
                    net.send(who, n, retry, with_cb=r.random() < 0.3)
                    sends.append((who, n, retry))
                if r.random() < 0.5:
                    net.step()
                mark = {w: len(net.emitted[w]) for w in ("client", "server")}
                net.setmtu(mtu2)
                mp = mtu2 - 66
            if f < frames - 60:
                burst = r.random() < 0.08
                for _ in range(r.choice([30, 120, 300]) if burst else r.choice([0, 0, 0, 1, 1, 2])):
                    who = r.choice(["client", "server"])
                    c = r.random()
                    if burst:
                        n = r.choice([0, 0, 1, 3])
                    else:
                        n = (0 if c < 0.2 else r.randrange(0, 8) if c < 0.4 else r.randrange(0, mp + 1) if c < 0.6
                             else mp - r.randrange(0, 4) if c < 0.8 else mp + r.randrange(1, 3) if c < 0.9
                             else r.randrange(mp // 2 - 8, mp // 2 + 8))
                    if change_at is not None and f < change_at:
                        n = min(n, mp)          # nothing fragmented under the old MTU is in flight at the change
                    retry = r.choice([0, 0, 1, -1])
                    mid = net.send(who, n, retry, with_cb=r.random() < 0.3)
                    sends.append((who, n, retry))
                if seq0 is not None:
                    # a floor of traffic from both sides in every frame, so that both counters of both sides do cross the wrap
                    for who in ("client", "server"):
                        n, retry = r.choice([0, 2, 9]), r.choice([0, 0, 1, -1])
                        net.send(who, n, retry, with_cb=False)
                        sends.append((who, n, retry))
            net.step()
            for who in ("client", "server"):
                why = ring_probe(net.ep(who).impl.conn) if drift is None else None
                if why is not None:
                    drift = dict(why, endpoint=who, frame=f, sends_so_far=len(sends))
        diffs = net.check_models()
    finally:
        net.close()
    case["sends"] = [[w[0], n, rt] for w, n, rt in sends][:60]
    run.compare("conn_run_mtu" if mtu2 is not None else "conn_run_from" if seq0 is not None else "conn_run",
                [dict(case, endpoint="both")], [diffs[0] if diffs else None], [None])
    ok = True
    if drift is not None:
        run.oracle_violation("sequence-counter-left-its-ring", dict(case, **drift), "ConnectionBase sequence counters")
        ok = False
    if seq0 is not None:
        for who in ("client", "server"):
            c = net.ep(who).impl.conn
            if not (int(c.seq_message) < seq0[1] and int(c.seq_sending) < seq0[0]) and drift is None:
                raise RuntimeError("wrap session did not carry both counters of the %s across the wrap: the harness is not exercising the surface" % who)
        run.count("net_sessions_across_the_wrap")
    for who in ("client", "server"):
        msgs = []
        for i, rec in enumerate(net.emitted[who]):
            run.evaluations += 1
            limit = (mtu2 if (mark[who] is not None and i >= mark[who]) else mtu) - 28
            if len(rec["raw"]) > limit:
                run.oracle_violation("datagram-exceeds-mtu", dict(case, endpoint=who, index=i, length=len(rec["raw"]), limit=limit),
                                     "_build_packet_impl")
                return False
            dec = P.decode_datagram(rec["raw"], net.keys.bytes_of(net.key))
            if "error" in dec or not dec["exact"] or len(dec["msgs"]) > 255:
                run.oracle_violation("emitted-datagram-does-not-decode",
                                     dict(case, endpoint=who, index=i, length=len(rec["raw"]),
                                          why=dec.get("error", "length/count do not describe the payload")), "Packet.create/to_bytes")
                return False
            msgs += dec["msgs"]
            if len(rec["raw"]) >= limit - 5 or len(dec["msgs"]) == 255:
                run.nt(("net", mtu, who, i, len(rec["raw"])))
        got = collections.Counter(reassemble(msgs))
        want = collections.Counter(rec["payload"] for rec in net.sent[who].values() if rec["accepted"])
        if got != want:
            missing, extra = want - got, got - want
            if missing:
                ln = min(len(p) for p in missing)
                run.oracle_violation("queued-message-never-sent",
                                     dict(case, endpoint=who, n_missing=sum(missing.values()), length=ln,
                                          length_minus_max_payload=ln - mp), "_build_packet_impl")
            else:
                run.oracle_violation("message-emitted-but-never-queued",
                                     dict(case, endpoint=who, extra=[[len(p), c] for p, c in list(extra.items())[:3]]),
                                     "_build_packet_impl")
            ok = False
    for t, who, where, code, *rest in net.raised:
        run.oracle_violation("packet-construction-raised" if where == "update" else "send-raised",
                             dict(case, endpoint=who, time=t, error=code, detail=rest), "_build_packet/Packet.create")
        ok = False
        break
    run.count("hist_net")
    run.count("datagrams", len(net.emitted["client"]) + len(net.emitted["server"]))
    return ok


def packing(run):
    hs = gen_histories(run)
    shown = 0
    for h in hs:
        ok = check_history(run, h)
        if shown < 3 and ok and h.label in ("boundary", "tiny", "pairs"):
            run.sample({"history": h.label, "role": h.role, "mtu": h.mtu, "events": P.short_events(h.events)[:8]})
            shown += 1
        if len(run.oracle_fail) >= 6:
            return
    for i in range(30 if run.thorough() else 6):
        mtu = run.rng.choice([512, 1500, 1096, run.rng.randrange(512, 1501)])
        if not net_history(run, mtu, 140, i):
            break
    # long-lived connections, two endpoints (acks flow): both counters of both sides cross the ring wrap in mid-session
    for i in range(12 if run.thorough() else 3):
        mtu = run.rng.choice([512, 1500, run.rng.randrange(512, 1501)])
        seq0 = [RING - run.rng.choice([0, 3, 30, 60]), RING - run.rng.choice([0, 1, 7, 50, 70])]
        if not net_history(run, mtu, 140, "wrap-%d" % i, seq0=seq0):
            break
    # Packet.setMTU in the middle of a two-endpoint session (lowered / raised)
    for i, (m0, m1) in enumerate([(1500, 512), (512, 1500), (1400, 600), (640, 1300)] +
                                 [tuple(run.rng.sample(range(512, 1501), 2)) for _ in range(16 if run.thorough() else 0)]):
        if not net_history(run, m0, 150, "live-mtu-%d" % i, mtu2=m1):
            break


def run(run):
    codec(run)
    packing(run)
    run.rules.append(RULE)
