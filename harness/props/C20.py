"""C20 — dispatcher: routes by message class; register/unregister are inverses.
Correspondence units: disp_run (operation sequences on one dispatcher, full table + outcome of
every operation), disp_decorate (server_event / client_event).
Oracle: the property restated over the implementation only, against an independently written
reference dictionary (no Coq text involved).

A *world* is JSON data: message classes (by name; two classes may share a name) and resources
(dynamically created classes; methods with class or string annotations, decorated with
server_event or client_event; optional base class, second instance of a class, undecorated
extras).  A case = world + dispatcher kind + operation list:
  ["reg", ri] ["unreg", ri] ["regfn", ann, arity, hid] ["unregfn", ann] ["disp", ci]
ann = [0, ci] (class object) | [1, "text"] (string)."""
import itertools
from harness import lib

RULE = ("random operation sequences (register / unregister / register_function / unregister_function / dispatch) "
        "over 1-4 dynamically created resources and 2-5 message classes, class and string annotations, both "
        "dispatcher kinds, plus the exhaustive sweep of all sequences up to length L over 2 resources x 2 classes; "
        "non-trivial = the sequence contains a refused duplicate, or an unregister that removes a binding followed "
        "by a dispatch or a registration of the same class; message classes that SUBCLASS other message classes (routing is "
        "by the class itself, not by a base); handler names that are private, dunder-like (__on_q, __handle__, __call__), a "
        "single underscore, or the names of dispatcher methods; a derived resource that HIDES an inherited handler behind an "
        "undecorated method or a plain attribute; TWO dispatchers alive in one process fed interleaved sequences (each must "
        "behave as if alone, also when they share resource instances); long lives (thousands of operations on one "
        "dispatcher); handlers that unregister / re-register / dispatch from inside the callback; message classes that an "
        "implementation might IDENTIFY: a metaclass under which all message classes compare equal, hash alike and answer True to "
        "every isinstance / issubclass question; classes of the same and of different __name__ placed in different modules / "
        "enclosing scopes (__module__, __qualname__); class names differing by case, Unicode normal form, full-width / look-alike "
        "letters, zero-width or blank padding")
ASSUMPTIONS = ["annotations are classes or strings; dir() order = sorted method names (computed independently by the harness)",
               "handlers are Python functions: a call with the wrong number of arguments raises TypeError before the body runs"]
TRUSTED = ["handler bodies are opaque: an exception raised inside a handler propagates unchanged (dispatch has no try/except); not modelled"]

NAMES = ["Ev0", "Ev1", "Ev2", "Ev3", "Msg", "msg", "Évé", "E", "",
         # names a canonicalisation would identify with another one: case, NFD / full-width / look-alike forms, padding
         "E\u0301ve\u0301", "\uff25", "\u0395", "ev0", "EV0", "Ev0 ", "Ev\u200b0", "\uff25\uff56\uff10", "MSG", "Ev1\t", "mod.Ev0"]


class EqMeta(type):
    """a metaclass under which ALL message classes compare equal, hash alike and claim every object as an instance and every
    class as a subclass: routing is by the class of the message itself, not by anything the class says about other classes"""
    def __eq__(cls, other):
        return isinstance(other, EqMeta)

    def __ne__(cls, other):
        return not isinstance(other, EqMeta)

    def __hash__(cls):
        return 7

    def __instancecheck__(cls, inst):
        return True

    def __subclasscheck__(cls, sub):
        return True
MNAMES = ["on_a", "on_b", "on_c", "On_a", "_on_z", "handle", "Zeta", "alpha", "h1", "h10", "h2",
          "__on_q", "__handle__", "__call__", "_", "_0", "register", "dispatch", "__Zz", "on_é"]


def _handler_exc():
    from mpgameserver.dispatch import DispatchError
    return [KeyError, ValueError, LookupError, RuntimeError, TypeError, DispatchError, AttributeError]


HANDLER_EXC = _handler_exc()


class World:
    """real classes / resources built from a world spec"""

    def __init__(self, spec):
        from mpgameserver.dispatch import server_event, client_event
        self.spec = spec
        self.log = []
        self.raise_now = None      # exception object the handler bodies raise after logging their call (dispatch ops with a 3rd field)
        self.tok = {}
        self.keep = []
        self.classes = []
        for ci, n in enumerate(spec["classes"]):
            b = (spec.get("class_bases") or [None] * len(spec["classes"]))[ci]
            meta = EqMeta if spec.get("class_meta") else type
            cls = meta(n, (object,) if b is None else (self.classes[b],), {})
            q = (spec.get("class_quals") or [None] * len(spec["classes"]))[ci]
            if q is not None:
                # same __name__, another module / an enclosing scope: the dispatcher knows a class by its __name__ alone
                cls.__module__, cls.__qualname__ = q[0], q[1] + n
            self.classes.append(cls)
        self.rclasses, self.merged, self.insts = [], [], []
        deco_fn = [server_event, client_event]
        for ri, rs in enumerate(spec["resources"]):
            if rs.get("same_as") is not None:
                cls = self.rclasses[rs["same_as"]]
                merged = self.merged[rs["same_as"]]
            else:
                ns = {}
                for mname, ann, deco in rs["methods"]:
                    ns[mname] = deco_fn[deco](self._method(mname, ann, deco))
                if rs.get("extras"):
                    ns["plain_method"] = lambda self, a, b, c: None
                    holder = type("Holder", (object,), {})()
                    holder._event = spec["classes"][0] if spec["classes"] else "Ev0"
                    ns["fake_attr"] = holder               # has _event but is not a routine
                    ns["value"] = 5
                base = object
                merged = {}
                if rs.get("base") is not None:
                    base = self.rclasses[rs["base"]]
                    merged = dict(self.merged[rs["base"]])
                for hname, how in rs.get("hide", []):
                    if hname in merged and hname not in ns:
                        # the derived class hides an inherited handler: an undecorated method or a plain attribute
                        ns[hname] = (lambda self, *a: None) if how == 0 else 7
                        del merged[hname]
                for mname, ann, deco in rs["methods"]:
                    merged[mname] = (ann, deco)
                cls = type("Res%d" % ri, (base,), ns)
            inst = cls()
            inst._hids = {m: ri * 100 + i for i, m in enumerate(sorted(merged))}
            self.rclasses.append(cls)
            self.merged.append(merged)
            self.insts.append(inst)

    def annobj(self, ann):
        return self.classes[ann[1]] if ann[0] == 0 else ann[1]

    def annname(self, ann):
        return self.spec["classes"][ann[1]] if ann[0] == 0 else ann[1]

    def _method(self, mname, ann, deco):
        log = self.log
        w = self
        if deco == 0:
            def h(self, client, seqnum, msg):
                log.append((self._hids[mname], (client, seqnum, msg)))
                if w.raise_now is not None:
                    raise w.raise_now
            h._arity = 3
        else:
            def h(self, seqnum, msg):
                log.append((self._hids[mname], (seqnum, msg)))
                if w.raise_now is not None:
                    raise w.raise_now
            h._arity = 2
        h.__name__ = mname
        h.__annotations__ = {"msg": self.annobj(ann)}
        return h

    def methods(self, ri):
        """decorated routines of resource ri in dir() order: [(event name, hid, arity, ann)]"""
        m = self.merged[ri]
        return [(self.annname(m[n][0]), self.insts[ri]._hids[n], 3 if m[n][1] == 0 else 2, m[n][0]) for n in sorted(m)]

    def rawfn(self, arity, hid):
        log = self.log
        w = self

        def body(args):
            log.append((hid, args))
            if w.raise_now is not None:
                raise w.raise_now
        fs = {0: lambda: body(()), 1: lambda a: body((a,)),
              2: lambda a, b: body((a, b)), 3: lambda a, b, c: body((a, b, c)),
              4: lambda a, b, c, d: body((a, b, c, d))}
        f = fs[arity]
        f._hid, f._arity = hid, arity
        return f

    def table(self, d):
        out = []
        for key, fn in d.registered_events.items():
            if not isinstance(key, str):
                out.append(["non-string key", repr(key)])
                continue
            if hasattr(fn, "__self__"):
                out.append([key.encode("utf-8"), fn.__self__._hids[fn.__func__.__name__], fn.__func__._arity])
            else:
                out.append([key.encode("utf-8"), fn._hid, fn._arity])
        return out

    def new_dispatcher(self, kind):
        from mpgameserver.dispatch import ServerMessageDispatcher, ClientMessageDispatcher
        return ServerMessageDispatcher() if kind == 0 else ClientMessageDispatcher()

    def step(self, d, kind, i, op):
        """operation number i of a sequence on dispatcher d: the outcome"""
        from mpgameserver import SeqNum
        del self.log[:]
        if op[0] == "reg":
            return lib.guarded(d.register, self.insts[op[1]], wrap=lambda x: 0)
        if op[0] == "unreg":
            return lib.guarded(d.unregister, self.insts[op[1]], wrap=lambda x: 0)
        if op[0] == "regfn":
            return lib.guarded(d.register_function, self.annobj(op[1]), self.rawfn(op[2], op[3]), wrap=lambda x: 0)
        if op[0] == "unregfn":
            return lib.guarded(d.unregister_function, self.annobj(op[1]), wrap=lambda x: 0)
        client, seqnum, msg = object(), SeqNum(1 + i % 60000), self.classes[op[1]]()
        self.keep.append((client, seqnum, msg))
        if len(self.keep) > 64:
            del self.keep[:32]
        tok = {id(client): 3 * i, id(seqnum): 3 * i + 1, id(msg): 3 * i + 2}
        self.raise_now = HANDLER_EXC[op[2]]("raised by the handler body") if len(op) > 2 and op[2] is not None else None
        try:
            if kind == 0:
                d.dispatch(client, seqnum, msg)
            else:
                d.dispatch(seqnum, msg)
            r = [0, [[h, [tok.get(id(a), -1) for a in args]] for h, args in self.log]]
            if self.raise_now is not None and self.log:
                r = [1, lib.ERR["DispatchError"], ["handler exception swallowed", [h for h, _ in self.log]]]
        except Exception as e:   # noqa
            if e is self.raise_now and self.log:
                # the handler was invoked and ITS OWN exception object came out of dispatch(): the invocation
                # is reported as it is for a handler that returns
                r = [0, [[h, [tok.get(id(a), -1) for a in args]] for h, args in self.log]]
            else:
                r = [1, lib.exc_code(e)] + ([["called", [h for h, _ in self.log]]] if self.log else [])
        finally:
            self.raise_now = None
        return r

    def run(self, kind, ops):
        """fresh dispatcher; returns (table, outcomes)"""
        d = self.new_dispatcher(kind)
        outs = [self.step(d, kind, i, op) for i, op in enumerate(ops)]
        return [self.table(d), outs]

    def run_interleaved(self, kind, seqs, schedule):
        """several dispatchers alive at once; schedule = which sequence advances next"""
        ds = [self.new_dispatcher(kind) for _ in seqs]
        pos = [0] * len(seqs)
        outs = [[] for _ in seqs]
        for k in schedule:
            if pos[k] < len(seqs[k]):
                outs[k].append(self.step(ds[k], kind, pos[k], seqs[k][pos[k]]))
                pos[k] += 1
        for k in range(len(seqs)):
            while pos[k] < len(seqs[k]):
                outs[k].append(self.step(ds[k], kind, pos[k], seqs[k][pos[k]]))
                pos[k] += 1
        return [[self.table(d), o] for d, o in zip(ds, outs)]

    # ---- the same case for the model
    def v_ann(self, ann):
        return [ann[0], self.annname(ann).encode("utf-8")]

    def v_ops(self, ops):
        out = []
        for i, op in enumerate(ops):
            if op[0] in ("reg", "unreg"):
                res = [[self.v_ann(a), [hid, ar]] for (_, hid, ar, a) in self.methods(op[1])]
                out.append([0 if op[0] == "reg" else 1, res])
            elif op[0] == "regfn":
                out.append([2, self.v_ann(op[1]), [op[3], op[2]]])
            elif op[0] == "unregfn":
                out.append([3, self.v_ann(op[1])])
            else:
                out.append([4, 3 * i, 3 * i + 1, self.spec["classes"][op[1]].encode("utf-8"), 3 * i + 2])
        return out


# ------------------------------------------------------------------ reference (oracle side)

def judge(world, kind, ops, outs):
    """The property restated: walk the sequence with an independent dictionary class-name ->
    handler and judge every observed outcome.  Returns None or (what, step, expected)."""
    ref = {}
    n = 3 if kind == 0 else 2
    for i, (op, o) in enumerate(zip(ops, outs)):
        if op[0] == "reg":
            refused = False
            for name, hid, ar, _ in world.methods(op[1]):
                if name in ref:
                    refused = True
                    break
                ref[name] = (hid, ar)
            if refused and o[0] == 0:
                return ("duplicate-accepted", i, "registration refused")
            if not refused and o[0] != 0:
                return ("register-refused", i, "registration accepted: none of the classes has a handler")
        elif op[0] == "unreg":
            for name, hid, ar, _ in world.methods(op[1]):
                ref.pop(name, None)
            if o[0] != 0:
                return ("unregister-raised", i, "unregister(resource) returns")
        elif op[0] == "regfn":
            name = world.annname(op[1])
            if name in ref:
                if o[0] == 0:
                    return ("duplicate-accepted", i, "registration refused")
            else:
                ref[name] = (op[3], op[2])
                if o[0] != 0:
                    return ("register-refused", i, "registration accepted")
        elif op[0] == "unregfn":
            name = world.annname(op[1])
            if name in ref:
                del ref[name]
                if o[0] != 0:
                    return ("unregister-raised", i, "unregister_function of a registered class returns")
            elif o[0] == 0:
                return ("unregister-absent-accepted", i, "an exception")
        else:
            name = world.spec["classes"][op[1]]
            if name not in ref:
                if o != [1, lib.ERR["DispatchError"]]:
                    called = o[0] == 0 and o[1] or len(o) > 2
                    return ("unregistered-handler-invoked" if called else "dispatch-unknown-wrong-error", i,
                            "DispatchError, nothing called")
            else:
                hid, ar = ref[name]
                if ar == n:
                    toks = [3 * i, 3 * i + 1, 3 * i + 2] if kind == 0 else [3 * i + 1, 3 * i + 2]
                    if o != [0, [[hid, toks]]]:
                        return ("dispatch-wrong-handler", i, [0, [[hid, toks]]])
                elif o[0] == 0 or len(o) > 2:
                    return ("dispatch-arity", i, "TypeError before any handler body runs")
    return None


# ------------------------------------------------------------------ generators

def gen_world(rng):
    ncls = rng.randrange(2, 6)
    classes = [rng.choice(NAMES[:5]) if rng.random() < 0.8 else rng.choice(NAMES) for _ in range(ncls)]
    if rng.random() < 0.5:
        classes = list(dict.fromkeys(classes)) + ([classes[0]] if rng.random() < 0.3 else [])
    if len(classes) < 2:
        classes.append("Other")
    kind = rng.randrange(2)
    class_bases = [rng.randrange(ci) if ci > 0 and rng.random() < 0.3 else None for ci in range(len(classes))]
    resources = []
    for ri in range(rng.randrange(1, 5)):
        c = rng.random()
        if ri > 0 and c < 0.12:
            resources.append({"same_as": rng.choice([j for j in range(ri) if resources[j].get("same_as") is None]), "methods": []})
            continue
        rs = {"methods": [], "extras": rng.random() < 0.3}
        if ri > 0 and c < 0.27:
            rs["base"] = rng.choice([j for j in range(ri) if resources[j].get("same_as") is None])
            inherited = [m[0] for m in resources[rs["base"]]["methods"]]
            if inherited and rng.random() < 0.5:
                rs["hide"] = [[rng.choice(inherited), rng.randrange(2)]]
        for mname in rng.sample(MNAMES, rng.choice([0, 1, 1, 2, 2, 3, 4])):
            if rng.random() < 0.6:
                ann = [0, rng.randrange(len(classes))]
            else:
                ann = [1, rng.choice(classes) if rng.random() < 0.85 else rng.choice(["Nope", "mod.Ev0", "ev0"])]
            deco = kind if rng.random() < 0.9 else 1 - kind
            rs["methods"].append([mname, ann, deco])
        resources.append(rs)
    spec = {"classes": classes, "class_bases": class_bases, "resources": resources}
    c = rng.random()
    if c < 0.25:
        spec["class_meta"] = 1
    if 0.15 < c < 0.45:
        spec["class_quals"] = [rng.choice([None, ["game.messages", ""], ["other.messages", ""], ["game.messages", "Outer."],
                                           ["harness.props.C20", "Scope.<locals>."]]) for _ in classes]
    return spec, kind


def gen_ops(rng, spec, n):
    ops = []
    nr, nc = len(spec["resources"]), len(spec["classes"])
    for _ in range(n):
        c = rng.random()
        if c < 0.3:
            ops.append(["reg", rng.randrange(nr)])
        elif c < 0.55:
            ops.append(["unreg", rng.randrange(nr)])
        elif c < 0.85:
            ops.append(["disp", rng.randrange(nc)] + ([rng.randrange(len(HANDLER_EXC))] if rng.random() < 0.35 else []))
        else:
            ann = [0, rng.randrange(nc)] if rng.random() < 0.5 else [1, rng.choice(spec["classes"] + ["Nope"])]
            if c < 0.93:
                ops.append(["regfn", ann, rng.choice([3, 2, 3, 2, 0, 1, 4]), 9000 + len(ops)])
            else:
                ops.append(["unregfn", ann])
    return ops


SWEEP_WORLDS = [
    # r0 handles c0 (class annotation); r1 handles c0 (string) and c1 (class)
    {"classes": ["Ev0", "Ev1"], "resources": [{"methods": [["on_a", [0, 0], None]]},
                                               {"methods": [["on_a", [1, "Ev0"], None], ["on_b", [0, 1], None]]}]},
    # r0 handles c0 and c1 through string annotations; r1 handles c1 (class annotation)
    {"classes": ["Ev0", "Ev1"], "resources": [{"methods": [["h2", [1, "Ev1"], None], ["h1", [1, "Ev0"], None]]},
                                               {"methods": [["on_b", [0, 1], None]]}]},
]


def sweep_cases(L):
    alphabet = [["reg", 0], ["reg", 1], ["unreg", 0], ["unreg", 1], ["disp", 0], ["disp", 1]]
    for wi, w in enumerate(SWEEP_WORLDS):
        for kind in (0, 1):
            spec = {"classes": w["classes"],
                    "resources": [{"methods": [[m, a, kind] for m, a, _ in r["methods"]]} for r in w["resources"]]}
            seqs = [list(s) for n in range(1, L + 1) for s in itertools.product(alphabet, repeat=n)]
            yield spec, kind, seqs


def nontrivial(world, ops, outs):
    removed = set()
    for i, (op, o) in enumerate(zip(ops, outs)):
        if op[0] in ("reg", "regfn") and o[0] == 1:
            return True
        if op[0] == "unreg" and o[0] == 0:
            removed |= {m[0] for m in world.methods(op[1])}
        if op[0] == "disp" and world.spec["classes"][op[1]] in removed:
            return True
        if op[0] == "reg" and o[0] == 0 and removed & {m[0] for m in world.methods(op[1])}:
            return True
    return False


def process(run, world, kind, seqs, unit="disp_run", judge_all=True):
    """correspondence + oracle for a batch of op sequences in one world"""
    impl = [world.run(kind, ops) for ops in seqs]
    mod = run.model.call_many("disp_run", [[kind, world.v_ops(ops)] for ops in seqs])
    run.compare(unit, seqs, impl, mod,
                describe=lambda ops: {"world": world.spec, "kind": kind, "ops": ops})
    for ops, (tab, outs) in zip(seqs, impl):
        run.evaluations += 1
        v = judge(world, kind, ops, outs)
        if v:
            run.oracle_violation(v[0], {"world": world.spec, "kind": kind, "ops": ops[:v[1] + 1], "step": v[1],
                                        "observed": outs[v[1]], "expected": v[2]}, "MessageDispatcher." + {
                "reg": "register", "unreg": "unregister", "regfn": "register_function",
                "unregfn": "unregister_function", "disp": "dispatch"}[ops[v[1]][0]])
        if nontrivial(world, ops, outs):
            run.nt((repr(world.spec), kind, repr(ops)))
        for op in ops:
            run.count("op_" + op[0])
    return impl


def inverse_oracle(run, world, kind, prefix):
    """register r; unregister r gives back the table; r's classes raise DispatchError; register r works again"""
    from mpgameserver.dispatch import DispatchError
    for ri in range(len(world.insts)):
        names = [m[0] for m in world.methods(ri)]
        ops = prefix + [["reg", ri]]
        tab1, outs1 = world.run(kind, ops)
        run.evaluations += 1
        if outs1[-1][0] != 0 or not names:
            continue
        tab0, _ = world.run(kind, prefix)
        disp = [["disp", ci] for ci, n in enumerate(world.spec["classes"]) if n in names]
        full = ops + [["unreg", ri]] + disp + [["reg", ri]] + disp
        tab2, outs2 = world.run(kind, full[:len(ops) + 1])
        case = {"world": world.spec, "kind": kind, "ops": full[:len(ops) + 1], "step": len(ops)}
        if outs2[-1][0] != 0:
            run.oracle_violation("unregister-raised", dict(case, observed=outs2[-1], expected="unregister(resource) returns"),
                                 "MessageDispatcher.unregister")
            continue
        if tab2 != tab0:
            run.oracle_violation("unregister-not-inverse", dict(case, observed=lib.jsonable(tab2), expected=lib.jsonable(tab0)),
                                 "MessageDispatcher.unregister")
            continue
        tab3, outs3 = world.run(kind, full)
        v = judge(world, kind, full, outs3)
        if v:
            run.oracle_violation(v[0], {"world": world.spec, "kind": kind, "ops": full[:v[1] + 1], "step": v[1],
                                        "observed": outs3[v[1]], "expected": v[2]}, "MessageDispatcher.unregister")
        run.nt(("inverse", repr(world.spec), kind, ri, repr(prefix)))


DECO_SRC = '''
from __future__ import annotations
from mpgameserver.dispatch import server_event, client_event
class Ev0: pass
class R:
    @server_event
    def on_a(self, client, seqnum, msg: Ev0): LOG.append(("on_a", client, seqnum, msg))
class Q:
    @client_event
    def on_b(self, seqnum, msg: Ev0): LOG.append(("on_b", seqnum, msg))
'''


def decorate_cases(run):
    """server_event / client_event on functions with every parameter count 0..6 and annotation kind"""
    from mpgameserver.dispatch import server_event, client_event
    cases, impl = [], []
    cls = type("Ev0", (object,), {})
    for kind in (0, 1):
        for nparams in range(0, 7):
            for ann in (None, [0, b"Ev0"], [1, b"Ev0"], [1, b""]):
                for pos in range(0, 7):     # which parameter carries the annotation
                    params = ["p%d" % j for j in range(nparams)]
                    ns = {}
                    exec("def f(%s): pass" % ", ".join(params), ns)
                    f = ns["f"]
                    if ann is not None and pos < nparams:
                        f.__annotations__ = {params[pos]: cls if ann[0] == 0 else ann[1].decode()}
                    want_pos = 3 if kind == 0 else 2
                    seen = ann if (ann is not None and pos == want_pos and pos < nparams) else None

                    def go():
                        g = (server_event if kind == 0 else client_event)(f)
                        e = g._event
                        return [0, e.__name__.encode()] if isinstance(e, type) else [1, e.encode()]
                    cases.append([kind, nparams, [seen] if seen is not None else []])
                    impl.append(lib.guarded(go))
    mod = run.model.call_many("disp_decorate", cases)
    run.compare("disp_decorate", cases, impl, mod)
    run.exhaustive.append("decorators: every parameter count 0..6 x annotation position 0..6 x {none, class, string} x both decorators")
    # postponed annotations (PEP 563) really are strings on the method
    ns = {"LOG": []}
    exec(compile(DECO_SRC, "<c20>", "exec"), ns)
    from mpgameserver.dispatch import ServerMessageDispatcher, ClientMessageDispatcher
    for R, D, args in ((ns["R"], ServerMessageDispatcher, ("c", 7)), (ns["Q"], ClientMessageDispatcher, (7,))):
        run.evaluations += 1
        r, d, m = R(), D(), ns["Ev0"]()
        meth = [getattr(R, n) for n in dir(R) if hasattr(getattr(R, n), "_event")][0]
        if meth._event != "Ev0":
            run.oracle_violation("postponed-annotation-not-a-string", {"event": repr(meth._event)}, "server_event")
        d.register(r)
        del ns["LOG"][:]
        d.dispatch(*args, m)
        if len(ns["LOG"]) != 1 or ns["LOG"][0][1:] != args + (m,) or ns["LOG"][0][-1] is not m:
            run.oracle_violation("dispatch-wrong-handler", {"world": "postponed annotations module", "log": repr(ns["LOG"])},
                                 "MessageDispatcher.dispatch")


def independence_oracle(run, world, kind, seqs):
    """two (three) dispatchers alive in one process, their sequences interleaved: each must end with the table and
    the outcomes it has when it runs alone (the property speaks of ONE dispatcher's registrations)"""
    rng = run.rng
    sched = [rng.randrange(len(seqs)) for _ in range(sum(len(s) for s in seqs))]
    together = world.run_interleaved(kind, seqs, sched)
    for k, s in enumerate(seqs):
        alone = world.run(kind, s)
        run.evaluations += 1
        if together[k] != alone:
            j = next((i for i, (a, b) in enumerate(zip(together[k][1], alone[1])) if a != b), len(s) - 1)
            run.oracle_violation("dispatcher-not-independent",
                                 {"world": world.spec, "kind": kind, "ops": s[:j + 1], "step": j, "other_sequences": [x for i, x in enumerate(seqs) if i != k],
                                  "schedule": sched[:40], "observed": lib.jsonable(together[k][1][j] if j < len(together[k][1]) else together[k][0]),
                                  "expected": lib.jsonable(alone[1][j] if j < len(alone[1]) else alone[0])},
                                 "MessageDispatcher (two instances in one process)")
        run.nt(("independent", repr(world.spec), kind, repr(s), tuple(sched[:20])))


def reentrant_oracle(run):
    """operations issued from inside a handler: the handler unregisters its own resource; a handler dispatches another
    message; a handler re-registers.  Judged from the property text: exactly the registered handler runs, once, with
    the arguments; after unregister(resource) its classes raise DispatchError; it can be registered again."""
    from mpgameserver.dispatch import ServerMessageDispatcher, ClientMessageDispatcher, DispatchError, server_event, client_event
    for kind in (0, 1):
        Ev0, Ev1, Ev2 = (type(n, (object,), {}) for n in ("Ev0", "Ev1", "Ev2"))
        log = []
        d = ServerMessageDispatcher() if kind == 0 else ClientMessageDispatcher()
        deco = server_event if kind == 0 else client_event

        def call(msg, *extra):
            return d.dispatch("client", 7, msg) if kind == 0 else d.dispatch(7, msg)

        def mk(name, body):
            if kind == 0:
                def h(self, client, seqnum, msg):
                    log.append((name, client, seqnum, msg))
                    body(self)
            else:
                def h(self, seqnum, msg):
                    log.append((name, "client", seqnum, msg))
                    body(self)
            h.__name__ = name
            return h
        ns = {}
        for name, cls, body in (("on_quit", Ev0, lambda self: d.unregister(self)),
                                ("on_nest", Ev1, lambda self: call(Ev0())),
                                ("on_again", Ev2, lambda self: (d.unregister(self), d.register(self)))):
            f = mk(name, body)
            f.__annotations__ = {"msg": cls}
            ns[name] = deco(f)
        R = type("Reentrant", (object,), ns)
        res = R()
        site = "MessageDispatcher.dispatch (operations from inside the handler)"

        def expect(what, cond, **case):
            run.evaluations += 1
            if not cond:
                run.oracle_violation(what, dict(case, kind=kind, world="re-entrant resource", log=[x[0] for x in log]), site)
        d.register(res)
        m = Ev2()
        del log[:]
        r = lib.guarded(call, m, wrap=lambda x: 0)
        expect("dispatch-wrong-handler", r == [0, 0] and [x[0] for x in log] == ["on_again"] and log[0][3] is m, step="handler re-registers itself", observed=r)
        expect("unregister-not-inverse", sorted(d.registered_events) == ["Ev0", "Ev1", "Ev2"], step="table after re-register inside handler",
               observed=sorted(d.registered_events))
        del log[:]
        m = Ev1()
        r = lib.guarded(call, m, wrap=lambda x: 0)
        expect("dispatch-wrong-handler", r == [0, 0] and [x[0] for x in log] == ["on_nest", "on_quit"] and log[0][3] is m,
               step="nested dispatch; inner handler unregisters the resource", observed=r)
        expect("unregister-not-inverse", d.registered_events == {}, step="table after unregister inside handler", observed=sorted(d.registered_events))
        for cls in (Ev0, Ev1, Ev2):
            del log[:]
            try:
                call(cls())
                r = "returned"
            except DispatchError:
                r = "DispatchError"
            except Exception as e:      # noqa
                r = type(e).__name__
            expect("unregistered-handler-invoked" if log else "dispatch-unknown-wrong-error", r == "DispatchError" and not log,
                   step="dispatch after the resource unregistered itself", observed=r)
        r = lib.guarded(d.register, res, wrap=lambda x: 0)
        expect("register-refused", r == [0, 0] and sorted(d.registered_events) == ["Ev0", "Ev1", "Ev2"], step="register again", observed=r)
        del log[:]
        m = Ev0()
        r = lib.guarded(call, m, wrap=lambda x: 0)
        expect("dispatch-wrong-handler", r == [0, 0] and [x[0] for x in log] == ["on_quit"] and log[0][3] is m and log[0][2] == 7,
               step="dispatch after registering again", observed=r)
        run.nt(("reentrant", kind))


# ------------------------------------------------------------------ the run

def run(run):
    # exhaustive sweep first: the first failure reported is then a shortest one
    L = 6 if run.thorough() else 4
    total = 0
    for spec, kind, seqs in sweep_cases(L):
        w = World(spec)
        process(run, w, kind, seqs)
        inverse_oracle(run, w, kind, [])
        total += len(seqs)
    run.exhaustive.append("all %d operation sequences of length <= %d over {register, unregister} x 2 resources + dispatch x 2 classes, "
                          "%d worlds x 2 dispatcher kinds" % (total, L, len(SWEEP_WORLDS)))
    run.count("sweep_sequences", total)

    nworlds = 6000 if run.thorough() else 350
    for wi in range(nworlds):
        spec, kind = gen_world(run.rng)
        w = World(spec)
        seqs = [gen_ops(run.rng, spec, run.rng.randrange(1, 15)) for _ in range(8)]
        impl = process(run, w, kind, seqs)
        inverse_oracle(run, w, kind, run.rng.choice(seqs)[:run.rng.randrange(0, 6)])
        if wi % 3 == 0:
            independence_oracle(run, w, kind, run.rng.sample(seqs, run.rng.choice([2, 2, 3])))
        if wi < 2:
            run.sample({"unit": "disp_run", "world": spec, "kind": kind, "ops": seqs[0], "impl": lib.jsonable(impl[0])})
        run.count("worlds")
        run.count("annotations_class", sum(1 for r in spec["resources"] for m in r["methods"] if m[1][0] == 0))
        run.count("annotations_string", sum(1 for r in spec["resources"] for m in r["methods"] if m[1][0] == 1))
    # long lives: thousands of operations on one dispatcher
    for li in range(6 if run.thorough() else 2):
        spec, kind = gen_world(run.rng)
        w = World(spec)
        process(run, w, kind, [gen_ops(run.rng, spec, 12000 if run.thorough() else 2500)])
        run.count("long_sequences")
    for spec, kind, seqs in sweep_cases(2):
        independence_oracle(run, World(spec), kind, [seqs[-1], seqs[-7], seqs[5]])
    reentrant_oracle(run)
    decorate_cases(run)
    run.rules.append(RULE)


def replay(run, data):
    import json
    f = data.get("failure") or (data.get("correspondence") or [{}])[0]
    case = f.get("case") or {}
    if "world" not in case or not isinstance(case["world"], dict):
        print(json.dumps(data, indent=1)[:4000])
        return 0
    w = World(case["world"])
    tab, outs = w.run(case["kind"], case["ops"])
    mod = run.model.call("disp_run", [case["kind"], w.v_ops(case["ops"])])
    v = judge(w, case["kind"], case["ops"], outs)
    print("ops            :", json.dumps(case["ops"]))
    print("implementation :", json.dumps(lib.jsonable([tab, outs])))
    print("model          :", json.dumps(lib.jsonable(mod)))
    print("oracle verdict :", v)
    bad = v is not None or lib.jsonable([tab, outs]) != lib.jsonable(mod)
    print("REPLAY %s" % ("still failing" if bad else "no longer failing"))
    return 1 if bad else 0
