"""C19 — password hashing (mpgameserver/auth.py).
Correspondence units: auth_verify, auth_prepare, auth_hash, auth_split, auth_unpack, auth_consts, auth_b64encode
(+ auth_b64strict, the reference decoder that witnesses the consistency of the decoder premises), auth_history (Model/AuthCfg.v:
hash_password under changed Auth.SALT_LENGTH / Auth.DIGEST_LENGTH, whole histories of calls in one process).
sha256, base64 DEcoding and scrypt are oracles of the model: the harness asks the MODEL which queries it
makes (fields of the split string, the scrypt call it prepared) and answers them with the real libraries,
so the string parsing / glue is compared exactly and those libraries are never re-implemented.  The
scrypt call the IMPLEMENTATION prepares is observed through a recording wrapper around scrypt.Scrypt and
compared with the model's `prepare` (salt, length, N, r, p, expected digest, key material).
base64.b64encode is modelled (Model/Base64.v) and compared with the library directly.
Oracle: `spec`, an independent restatement of verify_password written from the property (hashlib's
scrypt / sha256, a different binding), must agree with the implementation on every case, and the
generator's own expectation for the case (honest pair / corruption class) must be met.

Cost: one scrypt derivation with the code's parameters (N=16384, r=16) is ~0.08 s.  Real hashes
are used for a small set; the sweeps (every truncation, every single-character edit, parameter
grid) run on hash strings of the same format built with cheap parameters (N<=16, r<=2)."""
import base64, hashlib, struct, unittest.mock
from harness import lib

RULE = ("real hashes of a small password set (empty, NUL, 10 kB, near-identical pairs) verified with the right "
        "and with near-miss passwords; same-format hashes with cheap scrypt parameters corrupted in every way: "
        "every truncation position, every field removed / duplicated, every single-character replacement / "
        "deletion / insertion in each field, every (salt_length, length) pair on a grid, every parameter byte "
        "edit, wrong argument types, the D14 witnesses; non-trivial = a corrupted string that still has four fields and decodes "
        "(reaches scrypt) or an honest pair; PROCESS HISTORIES: sequences of {set Auth.SALT_LENGTH / Auth.DIGEST_LENGTH (either, "
        "both, back to the defaults, out of byte range), hash_password, verify_password of an earlier hash with the right / a "
        "near-miss password} in ONE process: a long one (1200 operations, thorough 20000) with scrypt replaced by a cheap "
        "consistent function (the theorems hold for any kdf), a short one with the real scrypt, and histories run in FRESH "
        "interpreter processes (first hash under non-default settings, the demo order, random orders); every hash must embed the "
        "settings current at its call, carry a fresh salt of the configured length, differ from every other hash of the process "
        "and verify (own: True, other: False) at any later moment; IDENTIFICATION PAIRS (harness/identlib.py): ~2000 pairs p != q "
        "of byte strings related by a transformation some canonicalisation would undo - Unicode NFC/NFD/NFKC/NFKD, case mappings, "
        "added / stripped / collapsed blanks, BOM, zero-width characters, full-width and look-alike letters, over-long / CESU / "
        "modified UTF-8, latin-1 / UTF-16 / UTF-32 encodings of the same text, lossy decoding, truncation at 8/55/56/64/72/128/255/"
        "256 bytes and at NUL, NUL padding, the password's own digest / hex / base64, the password repeated - both directions: all "
        "on hashes made by the real hash_password under the cheap kdf, a sample through the full verify pipeline (key material "
        "handed to scrypt compared with the model), a few on real scrypt hashes; the text offered as str is refused")
ASSUMPTIONS = ["premises of the theorems about base64.b64decode: b64decode(b64encode(x)) = x (b64_roundtrip); a proper prefix "
               "of an encoding is refused or decodes to fewer bytes (b64_prefix_shorter); it fails with binascii.Error, a "
               "ValueError, only (b64_err_value) - each sampled here on the real library (every encode, every prefix, every "
               "field the code decodes); that ':' is never in the encoder's output is PROVED of the modelled encoder",
               "premises about scrypt: derive returns exactly `length` bytes (kdf_length); constructor/derive fail with "
               "ValueError only (kdf_err_value); failure does not depend on the key material (kdf_err_params) - the first two "
               "observed on every derivation made here",
               "kdf-injectivity is a premise of verify_other_false, stated per pair: scrypt(sha256(q)) != scrypt(sha256(p)) under "
               "the salt; verify_other_iff proves the premise is also necessary",
               "os.urandom returns 16 bytes (len salt = 16), distinct between the two calls (premise s1 <> s2 of fresh_salt_differs)",
               "str.encode('utf-8') of the hash string is an input of the model (PStr enc); UnicodeEncodeError counts as ValueError",
               "process histories: Auth.SALT_LENGTH in 0..255 (a fresh salt is only demanded for >= 8 bytes), Auth.DIGEST_LENGTH in "
               "1..255 (near-miss passwords are only required to fail for >= 16 bytes); the long history substitutes a cheap "
               "function for scrypt inside mpgameserver.auth (hash and verify alike)"]
TRUSTED = ["cryptography (SHA256, Scrypt), base64.b64decode, os.urandom, str.encode: oracles of the model, answers taken from the real "
           "libraries; what the theorems assume of them is listed under assumptions",
           "CPU/memory cost of verification with hostile embedded parameters (N*r*p up to 32768*255*255) is not covered"]

STD = 16384 * 16 * 1
COST_LIMIT = 2 * STD


class Ctx:
    def __init__(self, run):
        self.run = run
        self.kdf_cache = {}
        self.expensive = 0
        self.skipped = 0
        self.kinds = {}

    def violation(self, what, case, site):
        """at most 5 recorded failures per kind, so the replay file shows every kind that occurred"""
        self.kinds[what] = self.kinds.get(what, 0) + 1
        self.run.count("violation_" + what)
        if self.kinds[what] <= 5:
            self.run.oracle_violation(what, case, site)

    def sha(self, b):
        from cryptography.hazmat.primitives import hashes
        d = hashes.Hash(hashes.SHA256())
        d.update(b)
        return d.finalize()

    def kdf(self, salt, ln, N, r, p, km):
        """the real library's answer: [0, bytes] or [1, code]"""
        key = (salt, ln, N, r, p, km)
        if key not in self.kdf_cache:
            from cryptography.hazmat.primitives.kdf import scrypt

            def go():
                return scrypt.Scrypt(salt, ln, N, r, p).derive(km)
            if cost(N, r, p) >= STD // 4:
                self.expensive += 1
            a = self.kdf_cache[key] = lib.guarded(go)
            # premises kdf_length / kdf_err_value of the theorems, observed on the real library
            if a[0] == 0 and len(a[1]) != ln:
                self.violation("scrypt-length-hypothesis", {"salt": salt, "length": ln, "N": N, "r": r, "p": p}, "scrypt.Scrypt")
            if a[0] == 1 and a[1] != lib.ERR["ValueError"]:
                self.violation("scrypt-error-kind-hypothesis", {"salt": salt, "length": ln, "N": N, "r": r, "p": p, "code": a[1]}, "scrypt.Scrypt")
        return self.kdf_cache[key]


def cost(N, r, p):
    if N < 2 or N & (N - 1) or r < 1 or p < 1:
        return 0
    return N * r * p


def v_py(x):
    if isinstance(x, bytes):
        return [0, x]
    if isinstance(x, str):
        try:
            return [1, [0, x.encode("utf-8")]]
        except UnicodeError as e:
            return [1, [1, lib.exc_code(e)]]
    return [2]


def b64d_real(part):
    return lib.guarded(base64.b64decode, part)


def b64d_checked(ctx, part):
    a = b64d_real(part)
    if a[0] == 1 and a[1] != lib.ERR["ValueError"]:      # premise b64_err_value
        ctx.violation("base64-error-kind-hypothesis", {"input": part, "code": a[1]}, "base64.b64decode")
    return a


def as_flag(x):
    return 1 if x is True else 0 if x is False else ["not-a-bool", repr(x)]


def make_hash(pw, salt, N=4, r=1, p=1, sl=None, ln=8, kind="scrypt", version="1"):
    """a hash string in the code's format with chosen (cheap) parameters"""
    sl = len(salt) if sl is None else sl
    out = hashlib.scrypt(hashlib.sha256(pw).digest(), salt=salt, n=N, r=r, p=p, dklen=ln, maxmem=2 ** 30) if ln else b""
    params = struct.pack(">HBBBB", N, r, p, sl, ln)
    return "%s:%s:%s:%s" % (kind, version, base64.b64encode(params).decode(), base64.b64encode(salt + out).decode())


_spec_cache = {}


def spec(pw, h):
    """independent restatement of verify_password (written from the property, not from the code or the
    Coq text; scrypt/sha256 through hashlib, a different binding): 'raise' for wrong argument types and
    for every string that is not `scrypt:1:b64(6-byte params):b64(salt+digest)` with length >= 1 and
    salt_length + length = len(data), or whose scrypt parameters the library refuses; otherwise whether
    the digest equals scrypt(sha256(pw)) under the embedded salt and parameters"""
    if not isinstance(pw, bytes) or not isinstance(h, str):
        return "raise"
    parts = h.split(":")
    if len(parts) != 4 or parts[0] != "scrypt" or parts[1] != "1":
        return "raise"
    try:
        params = base64.b64decode(parts[2].encode("utf-8"))
        data = base64.b64decode(parts[3].encode("utf-8"))
    except ValueError:
        return "raise"
    if len(params) != 6:
        return "raise"
    N, r, p, sl, ln = struct.unpack(">HBBBB", params)
    if ln < 1 or sl + ln != len(data):
        return "raise"
    key = (pw, params, data[:sl])
    if key not in _spec_cache:
        try:
            _spec_cache[key] = hashlib.scrypt(hashlib.sha256(pw).digest(), salt=data[:sl], n=N, r=r, p=p, dklen=ln, maxmem=2 ** 31 - 1)
        except ValueError:
            _spec_cache[key] = None
    d = _spec_cache[key]
    return "raise" if d is None else d == data[sl:]


def matches(pw, h):
    return spec(pw, h) is True


# ------------------------------------------------------------------ verify pipeline

def verify_batch(ctx, cases, unit="auth_verify"):
    """cases: list of dict(pw=, h=, tag=, expect=None|True|False|'reject'|'raise').  Correspondence + oracle.
    expect: True/False = honest pair, must return exactly that; 'raise' = truncated / wrong field count /
    wrong method: must raise ValueError|TypeError; 'reject' = must not return True; None = judged by the
    independent re-derivation `matches` (True only if the decoded record really matches)."""
    from mpgameserver.auth import Auth
    run, M = ctx.run, ctx.run.model
    # stage 1: the model's split of the encoded string -> real b64decode answers for its fields
    enc = []
    for c in cases:
        hb = None
        if isinstance(c["pw"], bytes) and isinstance(c["h"], str):
            try:
                hb = c["h"].encode("utf-8")
            except UnicodeError:
                hb = None
        enc.append(hb)
    idx = [i for i, hb in enumerate(enc) if hb is not None]
    parts = M.call_many("auth_split", [[enc[i]] for i in idx])
    # the model's split is itself compared with bytes.split
    run.compare("auth_split", [enc[i] for i in idx], [enc[i].split(b":") for i in idx], parts)
    b64tabs = {}
    for i, ps in zip(idx, parts):
        b64tabs[i] = [[p, b64d_checked(ctx, p)] for p in dict.fromkeys(ps)]
    # stage 2: the model's prepared scrypt call -> real scrypt answer (screened by cost)
    preps = M.call_many("auth_prepare", [[enc[i], b64tabs[i]] for i in idx])
    kdftabs, keep = {}, []
    for i, pr in zip(idx, preps):
        c = cases[i]
        if pr[0] == 0:
            salt, ln, N, r, p, expected = pr[1]
            if cost(N, r, p) > COST_LIMIT:
                ctx.skipped += 1
                c["skip"] = True
                continue
            km = ctx.sha(c["pw"])
            kdftabs[i] = [[[salt, ln, N, r, p, km], ctx.kdf(salt, ln, N, r, p, km)]]
            c["reaches_kdf"] = True
    live = [i for i, c in enumerate(cases) if not c.get("skip")]
    # stage 3: implementation and model
    impl, margs = [], []
    prep_of = dict(zip(idx, preps))
    p_cases, p_impl, p_mod = [], [], []
    for i in live:
        c = cases[i]
        o, calls = spied_verify(c["pw"], c["h"])
        impl.append(o)
        # the scrypt call the IMPLEMENTATION prepared (observed through a recording wrapper around
        # scrypt.Scrypt) against the model's `prepare`: salt, length, N, r, p, expected digest, key material
        if i in prep_of:
            pr = prep_of[i]
            init = [x for x in calls if x[0] == "init"]
            ver = [x for x in calls if x[0] == "verify"]
            if pr[0] == 0:
                km = ctx.sha(c["pw"])
                want = [0, pr[1][:5] + ([pr[1][5], km] if ver else [])]
            else:
                want = [1, pr[1]]
            if len(init) > 1 or len(ver) > 1 or (ver and not init):
                got = ["unexpected scrypt calls", [x[0] for x in calls]]
            elif init:
                got = [0, init[0][1:] + (ver[0][1:][::-1] if ver else [])]
            else:
                got = o if o[0] == 1 else ["no scrypt call but a result", o]
            p_cases.append(describe(c)); p_impl.append(got); p_mod.append(want)
        shatab = [[c["pw"], ctx.sha(c["pw"])]] if isinstance(c["pw"], bytes) else []
        margs.append([v_py(c["pw"]), v_py(c["h"]), shatab, b64tabs.get(i, []), kdftabs.get(i, [])])
    mod = M.call_many("auth_verify", margs)
    run.compare(unit, [describe(cases[i]) for i in live], impl, mod)
    run.compare("auth_prepare", p_cases, p_impl, p_mod)
    for i, o in zip(live, impl):
        judge(ctx, cases[i], o)
    return {i: o for i, o in zip(live, impl)}


def spied_verify(pw, h):
    """Auth.verify_password with scrypt.Scrypt wrapped by a recorder (the real class does the work)"""
    import mpgameserver.auth as A
    real = A.scrypt.Scrypt
    calls = []

    class Spy:
        def __init__(self, salt, length, n, r, p, backend=None):
            calls.append(["init", salt, length, n, r, p])
            self.k = real(salt, length, n, r, p)

        def verify(self, key_material, expected):
            calls.append(["verify", key_material, expected])
            return self.k.verify(key_material, expected)

        def derive(self, key_material):
            calls.append(["derive", key_material])
            return self.k.derive(key_material)
    with unittest.mock.patch.object(A.scrypt, "Scrypt", Spy):
        o = lib.guarded(A.Auth.verify_password, pw, h, wrap=as_flag)
    return o, calls


def describe(c):
    d = {"password": c["pw"] if isinstance(c["pw"], bytes) else repr(c["pw"]),
         "hash": c["h"] if isinstance(c["h"], str) and c["h"].isprintable() else repr(c["h"]), "tag": c["tag"]}
    if "hashed" in c:      # identification pairs: the password the hash was made of and how the offered one relates to it
        d["hashed_password"] = c["hashed"]
        d["relation"] = c["rel"]
    return d


def judge(ctx, c, o):
    """the property on the implementation alone: the generator's expectation for the case (honest pair /
    corruption class) and the independent specification `spec` must both be met"""
    run = ctx.run
    run.evaluations += 1
    run.count("verify_" + c["tag"].split(":")[0])
    d = dict(describe(c), observed=o)
    site = "Auth.verify_password"
    want = spec(c["pw"], c["h"])
    exp = c.get("expect")
    if o[0] == 1:
        run.count("outcome_raise_%d" % o[1])
        if o[1] not in (lib.ERR["ValueError"], lib.ERR["TypeError"], lib.ERR["UnicodeError"]):
            ctx.violation("wrong-exception-kind", d, site)
        elif exp in (True, False):
            ctx.violation("honest-hash-raises", d, site)
        elif want != "raise":
            ctx.violation("wellformed-hash-raises", d, site)
    elif o[1] == 1:
        run.count("outcome_true")
        if exp in ("reject", "raise"):
            ctx.violation("corrupted-hash-accepted", d, site)
        elif exp is False:
            ctx.violation("other-password-accepted", d, site)
        elif want is not True:
            ctx.violation("accepts-without-match", d, site)
    elif o[1] == 0:
        run.count("outcome_false")
        if exp is True:
            ctx.violation("own-password-rejected", d, site)
        elif exp == "raise" or want == "raise":
            ctx.violation("malformed-hash-not-refused", d, site)
        elif want is True:
            ctx.violation("matching-hash-rejected", d, site)
    else:
        ctx.violation("result-not-a-bool", d, site)
    if c.get("reaches_kdf") or exp in (True, False):
        run.nt((repr(c["pw"]), repr(c["h"])))


# ------------------------------------------------------------------ hash pipeline

def hash_batch(ctx, cases):
    """cases: list of (pw, salt)"""
    from mpgameserver.auth import Auth
    run, M = ctx.run, ctx.run.model
    consts = M.call("auth_consts", [])
    N, r, p, SL, DL, packed = consts
    impl, margs = [], []
    for pw, salt in cases:
        asked = []

        def fake(n, salt=salt, asked=asked):
            asked.append(n)
            return salt
        with unittest.mock.patch("os.urandom", fake):
            o = lib.guarded(Auth.hash_password, pw, wrap=lambda s: s.encode("utf-8") if isinstance(s, str) else ["not-a-str"])
        if isinstance(pw, bytes) and asked != [SL]:
            o = ["urandom asked for", asked]
        impl.append(o)
        if isinstance(pw, bytes):
            km = ctx.sha(pw)
            ka = ctx.kdf(salt, DL, N, r, p, km)
            margs.append([v_py(pw), salt, [[pw, km]], [[[salt, DL, N, r, p, km], ka]]])
        else:
            margs.append([v_py(pw), salt, [], []])
    mod = M.call_many("auth_hash", margs)
    run.compare("auth_hash", [{"password": pw if isinstance(pw, bytes) else repr(pw), "salt": salt} for pw, salt in cases], impl, mod)
    return impl


# ------------------------------------------------------------------ corruptions

ALPHA = "ABCDEFGHIJKLMNOPQRSTUVWXYZabcdefghijklmnopqrstuvwxyz0123456789+/"


def corruptions(h, rng, every=True):
    """(tag, corrupted string, expectation) for one valid hash string h"""
    out = []
    for n in range(len(h)):
        out.append(("trunc:%d" % n, h[:n], "raise"))
    f = h.split(":")
    for i in range(4):
        out.append(("field-removed:%d" % i, ":".join(f[:i] + f[i + 1:]), "raise"))
        out.append(("field-emptied:%d" % i, ":".join(f[:i] + [""] + f[i + 1:]), "raise"))
        out.append(("field-duplicated:%d" % i, ":".join(f[:i] + [f[i]] + f[i:]), "raise"))
    out.append(("field-extra", h + ":", "raise"))
    out.append(("field-extra", h + ":AAAA", "raise"))
    out.append(("field-extra", ":" + h, "raise"))
    for k, v in (("Scrypt", "1"), ("scrypt ", "1"), ("", "1"), ("scrypt", "2"), ("scrypt", ""), ("scrypt", "01"),
                 ("scrypt", "1 "), ("bcrypt", "1"), ("scrypt", "١")):
        out.append(("method", ":".join([k, v] + f[2:]), "raise"))
    # single-character edits inside the two base64 fields: None = judged by re-derivation (an edit the
    # lenient decoder discards, or a padding change, leaves the decoded record unchanged)
    for fi in (2, 3):
        s = f[fi]
        pos = range(len(s)) if every else sorted(rng.sample(range(len(s)), min(len(s), 6)))
        for j in pos:
            for ch in (ALPHA[(ALPHA.index(s[j]) + 1) % 64] if s[j] in ALPHA else "A", "!", "=", " ", "é"):
                if ch != s[j]:
                    out.append(("b64-replace:%d" % fi, ":".join(f[:fi] + [s[:j] + ch + s[j + 1:]] + f[fi + 1:]), None))
            out.append(("b64-delete:%d" % fi, ":".join(f[:fi] + [s[:j] + s[j + 1:]] + f[fi + 1:]), None))
            out.append(("b64-insert:%d" % fi, ":".join(f[:fi] + [s[:j] + rng.choice(ALPHA + "!=") + s[j:]] + f[fi + 1:]), None))
    return out


def param_edits(pw, salt, out_len=8):
    """hash strings whose embedded parameters were edited (data kept): all judged by re-derivation"""
    base = make_hash(pw, salt, N=4, r=1, p=1, ln=out_len)
    f = base.split(":")
    data = base64.b64decode(f[3])
    res = []
    L = len(data)
    byte = lambda xs: sorted(set(x for x in xs if 0 <= x <= 255))
    for sl in byte([0, 1, len(salt) - 1, len(salt), len(salt) + 1, L - 1, L, L + 1, 255]):
        for ln in byte([0, 1, out_len - 1, out_len, out_len + 1, L - sl, L, 255]):
            for N in (4, 2):
                params = struct.pack(">HBBBB", N, 1, 1, sl, ln)
                res.append(("param-lengths", ":".join(f[:2] + [base64.b64encode(params).decode(), f[3]])))
    for N in (0, 1, 3, 5, 8, 16, 65535, 32768 + 1, 256):
        for r, p in ((1, 1), (0, 1), (1, 0), (2, 1), (1, 2)):
            params = struct.pack(">HBBBB", N, r, p, len(salt), out_len)
            res.append(("param-cost", ":".join(f[:2] + [base64.b64encode(params).decode(), f[3]])))
    for n in range(0, 9):
        res.append(("param-size", ":".join(f[:2] + [base64.b64encode(bytes([0, 4, 1, 1, len(salt), out_len, 0, 0, 0][:n])).decode(), f[3]])))
    return res


PASSWORDS = [b"", b"\x00", b"password", b"Password", b"password\x00", b"a\x00b", bytes(range(256)), b"x" * 10000]


def near_misses(p, rng):
    out = [p + b"\x00", p + b" ", p[:-1] if p else b"\x00", p.swapcase() if p.swapcase() != p else p + b"a", b"\x00" + p]
    if p:
        j = rng.randrange(len(p))
        out.append(p[:j] + bytes([p[j] ^ (1 << rng.randrange(8))]) + p[j + 1:])
    return [q for q in dict.fromkeys(out) if q != p]


# ------------------------------------------------------------------ process-level histories

SL_CHOICES = [8, 12, 16, 16, 17, 24, 32, 64, 255]
DL_CHOICES = [16, 20, 24, 24, 32, 48, 64, 255]


def cheap_derive(salt, length, n, r, p, km):
    """a cheap, consistent stand-in for scrypt (the theorems hold for ANY kdf): the requested cost parameters are mixed
    into the salt so that a hash made and verified with different parameters does not match"""
    return hashlib.scrypt(km, salt=struct.pack(">IIII", n, r, p, len(salt)) + bytes(salt), n=2, r=1, p=1, dklen=length)


class AuthWorld:
    """mpgameserver.auth with os.urandom recorded (the real generator answers) and, optionally, scrypt.Scrypt replaced by
    cheap_derive; Auth.SALT_LENGTH / Auth.DIGEST_LENGTH are restored on exit"""

    def __init__(self, cheap):
        self.cheap = cheap
        self.urandom = []
        self.kdf_calls = []

    def __enter__(self):
        import os
        import mpgameserver.auth as A
        self.A = A
        self.saved = (A.Auth.SALT_LENGTH, A.Auth.DIGEST_LENGTH)
        real_urandom = os.urandom
        real_scrypt = A.scrypt.Scrypt
        w = self

        def urandom(n):
            b = real_urandom(n)
            w.urandom.append((n, b))
            return b

        class Spy:
            def __init__(self, salt, length, n, r, p, backend=None):
                w.kdf_calls.append([bytes(salt), length, n, r, p])
                self.a = (bytes(salt), length, n, r, p)
                self.k = None if w.cheap else real_scrypt(salt, length, n, r, p)

            def derive(self, km):
                return cheap_derive(*self.a, km) if w.cheap else self.k.derive(km)

            def verify(self, km, expected):
                if not w.cheap:
                    return self.k.verify(km, expected)
                import hmac
                if not hmac.compare_digest(cheap_derive(*self.a, km), bytes(expected)):
                    raise A.InvalidKey("Keys do not match.")
        self.patches = [unittest.mock.patch("os.urandom", urandom), unittest.mock.patch.object(A.scrypt, "Scrypt", Spy)]
        for p_ in self.patches:
            p_.start()
        return self

    def __exit__(self, *a):
        for p_ in self.patches:
            p_.stop()
        self.A.Auth.SALT_LENGTH, self.A.Auth.DIGEST_LENGTH = self.saved


def read_hash(h):
    """the fields of a hash string, read independently: (N, r, p, salt_length, length, data) or None"""
    if not isinstance(h, str):
        return None
    f = h.split(":")
    if len(f) != 4 or f[0] != "scrypt" or f[1] != "1":
        return None
    try:
        params = base64.b64decode(f[2], validate=True)
        data = base64.b64decode(f[3], validate=True)
    except ValueError:
        return None
    if len(params) != 6:
        return None
    return struct.unpack(">HBBBB", params) + (data,)


def gen_history(rng, n, p_set=0.06):
    """operations of one process: ["set", sl, dl] | ["hash", pw] | ["verify", k, pw-variant] (k counts back from the latest hash)"""
    ops, nh = [], 0
    pool = PASSWORDS[:6] + [b"correct horse", b"pw\x00with nul"]
    for _ in range(n):
        c = rng.random()
        if c < p_set:
            k = rng.random()
            if k < 0.3:
                ops.append(["set", None, rng.choice(DL_CHOICES)])
            elif k < 0.55:
                ops.append(["set", rng.choice(SL_CHOICES), None])
            elif k < 0.8:
                ops.append(["set", rng.choice(SL_CHOICES), rng.choice(DL_CHOICES)])
            elif k < 0.96:
                ops.append(["set", 16, 24])
            else:
                ops.append(["set", rng.choice([256, 300, 16]), rng.choice([256, 1000])])      # does not fit struct 'B'
        elif c < 0.55 or nh == 0:
            pw = rng.choice(pool) if rng.random() < 0.7 else bytes(rng.randrange(256) for _ in range(rng.randrange(0, 24)))
            if rng.random() < 0.02:
                pw = rng.choice(["str", None, bytearray(b"pw")])
            ops.append(["hash", pw])
            nh += 1
        else:
            ops.append(["verify", rng.randrange(0, min(nh, 40)), rng.choice(["own", "own", "other"])])
    return ops


def run_history(ctx, ops, cheap, label):
    """one process history on the implementation, judged operation by operation; returns the hash calls for the model:
    [(sl, dl, pw, salt, result)] and the set operations in order"""
    run, rng = ctx.run, ctx.run.rng
    site = "Auth.hash_password after Auth.SALT_LENGTH/DIGEST_LENGTH changed"
    made = []          # (pw, h, sl, dl) of successful hashes
    seen_h, seen_salt = {}, {}
    cfg_hist = [[16, 24]]
    mops, results = [], []
    with AuthWorld(cheap) as w:
        Auth = w.A.Auth
        Auth.SALT_LENGTH, Auth.DIGEST_LENGTH = 16, 24
        for i, op in enumerate(ops):
            sl, dl = Auth.SALT_LENGTH, Auth.DIGEST_LENGTH
            ctxd = {"history": label, "operation": i, "hashes_before": len(results), "settings_history": cfg_hist[-4:],
                    "configured": [sl, dl], "cheap_kdf": cheap}
            if op[0] == "set":
                if op[1] is not None:
                    Auth.SALT_LENGTH = op[1]
                if op[2] is not None:
                    Auth.DIGEST_LENGTH = op[2]
                cfg_hist.append([Auth.SALT_LENGTH, Auth.DIGEST_LENGTH])
                mops.append([0, Auth.SALT_LENGTH, Auth.DIGEST_LENGTH])
                run.count("history_set")
            elif op[0] == "hash":
                pw = op[1]
                del w.urandom[:], w.kdf_calls[:]
                o = lib.guarded(Auth.hash_password, pw, wrap=lambda s: s.encode("utf-8") if isinstance(s, str) else ["not-a-str"])
                rec = read_hash(o[1].decode("utf-8")) if o[0] == 0 and isinstance(o[1], bytes) else None
                # the salt of this call: read from the string (how the code obtains its random bytes is its own business;
                # that they are fresh is judged below); os.urandom's answer when there is no string
                salt = rec[5][:sl] if rec is not None and 0 <= sl <= 255 else (w.urandom[0][1] if w.urandom else b"")
                mops.append([1, v_py(pw), salt])
                results.append((sl, dl, pw, salt, o))
                run.count("history_hash")
                run.evaluations += 1
                if not isinstance(pw, bytes):
                    if o != lib.err(lib.ERR["TypeError"]):
                        ctx.violation("hash-wrong-exception", dict(ctxd, password=repr(pw), observed=o), site)
                    continue
                d = dict(ctxd, password=pw)
                if not (0 <= sl <= 255 and 0 <= dl <= 255):
                    if o[0] == 0:
                        ctx.violation("hash-embeds-stale-parameters", dict(d, observed=o, note="settings do not fit the format"), site)
                    continue
                if o[0] != 0 or not isinstance(o[1], bytes):
                    ctx.violation("hash-raises", dict(d, observed=o), site)
                    continue
                h = o[1].decode("utf-8")
                d["hash"] = h
                if rec is None:
                    ctx.violation("hash-malformed", d, site)
                    continue
                made.append((pw, h, sl, dl))      # later verify operations show what a wrong string does
                data = rec[5]
                if rec[:5] != (16384, 16, 1, sl, dl):
                    ctx.violation("hash-embeds-stale-parameters", dict(d, embedded=list(rec[:5]), expected=[16384, 16, 1, sl, dl]), site)
                if len(data) != sl + dl:
                    ctx.violation("hash-salt-or-length-wrong", dict(d, data_len=len(data), urandom_asked=[u[0] for u in w.urandom]), site)
                km = hashlib.sha256(pw).digest()
                if w.kdf_calls != [[salt, dl, 16384, 16, 1]]:
                    ctx.violation("hash-kdf-parameters-wrong", dict(d, kdf_calls=w.kdf_calls), site)
                elif len(data) == sl + dl:
                    want = cheap_derive(salt, dl, 16384, 16, 1, km) if cheap else ctx.kdf(salt, dl, 16384, 16, 1, km)[1]
                    if data[sl:] != want:
                        ctx.violation("hash-digest-wrong", d, site)
                if h in seen_h:
                    ctx.violation("same-hash-twice", dict(d, first_made_at_operation=seen_h[h]), site)
                if sl >= 8 and salt in seen_salt:
                    ctx.violation("salt-reused", dict(d, salt=salt, first_used_at_operation=seen_salt[salt]), site)
                seen_h.setdefault(h, i)
                seen_salt.setdefault(salt, i)
                if [sl, dl] != [16, 24] or len(cfg_hist) > 1:
                    run.nt(("history", label, i))
            else:
                if not made:
                    continue
                pw, h, hsl, hdl = made[-1 - min(op[1], len(made) - 1)]
                q = pw if op[2] == "own" else rng.choice(near_misses(pw, rng))
                if op[2] == "other" and hdl < 16:
                    continue
                o = lib.guarded(Auth.verify_password, q, h, wrap=as_flag)
                run.count("history_verify_" + op[2])
                run.evaluations += 1
                d = dict(ctxd, password=q, hash=h, hashed_under=[hsl, hdl], observed=o)
                vsite = "Auth.verify_password of a hash made earlier in the process"
                if o[0] == 1:
                    ctx.violation("honest-hash-raises", d, vsite)
                elif op[2] == "own" and o[1] != 1:
                    ctx.violation("own-password-rejected", d, vsite)
                elif op[2] == "other" and o[1] != 0:
                    ctx.violation("other-password-accepted", d, vsite)
    return results, mops, made


def history_model(ctx, results, mops, cheap, unit_cases):
    """unit auth_history: the same history through the model (oracle tables answered by the kdf in use)"""
    M = ctx.run.model
    sha, kdf = {}, {}
    for sl, dl, pw, salt, o in results:
        if isinstance(pw, bytes):
            km = ctx.sha(pw)
            sha[pw] = km
            if 0 <= sl <= 255 and 1 <= dl <= 255:
                key = (salt, dl, 16384, 16, 1, km)
                kdf[key] = lib.ok(cheap_derive(*key)) if cheap else ctx.kdf(*key)
    arg = [16, 24, mops, [[k, v] for k, v in sha.items()], [[list(k), v] for k, v in kdf.items()]]
    mod = M.call("auth_history", arg)
    ctx.run.compare("auth_history", [{"history": unit_cases, "hash_call": j, "settings": [r[0], r[1]],
                                      "password": r[2] if isinstance(r[2], bytes) else repr(r[2]), "salt": r[3]}
                                     for j, r in enumerate(results)], [r[4] for r in results], mod)


FRESH_SRC = r"""
import sys, json
sys.path.insert(0, sys.argv[1])
from mpgameserver.auth import Auth
out = []
made = []
for op in json.load(sys.stdin):
    try:
        if op[0] == "set":
            if op[1] is not None: Auth.SALT_LENGTH = op[1]
            if op[2] is not None: Auth.DIGEST_LENGTH = op[2]
            out.append(["set", Auth.SALT_LENGTH, Auth.DIGEST_LENGTH])
        elif op[0] == "hash":
            h = Auth.hash_password(bytes.fromhex(op[1]))
            made.append(h)
            out.append(["hash", h, Auth.SALT_LENGTH, Auth.DIGEST_LENGTH])
        else:
            r = Auth.verify_password(bytes.fromhex(op[2]), made[op[1]])
            out.append(["verify", r if isinstance(r, bool) else repr(r)])
    except Exception as e:
        out.append(["exc", type(e).__name__, str(e)[:80]])
print(json.dumps(out))
"""


def fresh_histories(run):
    rng = run.rng
    P, Q = b"correct horse", b"correct horsf"
    hx = lambda b: b.hex()
    hs = [
        # the first hash of the process is made under non-default settings, then the defaults come back
        [["set", None, 32], ["hash", hx(P)], ["verify", 0, hx(P)], ["set", 16, 24], ["hash", hx(P)], ["verify", 1, hx(P)],
         ["verify", 1, hx(Q)], ["verify", 0, hx(P)], ["set", 24, None], ["hash", hx(b"")], ["verify", 2, hx(b"")], ["verify", 2, hx(b"\x00")]],
        # defaults first, then each attribute is raised, then both go back
        [["hash", hx(P)], ["hash", hx(P)], ["set", None, 32], ["hash", hx(P)], ["verify", 2, hx(P)], ["verify", 2, hx(Q)],
         ["set", 24, None], ["hash", hx(b"pw\x00with nul")], ["verify", 3, hx(b"pw\x00with nul")], ["set", 16, 24], ["hash", hx(b"")],
         ["verify", 4, hx(b"")], ["verify", 0, hx(P)], ["verify", 1, hx(Q)]],
    ]
    for _ in range(8 if run.thorough() else 1):
        ops, nh = [], 0
        for _ in range(rng.randrange(6, 12)):
            c = rng.random()
            if c < 0.35:
                ops.append(["set", rng.choice(SL_CHOICES + [None] * 5), rng.choice(DL_CHOICES + [None] * 5)])
            elif c < 0.7 or nh == 0:
                ops.append(["hash", hx(rng.choice(PASSWORDS[:6]))])
                nh += 1
            else:
                k = rng.randrange(nh)
                ops.append(["verify", k, "own" if rng.random() < 0.6 else "other"])
        # passwords of the verify operations
        hp = [bytes.fromhex(o[1]) for o in ops if o[0] == "hash"]
        for o in ops:
            if o[0] == "verify":
                o[2] = hx(hp[o[1]] if o[2] == "own" else hp[o[1]] + b"\x00")
        hs.append(ops)
    return hs


def run_fresh(ctx, histories):
    """each history in its own interpreter (module and class state as at import); judged here with the independent spec"""
    import subprocess, json
    run = ctx.run
    procs = []
    for ops in histories:
        p = subprocess.Popen([lib.PY, "-c", FRESH_SRC, lib.REPO], stdin=subprocess.PIPE, stdout=subprocess.PIPE,
                             stderr=subprocess.PIPE, text=True)
        p.stdin.write(json.dumps(ops))
        p.stdin.close()
        procs.append(p)
    cases = []
    for hi, (ops, p) in enumerate(zip(histories, procs)):
        out = p.stdout.read()
        err = p.stderr.read()
        p.wait()
        site = "Auth.hash_password / verify_password in a fresh process"
        try:
            res = json.loads(out)
        except ValueError:
            ctx.violation("fresh-process-crashed", {"history": ops, "stderr": err[-300:]}, site)
            continue
        cfg, made, seen = [16, 24], [], set()
        for i, (op, r) in enumerate(zip(ops, res)):
            run.evaluations += 1
            d = {"fresh_process_history": ops[:i + 1], "operation": i, "configured": list(cfg), "observed": r}
            if op[0] == "set":
                cfg = [cfg[0] if op[1] is None else op[1], cfg[1] if op[2] is None else op[2]]
                continue
            if r[0] == "exc":
                ctx.violation("honest-hash-raises" if op[0] == "verify" else "hash-raises", d, site)
                if op[0] == "hash":
                    made.append(None)
                continue
            if op[0] == "hash":
                pw, h = bytes.fromhex(op[1]), r[1]
                made.append((pw, h))
                rec = read_hash(h)
                if rec is None or rec[:5] != (16384, 16, 1, cfg[0], cfg[1]) or len(rec[5]) != cfg[0] + cfg[1]:
                    ctx.violation("hash-embeds-stale-parameters",
                                  dict(d, password=pw, hash=h, embedded=None if rec is None else list(rec[:5]),
                                       expected=[16384, 16, 1] + cfg), site)
                elif spec(pw, h) is not True:
                    ctx.violation("hash-digest-wrong", dict(d, password=pw, hash=h), site)
                if h in seen:
                    ctx.violation("same-hash-twice", dict(d, hash=h), site)
                seen.add(h)
                cases.append({"pw": pw, "h": h, "tag": "own:fresh-process", "expect": True})
                run.nt(("fresh", hi, i))
            else:
                if made[op[1]] is None:
                    continue
                pw, h = made[op[1]]
                q = bytes.fromhex(op[2])
                want = q == pw
                if r[1] is not want:
                    ctx.violation("own-password-rejected" if want else "other-password-accepted",
                                  dict(d, password=q, hash=h), site)
    run.count("fresh_process_histories", len(histories))
    return cases


def process_histories(ctx):
    run, rng = ctx.run, ctx.run.rng
    # 1. a long life of one process, scrypt replaced by a cheap consistent function
    n = 20000 if run.thorough() else 1200
    ops = [["hash", b"first"], ["hash", b"first"], ["set", None, 32], ["hash", b"first"], ["verify", 0, "own"], ["verify", 0, "other"],
           ["set", 24, None], ["hash", b"pw\x00"], ["verify", 0, "own"], ["set", 16, 24], ["hash", b""], ["verify", 0, "own"],
           ["verify", 3, "own"]] + gen_history(rng, n)
    for lo in range(0, len(ops), 3000):      # model side in slices (the oracle tables are searched linearly)
        part = ops[lo:lo + 3000]
        res, mops, made = run_history(ctx, part, True, "long/cheap-kdf[%d:]" % lo)
        history_model(ctx, res, mops, True, "long/cheap-kdf[%d:]" % lo)
    # 2. the same kind of life with the real scrypt (each derivation ~0.08 s)
    steps = [["set", None, 32], ["set", 24, None], ["set", 16, 24], ["set", rng.choice(SL_CHOICES), rng.choice(DL_CHOICES)],
             ["set", 8, 16], ["set", 16, 24]]
    ops = [["hash", b"probe"], ["verify", 0, "own"]]
    for s in (steps if run.thorough() else steps[:2] + [rng.choice(steps[2:5]), steps[5]]):
        ops += [s, ["hash", rng.choice(PASSWORDS[:5])], ["verify", 0, "own"], ["verify", 0, "other"], ["verify", 1, "own"]]
    res, mops, made = run_history(ctx, ops, False, "short/real-scrypt")
    history_model(ctx, res, mops, False, "short/real-scrypt")
    # the hashes made under changed settings through the full verify pipeline (correspondence of verify_password on
    # embedded non-default lengths, spied scrypt call, independent spec), now that the settings are back at the defaults
    cases = []
    for pw, h, sl, dl in made:
        cases.append({"pw": pw, "h": h, "tag": "own:history", "expect": True})
    if made:
        pw, h, sl, dl = made[-2] if len(made) > 1 else made[-1]
        cases.append({"pw": near_misses(pw, rng)[0], "h": h, "tag": "other:history", "expect": False})
    # 3. fresh interpreter processes
    cases += run_fresh(ctx, fresh_histories(run))
    verify_batch(ctx, cases)


# ------------------------------------------------------------------ passwords an implementation might IDENTIFY

IDENT_CORE = [(b"caf\xc3\xa9-2024", b"cafe\xcc\x81-2024", "unicode-NFD"), (b"\xef\xac\x81shbowl", b"fishbowl", "unicode-NFKC"),
              (b"\xe2\x84\xabngstrom", b"\xc3\x85ngstrom", "unicode-NFC"), (b"Stra\xc3\x9fe 7", b"strasse 7", "case-fold"),
              (b"hunter2", b"Hunter2", "case-first-letter"), (b" pass word ", b"pass word", "space-strip"),
              (b"hunter2", b"\xef\xbb\xbfhunter2", "bom-lead"), (b"hunter2", b"hunt\xe2\x80\x8ber2", "zero-width-U+200B"),
              (b"hunter2", b"\xc1\xa8unter2", "utf8-overlong-2"), (b"Tr0ub4dor&3 " * 6 + b"tail-A", b"Tr0ub4dor&3 " * 6, "truncate-72"),
              (b"p\xc3\xa4ss\x00w\xc3\xb6rd", b"p\xc3\xa4ss", "nul-truncated"), (b"caf\xc3\xa9", b"caf\xe9", "encoding-latin-1")]


def identification_pairs(ctx):
    """'False for EVERY q different from p': q ranges over byte strings that a plausible canonicalisation would identify with p
    (harness/identlib.py: Unicode normal forms, case mappings, blanks, BOM, zero-width characters, over-long / other encodings,
    truncation at 8..256 bytes and at NUL, the password's own digest, ...), in both directions.
      A. every pair, hash strings made by the REAL hash_password with the cheap kdf substitute of the process histories:
         verify(p, hash(p)) is True, verify(q, hash(p)) is False, the digest in the string is the kdf of sha256(p) - of the bytes
         as they are; the hash calls also go through the model (unit auth_history)
      B. pairs through the full verify pipeline (units auth_verify / auth_prepare: the key material the implementation hands to
         scrypt is sha256 of the offered bytes) on same-format strings with cheap scrypt parameters; the text as str is refused
      C. a few pairs (one per family, a rotating selection) on real hashes with the real scrypt"""
    from harness import identlib
    run, rng = ctx.run, ctx.run.rng
    pairs = identlib.password_pairs(rng, run.thorough())
    run.count("identification_pairs", len(pairs))
    for tag, p, q in pairs:
        run.count("identification_" + identlib.family(tag))
    by_p = {}
    for tag, p, q in pairs:
        by_p.setdefault(p, []).append((tag, q, "offered = T(hashed)"))
        by_p.setdefault(q, []).append((tag, p, "hashed = T(offered)"))
    site = "Auth.verify_password of a different byte string that a canonicalisation would identify with the password"
    # ---- A
    results, mops = [], []
    with AuthWorld(True) as w:
        Auth = w.A.Auth
        Auth.SALT_LENGTH, Auth.DIGEST_LENGTH = 16, 24
        for p, qs in by_p.items():
            del w.urandom[:], w.kdf_calls[:]
            o = lib.guarded(Auth.hash_password, p, wrap=lambda s: s.encode("utf-8") if isinstance(s, str) else ["not-a-str"])
            rec = read_hash(o[1].decode("utf-8")) if o[0] == 0 and isinstance(o[1], bytes) else None
            salt = rec[5][:16] if rec is not None else (w.urandom[0][1] if w.urandom else b"")
            mops.append([1, v_py(p), salt])
            results.append((16, 24, p, salt, o))
            run.evaluations += 1
            d = {"password": p, "cheap_kdf": True, "observed": o}
            if rec is None:
                ctx.violation("hash-raises" if o[0] == 1 else "hash-malformed", d, "Auth.hash_password")
                continue
            h = d["hash"] = o[1].decode("utf-8")
            del d["observed"]
            if rec[:5] != (16384, 16, 1, 16, 24) or len(rec[5]) != 40:
                ctx.violation("hash-embeds-stale-parameters", dict(d, embedded=list(rec[:5])), "Auth.hash_password")
            elif rec[5][16:] != cheap_derive(salt, 24, 16384, 16, 1, hashlib.sha256(p).digest()):
                ctx.violation("hash-digest-wrong", dict(d, note="the digest is not the kdf of sha256(password bytes as given)"),
                              "Auth.hash_password")
            o = lib.guarded(Auth.verify_password, p, h, wrap=as_flag)
            run.evaluations += 1
            if o != [0, 1]:
                ctx.violation("honest-hash-raises" if o[0] == 1 else "own-password-rejected", dict(d, observed=o), "Auth.verify_password")
            for tag, q, direction in qs:
                o = lib.guarded(Auth.verify_password, q, h, wrap=as_flag)
                run.evaluations += 1
                run.nt(("ident", p, q))
                if o != [0, 0]:
                    ctx.violation("honest-hash-raises" if o[0] == 1 else "other-password-accepted",
                                  {"password": q, "hashed_password": p, "relation": tag, "direction": direction, "hash": h,
                                   "cheap_kdf": True, "observed": o}, site)
    for lo in range(0, len(results), 1500):
        history_model(ctx, results[lo:lo + 1500], mops[lo:lo + 1500], True, "identification-pairs/cheap-kdf[%d:]" % lo)
    # ---- B
    core = [(t, p, q) for p, q, t in IDENT_CORE]
    fam = {}
    for x in pairs:
        fam.setdefault(identlib.family(x[0]), []).append(x)
    chosen = core + [rng.choice(v) for v in fam.values()]
    chosen += pairs if run.thorough() else rng.sample(pairs, min(len(pairs), 700))
    cases = []
    for tag, p, q in chosen:
        for a, b in ((p, q), (q, p)) if run.thorough() or rng.random() < 0.3 else (((p, q),) if rng.random() < 0.5 else ((q, p),)):
            salt = bytes(rng.randrange(256) for _ in range(rng.choice([16, 16, 8])))
            h = make_hash(a, salt, N=rng.choice([2, 4]), r=1, p=1, ln=rng.choice([24, 24, 16, 8]))
            cases.append({"pw": a, "h": h, "tag": "ident-own:" + tag, "expect": True})
            cases.append({"pw": b, "h": h, "tag": "ident-other:" + tag, "expect": False, "hashed": a, "rel": tag})
    # the same text offered as str: refused (TypeError), never compared
    for t in identlib.TEXTS[:8]:
        h = make_hash(t.encode("utf-8"), b"s" * 16, ln=24)
        cases.append({"pw": t, "h": h, "tag": "types"})
        cases.append({"pw": bytearray(t.encode("utf-8")), "h": h, "tag": "types"})
    verify_batch(ctx, cases)
    run.count("identification_pipeline_cases", len(cases))
    # ---- C
    from mpgameserver.auth import Auth
    k = len(core) if run.thorough() else 4
    real = rng.sample(core, k) + [rng.choice(fam[f]) for f in rng.sample(sorted(fam), 12 if run.thorough() else 3)]
    cases = []
    for tag, p, q in real:
        if len(p) + len(q) > 2000:
            continue
        a, b = (p, q) if rng.random() < 0.5 else (q, p)
        h = lib.guarded(Auth.hash_password, a)
        if h[0] != 0 or not isinstance(h[1], str):
            ctx.violation("hash-raises", {"password": a, "observed": repr(h)}, "Auth.hash_password")
            continue
        cases.append({"pw": a, "h": h[1], "tag": "ident-own:real:" + tag, "expect": True})
        cases.append({"pw": b, "h": h[1], "tag": "ident-other:real:" + tag, "expect": False, "hashed": a, "rel": tag})
    verify_batch(ctx, cases)
    run.count("identification_real_scrypt_cases", len(cases))


# ------------------------------------------------------------------ the run

def run(run):
    from mpgameserver.auth import Auth
    ctx = Ctx(run)
    rng = run.rng
    M = run.model

    # ---- constants and struct.unpack glue
    h0 = Auth.hash_password(b"probe")
    f0 = h0.split(":")
    pN, pr, pp, psl, pln = struct.unpack(">HBBBB", base64.b64decode(f0[2]))
    run.compare("auth_consts", [[]], [[pN, pr, pp, Auth.SALT_LENGTH, Auth.DIGEST_LENGTH, base64.b64decode(f0[2])]],
                [M.call("auth_consts", [])])
    ucases = [bytes(rng.randrange(256) for _ in range(n)) for n in list(range(0, 10)) * 6] + \
             [bytes([a, b, 1, 1, 16, 24]) for a in (0, 1, 64, 128, 255) for b in (0, 1, 255)]

    def unpack(b):
        try:
            return list(struct.unpack(">HBBBB", b))
        except struct.error as ex:
            raise ValueError(str(ex))
    run.compare("auth_unpack", ucases, [lib.guarded(unpack, b) for b in ucases], M.call_many("auth_unpack", [[b] for b in ucases]))

    # ---- hash_password: correspondence on chosen salts (os.urandom patched for the call)
    nreal = len(PASSWORDS) if run.thorough() else 5
    pws = PASSWORDS[:nreal]
    if run.thorough():      # more real hashes: random passwords of many lengths (with NULs), near-identical pairs
        for n in (1, 2, 3, 7, 8, 15, 16, 17, 31, 32, 33, 55, 56, 63, 64, 65, 100, 255, 256, 1000):
            pws.append(bytes(rng.choice([0, 0, 1, 97, 255, rng.randrange(256)]) for _ in range(n)))
    hcases = [(p, bytes(rng.randrange(256) for _ in range(16))) for p in pws]
    hcases += [(pws[1], hcases[1][1][::-1]), (pws[2], hcases[1][1])]      # same password other salt; other password same salt
    bad_pw = ["password", None, bytearray(b"pw"), 5, ["a"]]
    hcases += [(x, b"s" * 16) for x in bad_pw]
    himpl = hash_batch(ctx, hcases)
    honest = [(pw, o[1].decode()) for (pw, _), o in zip(hcases, himpl) if o[0] == 0 and isinstance(o[1], bytes)]
    if len(honest) < 3:
        # hash_password did not ask os.urandom for one salt per call (reported above as a disagreement of unit auth_hash):
        # go on with hashes made without the patched generator, so that the rest of the search still runs
        honest += [(pw, Auth.hash_password(pw)) for pw in pws[:3]]
    run.count("real_hashes", len(honest))

    # ---- O1/O2: right and near-miss passwords on real hashes
    cases = []
    for pw, h in honest:
        cases.append({"pw": pw, "h": h, "tag": "own", "expect": True})
        for q in near_misses(pw, rng)[:(3 if run.thorough() else 1)]:
            cases.append({"pw": q, "h": h, "tag": "other", "expect": False})
    # ---- corpus: the witnesses of defect D14 (repaired by 4296d71), kept so that the violation is
    # reported if it returns: missing fields (was IndexError) and length=0 / salt_length>=len(data)
    # with the real parameters (was True for every password)
    rp, rh = honest[0]
    rf = rh.split(":")
    rdata = base64.b64decode(rf[3])
    for q in (rp, b"anything", b""):
        for hs in ("scrypt:1:QAAQASgA:ZGF0YQ==", ":".join(rf[:2] + ["QAAQASgA", rf[3]]),
                   ":".join(rf[:2] + ["QAAQARAA", base64.b64encode(rdata[:16]).decode()]),
                   ":".join(rf[:2] + ["QAAQAf8A", rf[3]]), ":".join(rf[:3]), ":".join(rf[:2]), "scrypt", ""):
            cases.append({"pw": q, "h": hs, "tag": "corpus:D14", "expect": "raise"})
    # ---- O3: fresh salt: two real calls (real os.urandom) give different strings, each verifies
    h1, h2 = Auth.hash_password(b"twice"), Auth.hash_password(b"twice")
    run.evaluations += 1
    if h1 == h2:
        run.oracle_violation("same-hash-twice", {"password": b"twice", "hash": h1}, "Auth.hash_password")
    for (pw, s1), (pw2, s2) in [(a, b) for a in zip(hcases, himpl) for b in zip(hcases, himpl)]:
        if pw[0] == pw2[0] and pw[1] != pw2[1] and s1[0] == 0 and s1 == s2:
            run.oracle_violation("same-hash-for-different-salts", {"password": pw[0]}, "Auth.hash_password")
    cases.append({"pw": b"twice", "h": h1, "tag": "own", "expect": True})
    # wrong argument types
    for x in bad_pw:
        cases.append({"pw": x, "h": h1, "tag": "types"})
    for x in (h1.encode(), None, 7, bytearray(b"scrypt:1:a:b"), "scrypt:1:\udc80:x", "\ud800", "scrypt:1:é:ü"):
        cases.append({"pw": b"twice", "h": x, "tag": "types"})
    # truncation of real hashes at every position, right and another password
    real_pw, real_h = honest[2] if len(honest) > 2 else honest[0]
    for tp, th in ([(real_pw, real_h)] + (honest[3:6] if run.thorough() else [])):
        for n in range(len(th)):
            cases.append({"pw": tp, "h": th[:n], "tag": "trunc:real", "expect": "raise"})
            if run.thorough() or n % 4 == 0:
                cases.append({"pw": tp + b"x", "h": th[:n], "tag": "trunc:real", "expect": "raise"})
    # base64 damage inside the data field of a real hash: one character replaced (a change in the salt
    # part costs one real derivation; judged by the independent specification)
    rf3 = real_h.split(":")
    pos = range(len(rf3[3])) if run.thorough() else sorted(rng.sample(range(len(rf3[3])), 5))
    for j in pos:
        ch = ALPHA[(ALPHA.index(rf3[3][j]) + 1 + rng.randrange(62)) % 64] if rf3[3][j] in ALPHA else "A"
        cases.append({"pw": real_pw, "h": ":".join(rf3[:3] + [rf3[3][:j] + ch + rf3[3][j + 1:]]), "tag": "b64-replace:real"})
    verify_batch(ctx, cases)
    run.exhaustive.append("every truncation position (0..%d) of a real hash string" % (len(real_h) - 1))
    run.sample({"unit": "auth_verify", "password": "hex:" + real_pw.hex()[:40], "hash": real_h, "result": True})

    # ---- sweeps on same-format hashes with cheap parameters
    nforged = 200 if run.thorough() else 10
    total = 0
    for k in range(nforged):
        pw = rng.choice(PASSWORDS[:6] + [bytes(rng.randrange(256) for _ in range(rng.randrange(0, 40)))])
        salt = bytes(rng.randrange(256) for _ in range(rng.choice([16, 16, 0, 1, 8, 33])))
        ln = rng.choice([8, 24, 1, 2, 3, 31])
        h = make_hash(pw, salt, N=rng.choice([2, 4, 16]), r=rng.choice([1, 2]), p=1, ln=ln)
        other = rng.choice(near_misses(pw, rng))
        cases = [{"pw": pw, "h": h, "tag": "own:cheap", "expect": True},
                 {"pw": other, "h": h, "tag": "other:cheap", "expect": False}]
        for tag, s, exp in corruptions(h, rng, every=(k < 2 or run.thorough())):
            cases.append({"pw": pw, "h": s, "tag": tag, "expect": exp})
            if tag.startswith(("trunc", "field")) or rng.random() < 0.2:
                cases.append({"pw": other, "h": s, "tag": tag, "expect": exp})
        for tag, s in param_edits(pw, salt, ln if ln > 1 else 8):
            cases.append({"pw": pw, "h": s, "tag": tag})
            cases.append({"pw": other, "h": s, "tag": tag})
        verify_batch(ctx, cases)
        total += len(cases)
        if k == 0:
            run.sample({"unit": "auth_verify", "cheap_hash": h, "corruptions": len(cases)})
    run.count("cheap_hash_cases", total)
    run.exhaustive.append("per cheap hash: every truncation, every field removed/emptied/duplicated, every single-character "
                          "replacement/deletion/insertion in both base64 fields, (salt_length, length) grid")

    # ---- base64.b64encode is modelled exactly: correspondence of the encoder
    ecases = [bytes([a]) for a in range(256)] + [b""]
    if run.thorough():
        ecases += [bytes([a, b]) for a in range(256) for b in range(256)]
        run.exhaustive.append("b64encode: every input of length 0, 1 and 2")
    else:
        ecases += [bytes([a, b]) for a in range(0, 256, 5) for b in (0, 1, 15, 16, 63, 64, 127, 128, 254, 255)]
        run.exhaustive.append("b64encode: every input of length 0 and 1")
    for n in list(range(3, 80)) * (10 if run.thorough() else 2) + [255, 256, 257, 1000, 4099]:
        ecases.append(bytes(rng.randrange(256) for _ in range(n)))
    ecases += [bytes([a, b, c]) for a in (0, 3, 4, 252, 255) for b in (0, 15, 16, 240, 255) for c in (0, 63, 64, 192, 255)]
    for _ in range(20000 if run.thorough() else 1500):
        ecases.append(bytes(rng.randrange(256) for _ in range(3)))
    run.compare("auth_b64encode", ecases, [base64.b64encode(x) for x in ecases], M.call_many("auth_b64encode", [[x] for x in ecases]))
    # the reference decoder (consistency witness of the decoder hypotheses) against the validating
    # library decoder on encodings, their prefixes and single-character damage
    dcases = []
    for x in ecases[:400] + ecases[-300:]:
        e = base64.b64encode(x)
        dcases.append(e)
        if e:
            j = rng.randrange(len(e))
            dcases += [e[:j], e[:j] + bytes([rng.choice(b":!A/+z9 ")]) + e[j + 1:], e[:j] + e[j + 1:]]
    dcases = list(dict.fromkeys(dcases))

    def strict(x):
        return base64.b64decode(x, validate=True)
    run.compare("auth_b64strict", dcases, [lib.guarded(strict, x) for x in dcases], M.call_many("auth_b64strict", [[x] for x in dcases]))

    # ---- hypotheses about base64 sampled on the real library
    for n in list(range(0, 70)) + [100, 255, 1000]:
        x = bytes(rng.randrange(256) for _ in range(n))
        e = base64.b64encode(x)
        run.evaluations += 1
        if b":" in e or base64.b64decode(e) != x:
            run.oracle_violation("base64-hypothesis", {"input": x}, "base64")
        for m in range(len(e)):
            try:
                d = base64.b64decode(e[:m])
                if len(d) >= len(x):
                    run.oracle_violation("base64-prefix-hypothesis", {"input": x, "cut": m}, "base64")
            except ValueError:
                pass
    process_histories(ctx)
    identification_pairs(ctx)
    run.count("scrypt_derivations_expensive", ctx.expensive)
    run.count("scrypt_derivations_total", len(ctx.kdf_cache))
    run.count("skipped_expensive_parameters", ctx.skipped)
    run.rules.append(RULE)


def replay(run, data):
    import json
    f = data.get("failure") or (data.get("correspondence") or [{}])[0]
    case = f.get("case") or {}
    if "hash" not in case:
        print(json.dumps(data, indent=1)[:4000])
        return 0
    pw = bytes.fromhex(case["password"][4:]) if isinstance(case["password"], str) and case["password"].startswith("hex:") else case["password"]
    ctx = Ctx(run)
    c = {"pw": pw, "h": case["hash"], "tag": case.get("tag", "replay"), "expect": None}
    out = verify_batch(ctx, [c])
    print("password       :", repr(pw)[:100])
    print("hash           :", case["hash"])
    print("implementation :", out.get(0))
    print("matches (independent re-derivation):", matches(pw, case["hash"]))
    bad = bool(run.oracle_fail or run.corr_fail)
    print("REPLAY %s" % ("still failing" if bad else "no longer failing"))
    return 1 if bad else 0
