"""C05 — guaranteed sends are eventually delivered, for every size, from both APIs.

Correspondence: two REAL endpoints over the simulated network (harness/netsim.py); guaranteed sends go
through the public APIs UdpClient.send_guaranteed / ServerClientConnection.send_guaranteed; every event
is replayed on the Conn.v model (outputs + full private-state snapshots after every event).
Sessions: (a) boundary sweep — for each MTU, every payload length within +-3 (thorough: +-12) of the
single-datagram capacity, of k*MAX_FRAGMENT_SIZE (k <= 4) and of 0, sent alone from each side over a network
that loses the first transmissions; (b) random mixes of sizes and retry modes under loss / duplication /
reordering / latency in both directions, followed by a healed phase.

Oracle (implementation only), evaluated after the healed phase while the connection is open:
  * every guaranteed payload accepted by send was handed to the peer application (at least once);
  * nothing is left in the sender's outgoing queue and no guaranteed message is still pending
    (no size is silently stuck);
  * no send_guaranteed call raised."""
from harness import lib, netsim, connsim as S

RULE = ("boundary sweep: every length around 0 / MAX_PAYLOAD_SIZE / k*MAX_FRAGMENT_SIZE per MTU, first transmissions lost; "
        "random sessions with loss/dup/reorder/latency then healed; non-trivial = guaranteed message whose first datagram "
        "(or one of its fragments) was lost and that was delivered after the network healed")
ASSUMPTIONS = ["fairness: after the faulty phase the network delivers every datagram and both sides keep ticking (healed phase)",
               "clock values are multiples of 1/1024 s"]
TRUSTED = ["harness/connsim.py + netsim.py (virtual clock, datagram translation)"]

T = S.TICKS


def check_delivery(run, net, label, extra):
    lost_then_delivered = 0
    for who in ("client", "server"):
        peer = net.other(who)
        conn = net.ep(who).impl.conn
        got = {}
        for (t, p) in net.delivered[peer]:
            got[p] = got.get(p, 0) + 1
        for mid, rec in net.sent[who].items():
            if rec["retry"] != -1:
                continue
            case = {"session": label, "who": who, "len": rec["len"], "sent_at": rec["time"], "mtu": net.mtu,
                    "max_payload": net.env[0], "fragmented": rec["len"] > net.env[0]}
            case.update(extra)
            if not rec["accepted"]:
                if rec["len"] <= net.env[1] * net.env[2] and conn.status.value == 2:
                    run.oracle_violation("guaranteed-send-refused-or-raised", case, "send_guaranteed")
                continue
            if got.get(rec["payload"], 0) == 0:
                case["still_queued"] = len(conn.outgoing_messages)
                case["pending_acks"] = len(conn.pending_acks)
                run.oracle_violation("guaranteed-message-never-delivered", case, "guaranteed delivery")
            else:
                lost_then_delivered += 1
        if conn.outgoing_messages:
            run.oracle_violation("message-stuck-in-outgoing-queue",
                                 {"session": label, "who": who, "mtu": net.mtu,
                                  "stuck_lengths": [len(m.payload) for m in conn.outgoing_messages][:8]}, "_build_packet_impl")
    return lost_then_delivered


def heal(net, extra_steps=0):
    net.healed = True
    n = int((4 * T + 6 * net.cfg.get("delay", 0)) // net.cfg["tick"]) + 40 + extra_steps
    for i in range(n):
        net.step()


def boundary_session(run, rng, mtu, lengths, label):
    """each length sent alone, from both sides, first transmissions lost"""
    cfg = {"loss": 1.0, "dup": 0, "reorder": 0, "tick": 300, "delay": 0}
    net = netsim.Net(run, rng, cfg, mtu=mtu)
    try:
        for L in lengths:
            for who in ("client", "server"):
                net.send(who, L, -1, with_cb=True, api=True)
            for i in range(3):
                net.step()
        # everything sent so far was lost; now lose 30%
        net.cfg["loss"] = 0.3
        for i in range(40):
            net.step()
        heal(net, extra_steps=20 * len(lengths))
        diffs = net.check_models()
        n = check_delivery(run, net, label, {"phase": "boundary"})
    finally:
        net.close()
    return net, diffs, n


def overtaken_session(run, rng, label, newer, mtu):
    """one guaranteed message whose every datagram is lost while more than `newer` newer messages of the
    same sender get through (the receiver's 256-message window moves past it), then the loss stops"""
    cfg = {"loss": 0, "dup": 0, "reorder": 0, "tick": 300, "delay": 0}
    net = netsim.Net(run, rng, cfg, mtu=mtu)
    try:
        who = rng.choice(["client", "server"])
        mid = net.send(who, rng.choice([60, 300]), -1, with_cb=True, api=True)
        marker = net.sent[who][mid]["payload"][:9]
        net.drop_filter = lambda w, rec: w == who and marker in bytes(rec["payload"])
        sent_newer = 0
        while sent_newer < newer:
            for _ in range(3):
                net.send(who, 3, 0, with_cb=False)
                sent_newer += 1
            net.step()
        net.drop_filter = None
        heal(net, extra_steps=40)
        diffs = net.check_models()
        n = check_delivery(run, net, label, {"phase": "overtaken", "newer_messages": sent_newer})
    finally:
        net.close()
    return net, diffs, n


def random_session(run, rng, label, steps):
    cfg = {"loss": rng.choice([0.1, 0.3, 0.5]), "dup": rng.choice([0, 0.2]), "reorder": rng.choice([0, 0.3]),
           "tick": rng.choice([300, 600, 900]), "max_delay": rng.choice([T // 8, T // 2]),
           "delay": rng.choice([0, 300, 1200, 4500])}
    mtu = rng.choice([1500, 512, 576, 1095, 1096, 1280])
    net = netsim.Net(run, rng, cfg, mtu=mtu)
    try:
        mp, mf = net.env[0], net.env[1]
        for i in range(steps):
            if rng.random() < 0.4:
                who = rng.choice(["client", "server"])
                L = rng.choice([0, 1, 7, 100, mp - 1, mp, mp + 1, mp + 2, mf, mf + 1, 2 * mf, 2 * mf + 1, 3000])
                retry = rng.choice([-1, -1, -1, 0, 1])
                net.send(who, L, retry, with_cb=rng.random() < 0.7, api=rng.random() < 0.5)
            net.step()
        heal(net, extra_steps=60)
        diffs = net.check_models()
        n = check_delivery(run, net, label, {"phase": "random", "cfg": cfg})
    finally:
        net.close()
    return net, diffs, n, cfg


def run(run):
    rng = run.rng
    th = run.thorough()
    cases, impl, mod = [], [], []
    # (a) boundary sweep
    mtus = list(range(512, 1501)) if False else ([512, 513, 576, 700, 1095, 1096, 1097, 1280, 1500] if th else [512, 1096, 1500])
    w = 12 if th else 3
    for mtu in mtus:
        env = S.env_for_mtu(mtu)
        S.restore_mtu()
        mp, mf = env[0], env[1]
        centers = [mp] + [k * mf for k in (1, 2, 3, 4)] + [mp + mf]
        lengths = sorted(set([0, 1, 2] + [c + d for c in centers for d in range(-w, w + 1) if c + d >= 0]))
        # keep each session short: chunks of 16 lengths
        for k in range(0, len(lengths), 16):
            chunk = lengths[k:k + 16]
            label = "b-mtu%d-%d" % (mtu, k)
            net, diffs, n = boundary_session(run, rng, mtu, chunk, label)
            cases.append({"session": label, "mtu": mtu, "lengths": chunk, "first_difference": diffs[:1]})
            impl.append("agree"); mod.append("agree" if not diffs else "differ")
            run.count("boundary_sessions")
            run.count("boundary_lengths", len(chunk))
            run.evaluations += 2 * len(chunk)
            for L in chunk:
                run.nt(("b", mtu, L))
    if th:
        run.exhaustive.append("every payload length within +-12 of MAX_PAYLOAD_SIZE, k*MAX_FRAGMENT_SIZE (k<=4) and MAX_PAYLOAD_SIZE+MAX_FRAGMENT_SIZE for 9 MTUs")
    # (a2) a guaranteed message overtaken by more than a window of newer messages while all its copies are lost
    for i, newer in enumerate(([40, 250, 270, 300, 600] if th else [270, 330])):
        label = "ov%d" % i
        net, diffs, n = overtaken_session(run, rng, label, newer, rng.choice([1500, 512]))
        cases.append({"session": label, "newer": newer, "mtu": net.mtu, "first_difference": diffs[:1]})
        impl.append("agree"); mod.append("agree" if not diffs else "differ")
        run.count("overtaken_sessions")
        run.evaluations += newer
        run.nt(("ov", newer))
    # (b) random sessions
    for i in range(120 if th else 14):
        label = "r%d" % i
        net, diffs, n, cfg = random_session(run, rng, label, 100 if th else 60)
        cases.append({"session": label, "cfg": cfg, "mtu": net.mtu, "first_difference": diffs[:1]})
        impl.append("agree"); mod.append("agree" if not diffs else "differ")
        run.count("random_sessions")
        run.count("guaranteed_delivered", n)
        run.evaluations += sum(1 for w_ in net.sent for r in net.sent[w_].values())
        if n:
            run.nt((label, n))
        if i < 2:
            run.sample({"session": label, "cfg": cfg, "mtu": net.mtu,
                        "guaranteed": [[r["len"], r["retry"]] for r in list(net.sent["client"].values())[:6]]})
    run.compare("conn_run", cases, impl, mod)
    run.rules.append(RULE)
