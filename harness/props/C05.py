"""C05 — guaranteed sends are eventually delivered, for every size, from both APIs.

Correspondence: two REAL endpoints over the simulated network (harness/netsim.py); guaranteed sends go
through the public APIs UdpClient.send_guaranteed / ServerClientConnection.send_guaranteed; every event
is replayed on the Conn.v model (outputs + full private-state snapshots after every event).
Sessions: (a) boundary sweep — for each MTU, every payload length within +-3 (thorough: +-12) of the
single-datagram capacity, of k*MAX_FRAGMENT_SIZE (k <= 4) and of 0, sent alone from each side over a network
that loses the first transmissions; (b) random mixes of sizes and retry modes under loss / duplication /
reordering / latency in both directions, followed by a healed phase.

(c) the liveness composition (Properties/C05.v, theorems 4): joint TIMED schedules of both real endpoints
(harness/livesim.py over idlesim.Pair) — one unfragmented send_guaranteed from either side over a network that
loses / delays / duplicates / reorders / injects and heals (in the sender's direction) at a time th; the whole
private state of both endpoints after every event is compared with Model/LiveNet.v (unit live_pair_run), and
the theorem's hypotheses (hvalid / hnow) are recomputed in Python and compared with the model's verdict.
Oracle for (c), implementation only: whenever the schedule is inside the hypotheses and runs past
max(th, t_send) + max(keep-alive, send interval) + tau + d, the receiver's incoming_messages is exactly
[(1, payload)]; at every event of an admissible schedule it is [] or that; the sender's RetrySender is done
only after the delivery.

(d) guaranteed sends issued from INSIDE callbacks (callback_worlds): the client's connect callback (the message shares its
datagram with the CHALLENGE_RESP), the handler's connect / handle_message / update / disconnect events on the server; real
UdpClients around the real server loop behind every front door (harness/srvx.py), loss and duplication in both directions, then
healed; delivery is judged at EventHandler.handle_message and UdpClient.getMessages (not at incoming_messages); replayed on
Server.v (unit srv_run).

(e) LONG-LIVED connections (wrap_session, random sessions "rw*"): the 16-bit datagram and message counters of both sides start
0..50 below the ring maximum 65535 (after a lead-in of one loss-free round trip, so that the peers' headers carry real ack numbers) (model side: unit conn_run_from) while both sides exchange a datagram per frame; each side sends
a guaranteed message whose first datagram has the wire number 65535-k, for every k = 0..33, and every datagram carrying it is lost
until the sender's own counter has wrapped to a number 1..8 (so the first acknowledgement that could mention the lost datagram
arrives with an ack number that is already past the wrap); then the network heals.  Lengths unfragmented and fragmented, latency
0 / 1 / 4 frames, both roles at once with different k.

Oracle (implementation only), evaluated after the healed phase while the connection is open:
  * every guaranteed payload accepted by send was handed to the peer application (at least once);
  * nothing is left in the sender's outgoing queue and no guaranteed message is still pending
    (no size is silently stuck);
  * no send_guaranteed call raised."""
from harness import lib, netsim, livesim, connsim as S

RULE = ("boundary sweep: every length around 0 / MAX_PAYLOAD_SIZE / k*MAX_FRAGMENT_SIZE per MTU, first transmissions lost; "
        "random sessions with loss/dup/reorder/latency then healed; non-trivial = guaranteed message whose first datagram "
        "(or one of its fragments) was lost and that was delivered after the network healed")
ASSUMPTIONS = ["fairness: after the faulty phase the network delivers every datagram and both sides keep ticking (healed phase)",
               "clock values are multiples of 1/1024 s"]
TRUSTED = ["harness/connsim.py + netsim.py (virtual clock, datagram translation)",
           "harness/srvsim.py + srvx.py (stepped real server loop behind every front door; ScriptedSocket stands for the OS socket under _UdpServer.run)",
           "harness/idlesim.py + livesim.py (joint timed schedules; the server sweep applied to one connection)"]

T = S.TICKS


def check_delivery(run, net, label, extra):
    lost_then_delivered = 0
    for who in ("client", "server"):
        peer = net.other(who)
        conn = net.ep(who).impl.conn
        got = {}
        for (t, p) in net.delivered[peer]:
            got[p] = got.get(p, 0) + 1
        for mid, rec in net.sent[who].items():
            if rec["retry"] != -1:
                continue
            case = {"session": label, "who": who, "len": rec["len"], "sent_at": rec["time"], "mtu": net.mtu,
                    "max_payload": net.env[0], "fragmented": rec["len"] > net.env[0]}
            case.update(extra)
            if not rec["accepted"]:
                if rec["len"] <= net.env[1] * net.env[2] and conn.status.value == 2:
                    run.oracle_violation("guaranteed-send-refused-or-raised", case, "send_guaranteed")
                continue
            if got.get(rec["payload"], 0) == 0:
                case["still_queued"] = len(conn.outgoing_messages)
                case["pending_acks"] = len(conn.pending_acks)
                run.oracle_violation("guaranteed-message-never-delivered", case, "guaranteed delivery")
            else:
                lost_then_delivered += 1
        if conn.outgoing_messages:
            run.oracle_violation("message-stuck-in-outgoing-queue",
                                 {"session": label, "who": who, "mtu": net.mtu,
                                  "stuck_lengths": [len(m.payload) for m in conn.outgoing_messages][:8]}, "_build_packet_impl")
    return lost_then_delivered


def heal(net, extra_steps=0):
    net.healed = True
    n = int((4 * T + 6 * net.cfg.get("delay", 0)) // net.cfg["tick"]) + 40 + extra_steps
    for i in range(n):
        net.step()


def boundary_session(run, rng, mtu, lengths, label):
    """each length sent alone, from both sides, first transmissions lost"""
    cfg = {"loss": 1.0, "dup": 0, "reorder": 0, "tick": 300, "delay": 0}
    net = netsim.Net(run, rng, cfg, mtu=mtu)
    try:
        for L in lengths:
            for who in ("client", "server"):
                net.send(who, L, -1, with_cb=True, api=True)
            for i in range(3):
                net.step()
        # everything sent so far was lost; now lose 30%
        net.cfg["loss"] = 0.3
        for i in range(40):
            net.step()
        heal(net, extra_steps=20 * len(lengths))
        diffs = net.check_models()
        n = check_delivery(run, net, label, {"phase": "boundary"})
    finally:
        net.close()
    return net, diffs, n


def overtaken_session(run, rng, label, newer, mtu):
    """one guaranteed message whose every datagram is lost while more than `newer` newer messages of the
    same sender get through (the receiver's 256-message window moves past it), then the loss stops"""
    cfg = {"loss": 0, "dup": 0, "reorder": 0, "tick": 300, "delay": 0}
    net = netsim.Net(run, rng, cfg, mtu=mtu)
    try:
        who = rng.choice(["client", "server"])
        mid = net.send(who, rng.choice([60, 300]), -1, with_cb=True, api=True)
        marker = net.sent[who][mid]["payload"][:9]
        net.drop_filter = lambda w, rec: w == who and marker in bytes(rec["payload"])
        sent_newer = 0
        while sent_newer < newer:
            for _ in range(3):
                net.send(who, 3, 0, with_cb=False)
                sent_newer += 1
            net.step()
        net.drop_filter = None
        heal(net, extra_steps=40)
        diffs = net.check_models()
        n = check_delivery(run, net, label, {"phase": "overtaken", "newer_messages": sent_newer})
    finally:
        net.close()
    return net, diffs, n


RING = 65535
WRAP_RULE = ("long-lived connections: datagram / message counters of both sides started 0..50 below 65535 (lead-in of one loss-free round trip); a guaranteed send whose first "
             "datagram has the wire number 65535-k for every k in 0..33 (both roles in the same session, different k), every datagram "
             "carrying it lost until the sender's counter has wrapped to 1..8, background traffic of one datagram per frame in both "
             "directions, latency 0/1/4 frames, unfragmented and fragmented lengths, then healed; plus random lossy sessions started "
             "below the wrap; non-trivial = a session in which the lost first datagram was numbered <= 65535 and the first ack header "
             "the sender accepted afterwards had an ack number past the wrap, and the message was delivered")


def wire(n):
    return (n - 1) % RING + 1


def wrap_session(run, rng, label, mtu, ks, lengths, delay):
    """ks = {who: k}: `who` sends a guaranteed message whose first datagram is numbered 65535-k; see (e)"""
    cfg = {"loss": 0, "dup": 0, "reorder": 0, "tick": 300, "delay": delay}
    # lead-in: the peer's first headers say ack = 0 ("nothing received yet"), which the ring arithmetic reads as datagram 65535
    # (SeqNum(0).diff(65535) == 0); a connection whose counter is near 65535 has long been receiving acknowledgements, so the
    # counters start early enough for real ack numbers to have come back (one round trip) before the datagram under test is sent
    need = 2 * (delay // cfg["tick"]) + 3
    lead = {w: need + rng.randrange(0, 6) for w in ks}
    start = {w: [RING - (ks[w] + lead[w]), RING - rng.randrange(0, 41)] for w in ("client", "server") if w in ks}
    for w in ("client", "server"):
        start.setdefault(w, [RING - rng.randrange(0, 41), RING - rng.randrange(0, 41)])
    net = netsim.Net(run, rng, cfg, mtu=mtu, seq0=start["client"], seq0_server=start["server"])
    try:
        target = {w: RING - ks[w] for w in ks}
        until = {w: rng.randrange(1, 9) for w in ks}         # lossy until the sender's own counter shows this number (after the wrap)
        marker, lossy, first_no = {}, {w: True for w in ks}, {}
        net.drop_filter = lambda w, rec: w in marker and lossy[w] and marker[w] in bytes(rec["payload"])
        for f in range(160):
            for w in ("client", "server"):
                conn = net.ep(w).impl.conn
                if w in ks and w not in marker and wire(int(conn.seq_sending) + 1) == target[w]:
                    mid = net.send(w, lengths[w], -1, with_cb=True, api=True)
                    marker[w] = net.sent[w][mid]["payload"][:9]
                    first_no[w] = target[w]
                net.send(w, 3, 0, with_cb=False)      # one datagram per frame in both directions
            net.step()
            for w in ks:
                n = int(net.ep(w).impl.conn.seq_sending)
                if w in marker and lossy[w] and until[w] <= n < 1000:
                    lossy[w] = False
            if all(w in marker and not lossy[w] for w in ks):
                break
        if not all(w in marker and not lossy[w] for w in ks):
            raise RuntimeError("wrap session %s never reached the wrap: the harness is not exercising the surface" % label)
        # was the lost first datagram still unresolved when the sender's counter wrapped (i.e. the acknowledgements that decide
        # about it carry ack numbers from the other side of the wrap)?
        heal(net, extra_steps=30)
        diffs = net.check_models()
        extra = {"phase": "wrap", "first_datagram_number": dict(first_no), "k": dict(ks), "start_counters": start,
                 "lossy_until_sender_counter": dict(until), "delay": delay}
        n = check_delivery(run, net, label, extra)
        # the acknowledgement surface was exercised: the peer's headers accepted by the sender after its wrap name ack numbers < 1000
        for w in ks:
            peer = net.other(w)
            acks = [rec["hdr"][3] for rec in net.emitted[peer]]
            if not (any(a > RING - 100 for a in acks) and any(0 < a < 100 for a in acks)):
                raise RuntimeError("wrap session %s: the peer's ack numbers never crossed the wrap" % label)
    finally:
        net.close()
    return net, diffs, n


def random_session(run, rng, label, steps, below_wrap=False):
    cfg = {"loss": rng.choice([0.1, 0.3, 0.5]), "dup": rng.choice([0, 0.2]), "reorder": rng.choice([0, 0.3]),
           "tick": rng.choice([300, 600, 900]), "max_delay": rng.choice([T // 8, T // 2]),
           "delay": rng.choice([0, 300, 1200, 4500])}
    mtu = rng.choice([1500, 512, 576, 1095, 1096, 1280])
    if below_wrap:
        # long-lived connections: both counters of both sides cross the ring wrap somewhere in the lossy phase.  Lead-in (see
        # wrap_session): one loss-free round trip of background traffic, so that real ack numbers (not the initial ack = 0) are
        # what the peers tell each other by the time datagram 65535 is sent
        warm = 2 * (cfg["delay"] // cfg["tick"]) + 3
        net = netsim.Net(run, rng, dict(cfg, loss=0, dup=0, reorder=0), mtu=mtu,
                         seq0=[RING - warm - rng.randrange(1, 9), RING - rng.randrange(0, 41)],
                         seq0_server=[RING - warm - rng.randrange(1, 9), RING - rng.randrange(0, 41)])
        for _ in range(warm):
            for who in ("client", "server"):
                net.send(who, 3, 0, with_cb=False)
            net.step()
        net.cfg = cfg
    else:
        net = netsim.Net(run, rng, cfg, mtu=mtu)
    try:
        mp, mf = net.env[0], net.env[1]
        for i in range(steps):
            if rng.random() < 0.4:
                who = rng.choice(["client", "server"])
                L = rng.choice([0, 1, 7, 100, mp - 1, mp, mp + 1, mp + 2, mf, mf + 1, 2 * mf, 2 * mf + 1, 3000])
                retry = rng.choice([-1, -1, -1, 0, 1])
                net.send(who, L, retry, with_cb=rng.random() < 0.7, api=rng.random() < 0.5)
            net.step()
        heal(net, extra_steps=60)
        diffs = net.check_models()
        n = check_delivery(run, net, label, {"phase": "random", "cfg": cfg})
    finally:
        net.close()
    return net, diffs, n, cfg


LIVE_RULE = ("timed joint schedules: sender ticks <= tau apart, loss/delay before th, every sender datagram from th on shown "
             "within d, copies/tampered copies/lossy ack direction at all times; grid over side, keep-alive interval, tau, d, "
             "th, payload length (0, 1, MAX_PAYLOAD_SIZE-1, MAX_PAYLOAD_SIZE); plus schedules that break the hypotheses "
             "(loss after th); non-trivial = admissible schedule whose first transmission was lost or arrived after a later one")


def live_sessions(run, rng, th):
    """(c): unit live_pair_run + the liveness oracle on the real endpoints"""
    lcases, limpl, margs = [], [], []
    n_sessions = 90 if th else 18
    for n in range(n_sessions):
        side = n % 2
        KC = rng.choice([1536, 1536, 600, 3000])
        KS = rng.choice([1536, 1536, 600, 3000])
        tau = rng.choice([150, 300, 600])
        d = rng.choice([0, 90, 300, 900])
        th_off = rng.choice([0, 600, 3000, 9000, 20000])
        mp = S.env_for_mtu(1500)[0]
        S.restore_mtu()
        plen = rng.choice([0, 1, 40, 300, mp - 1, mp])
        payload = bytes((7 * i + n) % 251 for i in range(plen))
        broken = (n % 6 == 5)
        p = livesim.random_live_session(run, rng, side, KC, KS, tau, d, th_off, payload,
                                        loss=rng.choice([0.5, 0.9, 1.0]), dup=rng.choice([0, 0.2]),
                                        junk=rng.choice([0, 0.1]), rloss=rng.choice([0, 0.5, 1.0]),
                                        post_loss=(0.5 if broken else 0.0))
        try:
            now_end = p.times[-1]
            adm, why = p.admissible(tau, d, p.th)
            setl = p.settled(tau, d, p.th, now_end)
            deadline = max(p.th, p.t0) + p.bound
            label = "live%d" % n
            case = {"session": label, "side": "client" if side == 0 else "server", "KC": KC, "KS": KS, "tau": tau, "d": d,
                    "th_off": th_off, "len": plen, "events": len(p.events), "admissible": adm, "why": why}
            margs.append(p.model_args(tau, d, p.th, now_end))
            limpl.append([1, 1 if adm else 0, 1 if setl else 0, deadline, p.start, p.obs])
            lcases.append(case)
            run.count("live_sessions")
            run.count("live_admissible" if adm else "live_outside_hypotheses")
            run.evaluations += len(p.events)
            expect = [[1, payload]]
            if adm:
                shown_first = None
                for k, inc in enumerate(p.incoming):
                    if inc not in ([], expect):
                        run.oracle_violation("receiver-handed-something-else-or-twice",
                                             dict(case, event=k, incoming=lib.jsonable(inc)[:3]), "liveness composition")
                        break
                    if p.done[k] and inc != expect:
                        run.oracle_violation("success-before-delivery", dict(case, event=k), "liveness composition")
                        break
                if setl and now_end > deadline and p.incoming[-1] != expect:
                    run.oracle_violation("guaranteed-message-not-delivered-within-bound",
                                         dict(case, now_end=now_end - p.t0, deadline=deadline - p.t0,
                                              emitted=[r["time"] - p.t0 for r in p.em[p.sender]][:8]), "liveness bound")
                first = p.em[p.sender][0] if p.em[p.sender] else None
                if first is not None and (not first["shown"] or (len(p.em[p.sender]) > 1 and p.em[p.sender][1]["shown"]
                                                                 and first["shown"][0] > p.em[p.sender][1]["shown"][0])):
                    run.nt(("live", label))
            if n < 2:
                run.sample({"unit": "live_pair_run", "case": case, "delivered_at_event":
                            next((k for k, inc in enumerate(p.incoming) if inc == expect), None)})
        finally:
            p.close()
    replies = run.model.call_many("live_pair_run", margs)
    run.compare("live_pair_run", lcases, limpl, replies)


def directed_d17(run, cases, impl, mod):
    """known finding D17 re-observed on every run by one directed history (harness/d17.py)"""
    from harness import d17
    for who in ("client", "server"):
        net, mid = d17.directed(run, who)
        try:
            diffs = net.check_models()
            check_delivery(run, net, "directed-D17-" + who, {"phase": "directed-D17"})
            cases.append({"session": "directed-D17-" + who, "first_difference": diffs[:1]})
            impl.append("agree"); mod.append("agree" if not diffs else "differ")
            run.evaluations += 1
        finally:
            net.close()



# ------------------------------------------------------------------ guaranteed sends issued from inside callbacks

CB_RULE = ("server-loop worlds (harness/srvx.py, every front door): UdpClient.send_guaranteed issued from INSIDE the client's connect "
           "callback (co-packed with the CHALLENGE_RESP, or following it, or fragmented) and later from the application; "
           "ServerClientConnection.send_guaranteed issued from inside the handler's connect / handle_message / update / disconnect events; "
           "payload lengths 0, 1, small, MAX_PAYLOAD_SIZE-1..+1, fragmented; loss / duplication in both directions, then healed; "
           "delivery judged at EventHandler.handle_message and at UdpClient.getMessages; non-trivial = a world in which a guaranteed "
           "message sent from the connect callback shared its datagram with the CHALLENGE_RESP")


def callback_world(run, rng, idx, front, loss, p_raise):
    from harness import srvsim as V, srvx as X
    from mpgameserver.connection import Packet
    mtu = rng.choice([1500, 1500, 576, 1096])
    env = S.env_for_mtu(mtu)
    S.restore_mtu()
    mp = env[0]
    sizes = [0, 1, 7, 100, 100, min(600, mp - 2), mp - 1, mp, mp + 1, 3000]
    quiet = [False]     # the application stops talking some time after the network healed, so that everything can settle
    srv_sent = {}       # (addr, payload) -> event kind it was sent from
    cli_sent = {}       # (addr, payload) -> where it was sent from
    serial = [0]
    zero_used = set()

    def payload(tag, who, n):
        serial[0] += 1
        head = b"%s-%d-%d-" % (tag, idx, serial[0])
        if n == 0 and (who, tag) not in zero_used:
            zero_used.add((who, tag))
            return b""
        return head + bytes(rng.randrange(256) for _ in range(max(0, n - len(head))))

    def policy(sim, n, ev):
        acts = []
        kind = ev[0]
        if quiet[0]:
            return acts, False
        if kind in (3, 4, 5):
            me = next((c for c in sim.ctxt.connections.values() if sim.cid(c) == ev[1]), None)
            others = [c for c in sim.ctxt.connections.values() if c is not me and c.status.value == 2]
            if kind == 3 and me is not None:
                for _ in range(rng.choice([1, 1, 2])):
                    p = payload(b"s-connect", me.addr, rng.choice(sizes))
                    if (me.addr, p) not in srv_sent:
                        srv_sent[(me.addr, p)] = "connect"
                        acts.append([1, V.av(me.addr), p, -1, -1])
            elif kind == 4 and me is not None and rng.random() < 0.4:
                p = payload(b"s-message", me.addr, rng.choice(sizes))
                if (me.addr, p) not in srv_sent:
                    srv_sent[(me.addr, p)] = "handle_message"
                    acts.append([1, V.av(me.addr), p, -1, -1])
            elif kind == 5 and others:
                o = rng.choice(others)
                p = payload(b"s-disconnect", o.addr, rng.choice(sizes))
                if (o.addr, p) not in srv_sent:
                    srv_sent[(o.addr, p)] = "disconnect"
                    acts.append([1, V.av(o.addr), p, -1, -1])
        elif kind == 2 and rng.random() < 0.05:
            for c in sim.ctxt.connections.values():
                if c.status.value == 2:
                    p = payload(b"s-update", c.addr, rng.choice(sizes[1:]))
                    srv_sent[(c.addr, p)] = "update"
                    acts.append([1, V.av(c.addr), p, -1, -1])
        return acts, kind in (3, 4, 5) and rng.random() < p_raise
    w = X.WorldX(run, rng, cfg=(5 * T, 2 * T, 1536, T // 4), policy=policy, full=True, front=front, api_sends=True, mtu=mtu)
    sim = w.sim
    faulty = [True]

    def lossy(addr, d):
        if not faulty[0]:
            return [d]
        r = rng.random()
        return [] if r < loss else ([d, d] if r < loss + 0.1 else [d])
    w.up = lossy
    w.down = lossy
    copacked = [0]

    def on_connect(hc, ok):
        if not ok:
            return
        conn = hc.client.conn
        for n in rng.choice([[7], [0, 100], [100, mp + 1], [1, 1, 1], [3000], [mp], [mp // 3, mp // 3, mp // 3]]):
            p = payload(b"c-connect", hc.addr, n)
            if (hc.addr, p) in cli_sent:
                continue
            q0 = len(conn.outgoing_messages)
            hc.client.send_guaranteed(p)
            if len(conn.outgoing_messages) > q0:
                cli_sent[(hc.addr, p)] = "connect-callback"
    addrs = [("10.5.%d.%d" % (idx % 200, i + 1), 5000 + i) for i in range(rng.choice([1, 2, 3]))]
    try:
        recs = []
        for st in range(150):
            if st % 4 == 0 and len(recs) < len(addrs):
                recs.append(w.add_client(addrs[len(recs)], on_connect=on_connect))
                recs[-1]["hc"].client.setMessageTimeout(0.25)
            if st == 40:
                faulty[0] = False
            if st == 60:
                quiet[0] = True
            for rec in recs:
                hc = rec["hc"]
                if hc.status() == 2 and st < 40 and rng.random() < 0.3:
                    p = payload(b"c-later", hc.addr, rng.choice(sizes))
                    if (hc.addr, p) not in cli_sent:
                        q0 = len(hc.client.conn.outgoing_messages)
                        hc.client.send_guaranteed(p)
                        if len(hc.client.conn.outgoing_messages) > q0:
                            cli_sent[(hc.addr, p)] = "application"
                if st == 30 and len(recs) > 1 and rec is recs[-1] and rng.random() < 0.5:
                    hc.client.disconnect()       # (its peers may then be written to from the disconnect event)
            n_hist = len(w.sent_hist)
            if not w.step(600):        # 600 ticks = 39 ms; message time-outs 0.25 s on both sides: a round trip is well below it
                break
            for a, d in w.sent_hist[n_hist:]:
                h, b = S.abstract(d, sim.keys, [w.by_addr[a]["hc"].key_id()])
                if b[0] == 0:
                    types = [m[1] for m in (S.decode_msgs_py(h[4], h[6], b[3]) or [])]
                    if 3 in types and (6 in types or 7 in types):
                        copacked[0] += 1
        if sim.internal:
            raise RuntimeError("harness-internal problem: %s" % sim.internal[:3])
        # ---- oracle: judged at the application on both sides, for connections that stayed open
        handed = {}
        closed = set()
        cid_addr = {}
        for o in sim.log:
            if o[0] == 0 and o[1][0] == 3:
                cid_addr[o[1][1]] = V.va(o[1][2])
            elif o[0] == 0 and o[1][0] == 4:
                handed[(cid_addr.get(o[1][1]), bytes(o[1][3]))] = handed.get((cid_addr.get(o[1][1]), bytes(o[1][3])), 0) + 1
            elif o[0] == 0 and o[1][0] == 5:
                closed.add(cid_addr.get(o[1][1]))
        base = {"scenario": "guaranteed sends from callbacks", "world": idx, "front": front, "mtu": mtu, "loss": loss, "p_raise": p_raise}
        n_ok = 0
        for rec in recs:
            a, hc = rec["addr"], rec["hc"]
            sc = sim.ctxt.connections.get(a)
            open_ = (hc.status() == 2 and sc is not None and sc.status.value == 2 and a not in closed and not sim.died)
            run.count("callback_world_connections_open_at_end" if open_ else "callback_world_connections_closed")
            if not open_:
                continue
            for (aa, p), where in cli_sent.items():
                if aa == a and handed.get((a, p), 0) == 0:
                    run.oracle_violation("guaranteed-message-never-delivered",
                                         dict(base, who="client", sent_from=where, len=len(p), payload=p[:32], observed_at="EventHandler.handle_message",
                                              client_outgoing=len(hc.client.conn.outgoing_messages), client_pending_acks=len(hc.client.conn.pending_acks),
                                              server_incoming_queue=len(sc.incoming_messages)), "UdpServerThread.run hand-over")
                elif aa == a:
                    n_ok += 1
            got = set(hc.got)
            for (aa, p), where in srv_sent.items():
                if aa == a and p not in got:
                    run.oracle_violation("guaranteed-message-never-delivered",
                                         dict(base, who="server", sent_from="handler." + where, len=len(p), payload=p[:32], observed_at="UdpClient.getMessages",
                                              server_outgoing=len(sc.outgoing_messages), server_pending_acks=len(sc.pending_acks)), "guaranteed delivery")
                elif aa == a:
                    n_ok += 1
            for who, conn in (("client", hc.client.conn), ("server", sc)):
                if conn.outgoing_messages:
                    run.oracle_violation("message-stuck-in-outgoing-queue",
                                         dict(base, who=who, stuck_lengths=[len(m.payload) for m in conn.outgoing_messages][:8]), "_build_packet_impl")
        w.finish()
        diff = sim.check_model()
        run.count("callback_worlds")
        run.count("callback_world_guaranteed_delivered", n_ok)
        run.count("callback_world_sent_from_connect_callback", sum(1 for v in cli_sent.values() if v == "connect-callback"))
        run.count("callback_world_copacked_with_challenge", copacked[0])
        for k in set(srv_sent.values()):
            run.count("callback_world_sent_from_handler_" + k, sum(1 for v in srv_sent.values() if v == k))
        run.evaluations += len(cli_sent) + len(srv_sent)
        if copacked[0] and n_ok:
            run.nt(("callback-world", idx, front, n_ok))
        return {"world": idx, "front": front, "loss": loss, "first_difference": lib.jsonable(diff)}, diff
    finally:
        w.close()


def callback_worlds(run, rng, n):
    from harness import srvx as X
    cases, impl, mod = [], [], []
    for i in range(n):
        with X.logging_enabled():
            c, diff = callback_world(run, rng, i, X.FRONTS[i % len(X.FRONTS)], [0.0, 0.2, 0.0, 0.4][(i // 2) % 4], [0.0, 0.3][(i // 3) % 2])
        cases.append(c)
        impl.append("agree")
        mod.append("agree" if not diff else "differ")
    run.compare("srv_run", cases, impl, mod)
    if not run.dist.get("callback_world_copacked_with_challenge"):
        raise RuntimeError("no guaranteed message shared a datagram with the challenge response: the harness is not exercising the surface")


def run(run):
    rng = run.rng
    th = run.thorough()
    cases, impl, mod = [], [], []
    # (a) boundary sweep
    mtus = list(range(512, 1501)) if False else ([512, 513, 576, 700, 1095, 1096, 1097, 1280, 1500] if th else [512, 1096, 1500])
    w = 12 if th else 3
    for mtu in mtus:
        env = S.env_for_mtu(mtu)
        S.restore_mtu()
        mp, mf = env[0], env[1]
        centers = [mp] + [k * mf for k in (1, 2, 3, 4)] + [mp + mf]
        lengths = sorted(set([0, 1, 2] + [c + d for c in centers for d in range(-w, w + 1) if c + d >= 0]))
        # keep each session short: chunks of 16 lengths
        for k in range(0, len(lengths), 16):
            chunk = lengths[k:k + 16]
            label = "b-mtu%d-%d" % (mtu, k)
            net, diffs, n = boundary_session(run, rng, mtu, chunk, label)
            cases.append({"session": label, "mtu": mtu, "lengths": chunk, "first_difference": diffs[:1]})
            impl.append("agree"); mod.append("agree" if not diffs else "differ")
            run.count("boundary_sessions")
            run.count("boundary_lengths", len(chunk))
            run.evaluations += 2 * len(chunk)
            for L in chunk:
                run.nt(("b", mtu, L))
    if th:
        run.exhaustive.append("every payload length within +-12 of MAX_PAYLOAD_SIZE, k*MAX_FRAGMENT_SIZE (k<=4) and MAX_PAYLOAD_SIZE+MAX_FRAGMENT_SIZE for 9 MTUs")
    # (a2) a guaranteed message overtaken by more than a window of newer messages while all its copies are lost
    for i, newer in enumerate(([40, 250, 270, 300, 600] if th else [270, 330])):
        label = "ov%d" % i
        net, diffs, n = overtaken_session(run, rng, label, newer, rng.choice([1500, 512]))
        cases.append({"session": label, "newer": newer, "mtu": net.mtu, "first_difference": diffs[:1]})
        impl.append("agree"); mod.append("agree" if not diffs else "differ")
        run.count("overtaken_sessions")
        run.evaluations += newer
        run.nt(("ov", newer))
    # (b) random sessions
    for i in range(120 if th else 14):
        label = "r%d" % i
        net, diffs, n, cfg = random_session(run, rng, label, 100 if th else 60)
        cases.append({"session": label, "cfg": cfg, "mtu": net.mtu, "first_difference": diffs[:1]})
        impl.append("agree"); mod.append("agree" if not diffs else "differ")
        run.count("random_sessions")
        run.count("guaranteed_delivered", n)
        run.evaluations += sum(1 for w_ in net.sent for r in net.sent[w_].values())
        if n:
            run.nt((label, n))
        if i < 2:
            run.sample({"session": label, "cfg": cfg, "mtu": net.mtu,
                        "guaranteed": [[r["len"], r["retry"]] for r in list(net.sent["client"].values())[:6]]})
    directed_d17(run, cases, impl, mod)
    run.compare("conn_run", cases, impl, mod)
    live_sessions(run, rng, th)
    callback_worlds(run, rng, 200 if th else 16)
    # (run last, so that the sessions above draw the same random streams as before this section existed)
    # (e) long-lived connections: guaranteed sends lost AT the datagram-counter wrap
    wcases, wimpl, wmod = [], [], []
    for k in range(34):
        for rep in range(3 if th else 1):
            k2 = (k * 7 + 3 + rep) % 34
            ks = {"client": k, "server": k2} if (k + rep) % 3 else ({"client": k} if k % 2 else {"server": k})
            mtu = rng.choice([1500, 512, 1096])
            env = S.env_for_mtu(mtu)
            S.restore_mtu()
            lengths = {w: rng.choice([0, 1, 40, 40, 300, env[0], env[0] + 1, 2 * env[1] + 5]) for w in ks}
            delay = rng.choice([0, 0, 300, 1200])
            label = "w%d-%d" % (k, rep)
            net, diffs, n = wrap_session(run, rng, label, mtu, ks, lengths, delay)
            wcases.append({"session": label, "k": ks, "mtu": mtu, "lengths": lengths, "delay": delay, "first_difference": diffs[:1]})
            wimpl.append("agree"); wmod.append("agree" if not diffs else "differ")
            run.count("wrap_sessions")
            run.count("wrap_guaranteed_delivered", n)
            run.evaluations += len(ks)
            if n >= len(ks):
                run.nt(("wrap", k, rep, tuple(sorted(ks.items()))))
    if th:
        run.exhaustive.append("first datagram of a guaranteed send numbered 65535-k for every k in 0..33, three sessions each")
    for i in range(40 if th else 4):
        label = "rw%d" % i
        net, diffs, n, cfg = random_session(run, rng, label, 100 if th else 60, below_wrap=True)
        wcases.append({"session": label, "cfg": cfg, "mtu": net.mtu, "start": [net.A.seq0, net.B.seq0], "first_difference": diffs[:1]})
        wimpl.append("agree"); wmod.append("agree" if not diffs else "differ")
        run.count("random_sessions_below_wrap")
        run.count("guaranteed_delivered", n)
        run.evaluations += sum(1 for w_ in net.sent for r in net.sent[w_].values())
        if n:
            run.nt((label, n))
    run.compare("conn_run_from", wcases, wimpl, wmod)
    run.rules.append(CB_RULE)
    run.rules.append(RULE)
    run.rules.append(WRAP_RULE)
    run.rules.append(LIVE_RULE)
