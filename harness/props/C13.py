"""C13 — binary serializer: decode(encode(v)) == norm(v), exact consumption, refusals.

Correspondence units (coq/Extract/U_Ser.v): ser_enc (serialize_value: bytes or exception),
ser_dec (deserialize_value on a counting stream: value, bytes left, number of reads),
ser_norm (the value a trip is proved to return vs what the implementation actually returns),
ser_int (serialize_int), ser_utf8 (str.encode / bytes.decode('utf-8')), ser_f32 (struct '>f').
The registry of the Serializable / SerializableEnum test classes (harness/serlib.py) is handed to
the implementation as `registry=` and to the model as data.

Oracle: the property restated over the implementation only, with an independently written
normaliser (norm_py) and a structural comparison: encode succeeds on the domain,
decode(encode(v) + rest) == norm_py(v) with exactly len(rest) bytes left, k concatenated
encodings decode one after another from one stream, values outside the domain raise and
dumpb returns nothing.  Values whose dict keys / set elements contain a tuple are a separate,
labelled class (D18).

Oracle, part 2 (api_oracle / persist_oracle): the same claims through EVERY public encode/decode entry point —
the process-wide tables (no registry= keyword), loadb on bytes and on streams, serialize_header / serialize /
deserialize called directly, dumpz / loadz, SerializableEnum ==, !=, hash, name(), ordering after a trip, and the
persistent format store_persistant / load_persistant / serialize_registry / deserialize_registry with the record
written by the real writer in a process whose classes carry OTHER type ids (serlib.IdAssignment: swaps of two
classes of the value, rotations, permutations, shifts, fresh ids) and variants of the stored table (as written,
rebuilt independently, subset, unknown class names, reordered) — and, around every one of them, the process-level
state clause: SerializableType.registry / names / next_type_id / custom_id, SerializableEnumType._enums, the type
dispatch tables, the size caps and every registered class's type_id / _fields / class-level defaults / member tables are
exactly what they were (serlib.process_state / StateGuard), and the ordinary dumpb/loadb trip of the same classes
still holds afterwards.
Units persist_load / persist_store (coq/Model/Persist.v, coq/Extract/U_Persist.v): load_persistant on a counting
stream (value with this process's ids, bytes left, reads, and the two tables as the call left them — the model's
reader only reads them) over records written under other id assignments, table variants (subset, unknown names,
reordered, duplicate ids / names), truncations, bit flips and crafted tables (count / id / name of every value kind);
store_persistant in a process with another id assignment."""
import io, struct, ctypes, itertools
from harness import lib
from harness import serlib as SL

RULE = ("recursive value generator over None/bool/int/float/str/bytes/list/tuple/dict/set/"
        "Serializable (10 classes)/SerializableEnum (3 classes), depth <= 4: every integer width boundary "
        "(2^7, 2^15, 2^31, 2^63 +-2, both signs) as value and as string/bytes/sequence length, NaN payloads, "
        "+-inf, +-0, subnormals of both formats, float32 rounding ties and the overflow threshold, empty and 1-4 "
        "byte UTF-8 code points at every length boundary, surrogates, size caps 2^14 / 2^20 +-1, random trailing "
        "bytes, concatenations of 2-6 encodings; separate refused stream (wide ints, overflowing floats, "
        "surrogates, unsupported types, illegal enum values, over-long containers, nested anywhere); "
        "non-trivial = value nests a container or class, or sits on a width / rounding / code-point boundary, "
        "or is refused; every public entry point (process-wide tables, loadb on streams, serialize/deserialize, dumpz/loadz) on the "
        "same values; persistent records written under other type-id assignments (swap / rotate / permute / shift / fresh ids, "
        "stored-table variants subset / unknown names / reordered / duplicates, truncations, bit flips, crafted count/id/name of "
        "every value kind) — non-trivial = a class of the value carries another id in the writer's process or the stream is not as written; "
        "process-level state compared before/after every entry point")
ASSUMPTIONS = [
    "values are finite trees (no cyclic containers) nested less deeply than the interpreter's recursion limit "
    "(theorems: need v <= fuel)",
    "CPython hash collisions between unequal dict keys / set elements are not modelled (an enum key and a "
    "non-enum key with equal hashes make SerializableEnum.__eq__ raise); generators do not mix them",
    "C13_roundtrip assumes norm v = SOk nv: dict keys / set elements are hashable after a trip (no tuple inside a key: D18)",
    "the persistent format (Model/Persist.v) is modelled and tied by the units persist_load / persist_store, not covered by a theorem; "
    "a SerializableEnum member used as a stored type id is outside that model (explicit error, such cases are counted and excluded)",
    "process-level state = what serlib.process_state() lists (the metaclass tables and counters, the dispatch tables, the caps, "
    "per class: type_id, _fields, annotations, class-level field defaults, enum member tables); other module globals are not watched",
]
USES_GENERATED_SER = True
TRUSTED = [
    "Flocq 4.1 (binary_normalize, bits_of_b32) for struct.pack('>f'): theorems about flocq_fc inherit the "
    "axioms printed by Print Assumptions",
    "CPython struct / utf-8 codec / dict and set semantics are the reference the model is compared with (sampled)",
]

MAXA, MAXB = SL.MAXA, SL.MAXB


# ------------------------------------------------------------------ independent reference (oracle side)

def f32(x):
    return struct.unpack(">f", struct.pack(">f", x))[0]


class NotInDomain(Exception):
    pass


def norm_py(v):
    """what a value is expected to look like after one trip (written without looking at the model)"""
    t = type(v)
    if v is None or t in (bool, int, str, bytes):
        return v
    if t is float:
        return f32(v)
    if t in (list, tuple):
        return [norm_py(x) for x in v]
    if t is dict:
        d = {}
        for k, x in v.items():
            nk = norm_py(k)
            try:
                d[nk] = norm_py(x)
            except TypeError:
                raise NotInDomain("key")
        return d
    if t is set:
        s = set()
        for x in v:
            nx = norm_py(x)
            try:
                s.add(nx)
            except TypeError:
                raise NotInDomain("element")
        return s
    if isinstance(v, SL.Serializable):
        o = type(v)()
        for f in v._fields:
            setattr(o, f, norm_py(getattr(v, f)))
        return o
    if isinstance(v, SL.SerializableEnum):
        e = type(v).__new__(type(v))
        e.value = norm_py(v.value)
        return e
    raise NotInDomain("type")


def srepr(v):
    try:
        return repr(v)
    except Exception:       # noqa  (an enum holding an illegal value has no repr)
        return "wire:" + repr(SL.to_wire(v))


def shape(v):
    """structural, type-exact, order-insensitive-for-sets form used to compare two python values"""
    return SL.canon(SL.to_wire(v))


def in_domain(v, depth=0):
    """the documented domain, decided syntactically"""
    t = type(v)
    if v is None or t is bool:
        return True
    if t is int:
        return -2 ** 63 <= v < 2 ** 63
    if t is float:
        return not SL.f32_overflows(SL.f2bits(v))
    if t is str:
        if any(0xD800 <= ord(c) <= 0xDFFF for c in v):
            return False
        return len(v.encode("utf-8")) <= MAXB
    if t is bytes:
        return len(v) <= MAXB
    if t in (list, tuple, set):
        return len(v) <= MAXA and all(in_domain(x) for x in v)
    if t is dict:
        return len(v) <= MAXA and all(in_domain(k) and in_domain(x) for k, x in v.items())
    if isinstance(v, SL.Serializable):
        return all(in_domain(getattr(v, f)) for f in v._fields)
    if isinstance(v, SL.SerializableEnum):
        try:
            return v.value in v._value2name and in_domain(v.value)
        except TypeError:
            return False
    return False


def need_py(v):
    """Python frames deserialize_value needs for the encoding of v (mirrors the theorem premise)"""
    t = type(v)
    if v is None:
        return 2
    if t in (bool, int, float):
        return 3
    if t in (str, bytes):
        return 5
    if t in (list, tuple, set):
        return 2 + max([3] + [need_py(x) for x in v])
    if t is dict:
        return 2 + max([3] + [max(need_py(k), need_py(x)) for k, x in v.items()])
    if isinstance(v, SL.Serializable):
        return 2 + max([3] + [need_py(getattr(v, f)) for f in v._fields])
    if isinstance(v, SL.SerializableEnum):
        return 2 + need_py(v.value)
    raise TypeError(v)


def nontrivial_key(v):
    t = type(v)
    if t in (list, tuple, dict, set) and len(v) > 0:
        return True
    if isinstance(v, (SL.Serializable, SL.SerializableEnum)):
        return True
    if t is int:
        a = abs(v)
        return any(abs(a - 2 ** k) <= 2 for k in (7, 15, 31, 63))
    if t is float:
        try:
            return v != f32(v) if v == v else True
        except OverflowError:
            return True
    if t is str:
        return any(ord(c) >= 0x80 for c in v)
    return False


# ------------------------------------------------------------------ generators

def gen_key2(r):
    """plain hashable key, floats not necessarily float32-exact (keys may merge after a trip)"""
    c = r.random()
    if c < 0.25:
        return SL.gen_float(r)
    if c < 0.35:
        return r.choice([0, 1, -1, 0.0, -0.0, 1.0, True, False, 1.0000000001, 0.9999999999, 2.0 ** 24 + 1, 16777216, 16777217])
    return SL.gen_key(r, 0, plain=True)


def gen_value2(r, depth):
    """serlib.gen_value plus: merging keys, objects in containers, deeper nesting"""
    c = r.random()
    if depth <= 0 or c < 0.55:
        return SL.gen_value(r, max(depth, 0))
    n = r.choice([0, 1, 2, 3, 4])
    if c < 0.65:
        return {gen_key2(r): gen_value2(r, depth - 1) for _ in range(n)}
    if c < 0.72:
        return set(gen_key2(r) for _ in range(n))
    if c < 0.82:
        return [gen_value2(r, depth - 1) for _ in range(n)]
    if c < 0.88:
        return tuple(gen_value2(r, depth - 1) for _ in range(n))
    if c < 0.94:
        o = r.choice(SL.OBJS)()
        for f in o._fields:
            if r.random() < 0.6:
                setattr(o, f, gen_value2(r, depth - 1))
        return o
    # objects as dict values / keys (hashable by identity), enums as values
    o = SL.gen_obj(r, 1)
    twin = type(o)()
    for f in o._fields:
        setattr(twin, f, getattr(o, f))
    other = SL.gen_obj(r, 1)
    # (instances hash by identity: two instances with equal fields are two elements / two keys, before and after a trip)
    return r.choice([{o: SL.gen_scalar(r)}, {SL.gen_enum(r): o}, [o, o], {SL.gen_int(r): SL.gen_enum(r)},
                     {o, twin}, {o, twin, other}, {o: 1, twin: 2}, [{o, other}, {twin: other}]])


def str_of_len(r, nbytes):
    """a str whose UTF-8 encoding has exactly nbytes bytes, multi-byte where possible"""
    out = []
    left = nbytes
    while left > 0:
        k = r.choice([1, 1, 2, 3, 4])
        if k > left:
            k = left
        out.append({1: "a", 2: "é", 3: "中", 4: "\U0001f600"}[k])
        left -= k
    return "".join(out)


def boundary_values(run):
    r = run.rng
    vals = []
    vals += list(SL.INT_EDGES)
    vals += [SL.bits2f(b) for b in SL.FLOAT_BITS_EDGES]
    vals += [chr(c) for c in SL.CP_EDGES] + ["a" + chr(c) + "z" for c in SL.CP_EDGES] + [chr(c) for c in SL.SURROGATES]
    vals += ["", b"", [], (), {}, set(), None, True, False]
    lens = [0, 1, 2, 126, 127, 128, 129, 255, 256, 257, 32766, 32767, 32768, 32769, 65535, 65536]
    for n in lens:
        vals.append(b"\xa5" * n)
        vals.append(str_of_len(r, n))
    T = run.thorough()
    for n in [127, 128, 129, MAXA - 1, MAXA, MAXA + 1]:
        vals.append([None] * n)
        vals.append(tuple([True] * n))
        # the model's dict / set insertion is quadratic: cap-sized hash containers only in the thorough tier
        if n < 200 or n == MAXA + 1 or (T and n == MAXA):
            vals.append(set(range(n)))
            vals.append({i: None for i in range(n)})
    vals += [b"\x00" * MAXB, b"\x01" * (MAXB + 1), "a" * (MAXB + 1), "é" * (MAXB // 2 + 1)]
    if T:
        vals += ["a" * MAXB, "é" * (MAXB // 2)]
        for n in [32767, 32768, 2 ** 17 + 1, MAXB - 1]:
            vals.append(str_of_len(r, n))
    # every scalar edge once inside each container kind and class
    for x in [2 ** 7, -2 ** 7 - 1, 2 ** 15, -2 ** 15 - 1, 2 ** 31, -2 ** 31 - 1, 2 ** 63 - 1, -2 ** 63, float("nan"), float("inf"), -0.0, 1e-45, "\U0010ffff"]:
        o = SL.VfHigh()
        o.v = x
        vals += [[x], (x, x), {x: x}, {"k": x}, o]
        if x == x:
            vals.append({x})
    for cls in SL.ENUMS:
        for m in cls._value2name:
            vals.append(cls(m))
    for cls in SL.OBJS:
        vals.append(cls())
    return vals


D18_WITNESSES = [
    lambda: {(1, 2): 3},
    lambda: {(): None},
    lambda: {(1, (2, 3)): "x", 5: 6},
    lambda: {(1, 2)},
    lambda: {((), ("a",))},
    lambda: [{("k", 1): [1]}],
    lambda: {"outer": {(0,): 0}},
]


def gen_d18(r):
    base = r.choice(D18_WITNESSES)()
    c = r.random()
    if c < 0.3:
        return base
    if c < 0.5:
        return [SL.gen_scalar(r), base]
    if c < 0.7:
        o = SL.VfHigh()
        o.v = base
        return o
    k = tuple(SL.gen_key(r, 0, plain=True) for _ in range(r.choice([0, 1, 2, 3])))
    return r.choice([{k: SL.gen_scalar(r)}, {k}, {SL.gen_int(r): {k: None}}])


# ------------------------------------------------------------------ implementation runners

def impl_encode(v):
    return SL.impl_encode(v)


def generated_kernels(run, ints):
    """units gen_ser_*: the definitions REGENERATED from serializable.py by tools/py2v_bytes.py against the real
    serialize_int / serialize_bool / serialize_null / serialize_bytes, the two limits, the deserialize_types table
    (every entry probed behaviourally) and struct.unpack for the integer formats"""
    import io, struct
    from mpgameserver import serializable as S
    M, r = run.model, run.rng

    def wr(f, v):
        def go():
            s = io.BytesIO()
            f(s, v)
            return s.getvalue()
        return lib.guarded(go)
    run.compare("gen_ser_int", ints, [wr(S.serialize_int, z) for z in ints], M.call_many("gen_ser_int", [[z] for z in ints]))
    blens = [0, 1, 2, 126, 127, 128, 129, 255, 256, 32766, 32767, 32768, 32769, 70000] + [r.randrange(0, 400) for _ in range(60)]
    blens += [2 ** 20 - 1, 2 ** 20, 2 ** 20 + 1]
    mc = [[r.choice([0, 1, 1, 2, -1, 256]), r.choice([0, 1, -5, 2 ** 70]), bytes(r.getrandbits(8) for _ in range(n)) if n < 1000
           else bytes([r.getrandbits(8)]) * n] for n in blens]
    mi = [[wr(S.serialize_bool, c[0]), wr(S.serialize_null, c[1]), wr(S.serialize_bytes, c[2])] for c in mc]
    run.compare("gen_ser_misc", [[c[0], c[1], len(c[2])] for c in mc], mi, M.call_many("gen_ser_misc", mc))

    class Probe:
        def __init__(self):
            self.n = []

        def read(self, n):
            self.n.append(n)
            return b"\xff" * n
    names = {"deserialize_string": 1, "deserialize_bytes": 2, "deserialize_map": 3, "deserialize_seq": 4, "deserialize_set": 5}
    tab = []
    for tid, f in S.deserialize_types.items():
        if getattr(f, "__name__", "") in names:
            tab.append([tid, [2, names[f.__name__]]])
            continue
        p = Probe()
        v = f(p)
        if not p.n:
            tab.append([tid, [1]] if v is None else [tid, [9]])
            continue
        n = p.n[0]
        kind = 1 if v is True else (2 if isinstance(v, float) and n == 4 else (3 if isinstance(v, float) else 0))
        tab.append([tid, [0, n, int(kind == 0 and v == -1), kind, n] if len(p.n) == 1 else [9]])
    run.compare("gen_ser_consts", [[]], [[S.MAX_BYTES_LENGTH, S.MAX_ARRAY_LENGTH, tab]], M.call_many("gen_ser_consts", [[]]))
    # container writers up to the element loop: a container that claims n elements and yields none
    class FList(list):
        def __init__(self, n):
            list.__init__(self); self.n = n

        def __len__(self):
            return self.n

    class FSet(set):
        def __init__(self, n):
            set.__init__(self); self.n = n

        def __len__(self):
            return self.n

    class FDict(dict):
        def __init__(self, n):
            dict.__init__(self); self.n = n

        def __len__(self):
            return self.n
    ns = [0, 1, 2, 127, 128, 255, 256, 32767, 32768, 2 ** 14 - 1, 2 ** 14, 2 ** 14 + 1, 2 ** 20, 2 ** 31, 2 ** 62] + [r.randrange(0, 20000) for _ in range(30)]
    hcases = [[k, n] for k in (0, 1, 2) for n in ns]
    hi = [wr([S.serialize_seq, S.serialize_set, S.serialize_map][k], [FList, FSet, FDict][k](n)) for k, n in hcases]
    run.compare("gen_ser_headers", hcases, hi, M.call_many("gen_ser_headers", hcases))
    # decoder length guards: a stream that holds an encoded length (int / bool / None / str) and nothing else
    decs = [S.deserialize_string, S.deserialize_bytes, S.deserialize_map, S.deserialize_seq, S.deserialize_set]
    lens = [0, 1, -1, -5, 2 ** 14 - 1, 2 ** 14, 2 ** 14 + 1, 2 ** 20 - 1, 2 ** 20, 2 ** 20 + 1, 2 ** 40, -2 ** 40, True, False, None, "7"]
    lens += [r.randrange(-10, 2 ** 21) for _ in range(20)]
    gcases, gi, gm = [], [], []
    for k in range(5):
        for L in lens:
            s = io.BytesIO()
            S.serialize_value(s, L)
            s.seek(0)
            try:
                decs[k](s)
                got = "passed"
            except TypeError:
                got = [1, lib.ERR["TypeError"]]
            except ValueError as ex:
                got = [1, lib.ERR["ValueError"]] if "too large" in str(ex) or "length" in str(ex) else "passed"
            except Exception:       # noqa: a failure AFTER the guard (no elements in the stream)
                got = "passed"
            is_int = isinstance(L, int)
            gcases.append([k, L if isinstance(L, (int, bool)) else repr(L)])
            gi.append(got)
            gm.append([k, 1 if is_int else 0, int(L) if is_int else 0])
    gmod = ["passed" if m[0] == 0 else m for m in M.call_many("gen_ser_guard", gm)]
    run.compare("gen_ser_guard", gcases, gi, gmod)
    uc = []
    for code, ch in enumerate("BbHhLlQq?"):
        sz = struct.calcsize(">" + ch)
        for _ in range(120 if run.thorough() else 30):
            uc.append([code, bytes(r.choice([0, 0x7f, 0x80, 0xff, r.getrandbits(8)]) for _ in range(sz))])
        uc.append([code, bytes(sz + 1)]); uc.append([code, bytes(max(0, sz - 1))])
    ui = [lib.guarded(lambda: int(struct.unpack(">" + "BbHhLlQq?"[c[0]], c[1])[0])) for c in uc]
    run.compare("gen_ser_unpack", uc, ui, M.call_many("gen_ser_unpack", uc))


def impl_trip(v, reg, rest=b""):
    """encode then decode on the implementation: ([0,[shape, left]] | [1,code]) ; None when encode fails"""
    e = impl_encode(v)
    if e[0] != 0:
        return None
    r, reads = SL.impl_decode(e[1] + rest, reg)
    return r


def wire_of(v):
    return SL.to_wire(v)


# ------------------------------------------------------------------ the run

def run(run):
    SL.raise_stack_limit()
    M = run.model
    r = run.rng
    reg = SL.py_registry(hello=False)
    regw = SL.wire_registry(reg)
    T = run.thorough()
    import time
    t_last = [time.time()]

    def lap(name):
        now = time.time()
        run.notes.append("phase %s: %.1f s" % (name, now - t_last[0]))
        t_last[0] = now

    # ---------------- values
    n_rand = 40000 if T else 2500
    vals = boundary_values(run)
    run.count("boundary_values", len(vals))
    for _ in range(n_rand):
        vals.append(gen_value2(r, r.choice([1, 2, 3, 3, 4])))
    run.count("random_values", n_rand)
    n_bad = 6000 if T else 500
    bads = [SL.wrap_bad(r, SL.gen_bad_leaf(r), 3) for _ in range(n_bad)]
    run.count("refused_values", n_bad)
    n_d18 = 600 if T else 80
    d18 = [w() for w in D18_WITNESSES] + [gen_d18(r) for _ in range(n_d18)]
    run.count("tuple_key_values", len(d18))
    allv = vals + bads + d18

    # ---------------- correspondence: ser_enc
    encs = [impl_encode(v) for v in allv]
    mod = M.call_many("ser_enc", [[regw, wire_of(v)] for v in allv])
    run.compare("ser_enc", allv, encs, mod, describe=lambda v: srepr(v)[:300])
    for v, e in zip(allv, encs):
        run.count("enc_ok" if e[0] == 0 else "enc_refused_%d" % e[1])
        if nontrivial_key(v) or e[0] != 0:
            run.nt(("enc", repr(shape(v))[:400] if e[0] == 0 else srepr(v)[:200]))
    run.sample({"unit": "ser_enc", "value": srepr(allv[len(vals) - 1])[:200], "impl": lib.jsonable(encs[len(vals) - 1])})

    lap('enc')
    # ---------------- correspondence: ser_dec on the encodings followed by random trailing bytes
    okv = [(v, e[1]) for v, e in zip(allv, encs) if e[0] == 0]
    rests = [bytes(r.getrandbits(8) for _ in range(r.choice([0, 0, 1, 2, 7, 40]))) for _ in okv]
    dec_i, dec_m_args = [], []
    for (v, b), rest in zip(okv, rests):
        ri, reads = SL.impl_decode(b + rest, reg)
        dec_i.append([ri, reads])
        dec_m_args.append([regw, [], SL.BIG_FRAMES, b + rest])
    dec_m = []
    for m in M.call_many("ser_dec", dec_m_args):
        rm, reads, nval = SL.canon_model_dec(m)
        dec_m.append([rm, reads])
    run.compare("ser_dec", [(srepr(v)[:200], b[:64], rest) for (v, b), rest in zip(okv, rests)], dec_i, dec_m)
    run.sample({"unit": "ser_dec", "value": srepr(okv[-1][0])[:200], "bytes": okv[-1][1][:48].hex(), "impl": lib.jsonable(dec_i[-1])})

    lap('dec')
    # ---------------- correspondence: ser_norm (model's normal form == what the implementation returns)
    nm = M.call_many("ser_norm", [[wire_of(v)] for v, _ in okv])
    impl_n, mod_n = [], []
    for (v, b), rest, di, n in zip(okv, rests, dec_i, nm):
        if di[0][0] == 0:
            impl_n.append([0, di[0][1][0]])
        else:
            impl_n.append([1, di[0][1]])
        mod_n.append([0, SL.canon(n[1])] if n[0] == 0 else [1, n[1]])
    run.compare("ser_norm", [srepr(v)[:200] for v, _ in okv], impl_n, mod_n)

    lap('norm')
    # ---------------- correspondence: concatenated streams, value after value from one stream
    n_cat = 1500 if T else 150
    cat_cases, cat_i, cat_margs = [], [], []
    pool = [i for i, (v, b) in enumerate(okv) if len(b) < 4000 and dec_i[i][0][0] == 0]
    for _ in range(n_cat):
        idx = [r.choice(pool) for _ in range(r.choice([2, 2, 3, 4, 6]))]
        blob = b"".join(okv[i][1] for i in idx)
        st = SL.CountingStream(blob)
        got = []
        for i in idx:
            try:
                x = SL.S.deserialize_value(st, registry=reg)
                got.append([0, [shape(x), len(blob) - st.tell()]])
            except Exception as e:      # noqa
                got.append([1, SL.exc_code(e)])
                break
        cat_cases.append(idx)
        cat_i.append(got)
        off = 0
        for i in idx:
            cat_margs.append([regw, [], SL.BIG_FRAMES, blob[off:]])
            off += len(okv[i][1])
    flat = M.call_many("ser_dec", cat_margs)
    pos = 0
    cat_m = []
    for idx in cat_cases:
        out = []
        for _ in idx:
            rm, reads, nval = SL.canon_model_dec(flat[pos])
            pos += 1
            out.append(rm)
        cat_m.append(out)
    run.compare("ser_dec_concat", cat_cases, cat_i, cat_m)
    run.count("concatenated_streams", n_cat)

    lap('concat')
    # ---------------- correspondence: frames — the premise `need v <= fuel` of the theorems
    # (decode with exactly need(v) Python frames succeeds, with one frame less it is RecursionError)
    fr_cases, fr_i, fr_margs = [], [], []
    small = [i for i, (v, b) in enumerate(okv) if len(b) < 600 and dec_i[i][0][0] == 0]
    for i in (small if T else r.sample(small, min(len(small), 400))):
        v, b = okv[i]
        n = need_py(v)
        for frames in (n, n - 1):
            ri, reads = SL.impl_decode(b, reg, frames=frames)
            fr_cases.append((srepr(v)[:120], frames - n))
            fr_i.append(ri)
            fr_margs.append([regw, [], frames, b])
            if frames == n and ri[0] != 0:
                run.oracle_violation("decode-fails-with-need-frames", {"value": srepr(v)[:300], "frames": n, "error": ri[1]},
                                     "deserialize_value")
            if frames == n - 1 and ri != [1, 8]:
                run.notes.append("need is not tight for %s" % srepr(v)[:80])
    fr_m = [SL.canon_model_dec(m)[0] for m in M.call_many("ser_dec", fr_margs)]
    run.compare("ser_dec_frames", fr_cases, fr_i, fr_m)
    lap("frames")

    # ---------------- correspondence: kernels (ints, utf-8, float32)
    ints = list(SL.INT_EDGES) + [SL.gen_int(r, wide=True) for _ in range(20000 if T else 2000)]
    if T:
        ints += list(range(-70000, 70001)) + [s * (2 ** k) + d for k in (31, 32, 63, 64) for s in (1, -1) for d in range(-300, 301)]
        run.exhaustive.append("serialize_int: every integer in [-70000, 70000] and +-300 around 2^31, 2^32, 2^63, 2^64")
    run.compare("ser_int", ints, [impl_encode(z) for z in ints], M.call_many("ser_int", [[z] for z in ints]))
    generated_kernels(run, ints)

    ucases = utf8_cases(run)
    ui = []
    for b, cps in ucases:
        d = SL.guarded(lambda: [ord(c) for c in b.decode("utf-8")])
        e = SL.guarded(lambda: "".join(chr(c) for c in cps).encode("utf-8"))
        ui.append([[0, d[1]] if d[0] == 0 else [1], [0, e[1]] if e[0] == 0 else [1]])
    um = M.call_many("ser_utf8", [[b, cps] for b, cps in ucases])
    run.compare("ser_utf8", ucases, ui, um)

    fcases = f32_cases(run)
    fi = []
    for b64, b32 in fcases:
        p = SL.guarded(lambda: struct.unpack(">L", struct.pack(">f", SL.bits2f(b64)))[0])
        u = SL.f2bits(struct.unpack(">f", struct.pack(">L", b32))[0])
        fi.append([p, u])
    run.compare("ser_f32", fcases, fi, M.call_many("ser_f32", [[a, b] for a, b in fcases]))

    lap('kernels')
    # cap-sized hash containers are too slow for the (quadratic) model in the quick tier: oracle only
    extra = [] if T else [set(range(MAXA)), {i: None for i in range(MAXA)}, set(range(MAXA - 1)), {str(i): i for i in range(MAXA)}]
    run._lap = lap
    oracle(run, reg, vals + extra, bads, d18)
    SL.registry_unit(run, 400 if run.thorough() else 80)
    run.rules.append(RULE)


def utf8_cases(run):
    r = run.rng
    T = run.thorough()
    cases = []
    cps = list(SL.CP_EDGES) + SL.SURROGATES + [0x110000, 0x10FFFF + 2]
    if T:
        cps = list(range(0, 0x110002))
        run.exhaustive.append("utf-8 encode: every code point 0..0x110001 (surrogates and out-of-range included)")
    else:
        cps += list(range(0, 0x900)) + list(range(0xD700, 0xE100)) + list(range(0xFF00, 0x10100)) + [r.randrange(0, 0x110000) for _ in range(3000)]
    for c in cps:
        if c < 0x110000:
            try:
                b = chr(c).encode("utf-8")
            except UnicodeEncodeError:
                b = chr(c).encode("utf-8", "surrogatepass")
        else:
            b = b"\xf4\x90\x80\x80"
        cases.append((b, [c]))
    # all 2-byte strings; 3-byte strings with every lead byte >= 0xC0 and boundary continuation bytes
    two = range(256) if T else [0, 0x41, 0x7F, 0x80, 0xBF, 0xC0, 0xC1, 0xC2, 0xDF, 0xE0, 0xED, 0xEF, 0xF0, 0xF4, 0xF5, 0xFF]
    for a in two:
        for b in range(256):
            cases.append((bytes([a, b]), []))
    if T:
        run.exhaustive.append("utf-8 decode: every 1- and 2-byte string")
    cont = [0x00, 0x7F, 0x80, 0x8F, 0x90, 0x9F, 0xA0, 0xBF, 0xC0, 0xFF]
    for a in range(0xC0, 0x100):
        for b in cont:
            for c in cont:
                cases.append((bytes([a, b, c]), []))
                if a >= 0xF0:
                    for d in (0x7F, 0x80, 0xBF, 0xC0):
                        cases.append((bytes([a, b, c, d]), []))
    for a in range(256):
        cases.append((bytes([a]), []))
    for _ in range(20000 if T else 2000):
        s = SL.gen_str(r, allow_bad=True)
        try:
            b = s.encode("utf-8")
        except UnicodeEncodeError:
            b = s.encode("utf-8", "surrogatepass")
        if r.random() < 0.4 and b:
            bb = bytearray(b)
            i = r.randrange(len(bb))
            c = r.random()
            if c < 0.4:
                bb[i] ^= 1 << r.randrange(8)
            elif c < 0.7:
                del bb[i]
            else:
                bb = bb[:i]
            b = bytes(bb)
        cases.append((b, [ord(c) for c in s]))
    return cases


def f32_cases(run):
    r = run.rng
    cases = [(b, b & 0xFFFFFFFF) for b in SL.FLOAT_BITS_EDGES]
    e32 = [0, 1, 0x007FFFFF, 0x00800000, 0x3F800000, 0x7F7FFFFF, 0x7F800000, 0x7F800001, 0x7FC00000, 0x7FFFFFFF, 0x7FA00000]
    cases += [(0, w | s) for w in e32 for s in (0, 0x80000000)]
    for _ in range(60000 if run.thorough() else 6000):
        c = r.random()
        if c < 0.4:
            e = r.randrange(1023 - 152, 1023 + 130)
            b = (r.getrandbits(1) << 63) | (e << 52) | r.getrandbits(52)
        elif c < 0.6:
            # exact ties and their neighbours: float32 mantissa, then the 29 dropped bits around 1<<28
            e = r.randrange(1023 - 150, 1023 + 128)
            hi = r.getrandbits(23)
            lo = (1 << 28) + r.choice([-1, 0, 1])
            b = (r.getrandbits(1) << 63) | (e << 52) | (hi << 29) | lo
        elif c < 0.7:
            b = (r.getrandbits(1) << 63) | (0x7FF << 52) | r.choice([0, 1, 1 << 51, 1 << 28, 1 << 29, r.getrandbits(52)])
        else:
            b = r.getrandbits(64)
        cases.append((b, r.getrandbits(32)))
    return cases


# ------------------------------------------------------------------ oracle

def oracle(run, reg, vals, bads, d18):
    """the property on the implementation alone"""
    r = run.rng
    S = SL.S
    state0 = SL.process_state()

    def enc(v):
        st = io.BytesIO()
        S.serialize_value(st, v)
        return st.getvalue()

    def dec_all(blob, k):
        st = io.BytesIO(blob)
        out = [S.deserialize_value(st, registry=reg) for _ in range(k)]
        return out, st.tell()

    done = set()

    def report(what, case, site):
        key = (what, site)
        if key in done:
            return
        done.add(key)
        run.oracle_violation(what, case, site)

    good = []
    fp0 = SL.table_fingerprint()

    def state_unchanged(v, api):
        if SL.table_fingerprint() != fp0:
            d = SL.state_diff(state0, SL.process_state())
            report("process-state-changed", {"api": api, "value": srepr(v)[:300], "changed": d[:6]}, "serializable.py:" + api)
            raise RuntimeError("process-level serializer state changed by %s of %s; later results would be meaningless" % (api, srepr(v)[:200]))
    for v in vals:
        run.evaluations += 1
        dom = in_domain(v)
        try:
            b = enc(v)
        except Exception as e:      # noqa
            if dom:
                report("encode-refuses-domain-value", {"value": srepr(v)[:300], "error": type(e).__name__}, "serialize_value")
            continue
        if not dom:
            report("encode-accepts-value-outside-domain", {"value": srepr(v)[:300], "bytes": b[:64].hex()}, "serialize_value")
            continue
        try:
            want = shape(norm_py(v))
        except NotInDomain:
            continue
        rest = bytes(r.getrandbits(8) for _ in range(r.choice([0, 1, 5])))
        try:
            (x,), pos = dec_all(b + rest, 1)
        except Exception as e:      # noqa
            report("decode-raises", {"value": srepr(v)[:300], "error": type(e).__name__, "cls": "plain"}, "deserialize_value")
            continue
        state_unchanged(v, "serialize_value/deserialize_value")
        if shape(x) != want:
            report("roundtrip-differs", {"value": srepr(v)[:300], "decoded": srepr(x)[:300]}, "deserialize_value")
        elif pos != len(b):
            report("consumes-wrong-length", {"value": srepr(v)[:300], "encoded": len(b), "consumed": pos}, "deserialize_value")
        else:
            if len(b) < 3000:
                good.append((v, b, want))
    # dumpb / loadb (the public entry points) on objects
    for v, b, want in good:
        if isinstance(v, SL.Serializable):
            run.evaluations += 1
            if v.dumpb() != b or shape(S.Serializable.loadb(b, registry=reg)) != want:
                report("dumpb-loadb-differs", {"value": srepr(v)[:300]}, "Serializable.dumpb/loadb")
    # concatenations decode one after another
    for _ in range(3000 if run.thorough() else 300):
        pick = [r.choice(good) for _ in range(r.choice([2, 3, 5, 8]))]
        blob = b"".join(p[1] for p in pick)
        run.evaluations += 1
        try:
            xs, pos = dec_all(blob, len(pick))
        except Exception as e:      # noqa
            report("concat-decode-raises", {"values": [srepr(p[0])[:100] for p in pick], "error": type(e).__name__}, "deserialize_value")
            continue
        if [shape(x) for x in xs] != [p[2] for p in pick] or pos != len(blob):
            report("concat-differs", {"values": [srepr(p[0])[:100] for p in pick], "consumed": pos, "total": len(blob)}, "deserialize_value")
        run.nt(("cat", tuple(p[1][:40] for p in pick)))
    # refusals: an exception, and nothing comes out of dumpb
    for v in bads:
        run.evaluations += 1
        if in_domain(v):
            continue
        try:
            b = enc(v)
            report("encode-accepts-value-outside-domain", {"value": srepr(v)[:300], "bytes": b[:64].hex()}, "serialize_value")
        except Exception:           # noqa
            pass
        st = io.BytesIO()
        try:
            S.serialize_value(st, v)
        except Exception:           # noqa
            if st.tell() > 0:
                run.count("refused_after_partial_write_to_stream")
        o = SL.VfHigh()
        o.v = v
        out = None
        try:
            out = o.dumpb()
        except Exception:           # noqa
            pass
        if out is not None:
            report("dumpb-returns-bytes-for-refused-value", {"value": srepr(v)[:300], "bytes": out[:64].hex()}, "Serializable.dumpb")
        state_unchanged(v, "serialize_value (refused value)")
    # D18 class: hashable before the trip, a list (unhashable) after it
    for v in d18:
        run.evaluations += 1
        if not SL.key_with_tuple(v):
            continue
        try:
            b = enc(v)
        except Exception as e:      # noqa
            report("encode-refuses-domain-value", {"value": srepr(v)[:300], "error": type(e).__name__}, "serialize_value")
            continue
        try:
            dec_all(b, 1)
            ok = True
        except Exception as e:      # noqa
            ok = False
            err = type(e).__name__
        if not ok:
            report("decode-raises", {"value": srepr(v)[:300], "error": err, "cls": "tuple-in-key"},
                   "deserialize_map/deserialize_set")
    run.sample({"oracle": "roundtrip", "value": srepr(good[-1][0])[:200], "encoded_len": len(good[-1][1])})
    # nothing process-wide changed while all of the above was encoded, decoded and refused
    d = SL.state_diff(state0, SL.process_state())
    if d:
        report("process-state-changed", {"api": "serialize_value/deserialize_value/dumpb/loadb (all oracle phases)", "changed": d[:6]},
               "serializable.py")
    lap = getattr(run, "_lap", lambda name: None)
    lap("oracle")
    api_oracle(run, good)
    lap("oracle-entry-points")
    persist_oracle(run, good)
    lap("oracle-persistent")
    persist_units(run, good)
    lap("persist-units")


# ------------------------------------------------------------------ oracle, part 2: every public entry point of the
# binary serializer, the default (process-wide) tables, and the process-level state
#
# Public encode/decode API of serializable.py and where this file exercises it:
#   serialize_value / deserialize_value(registry=...)          oracle() above + units ser_enc / ser_dec
#   deserialize_value / Serializable.loadb WITHOUT registry=   api_oracle: default-tables trip (the way applications call it)
#   Serializable.dumpb / loadb (bytes and stream)              oracle() + api_oracle
#   Serializable.serialize_header / serialize / deserialize    api_oracle (called directly)
#   Serializable.dumpz / loadz (gzip framing)                  api_oracle
#   Serializable.store_persistant / load_persistant,
#   serialize_registry / deserialize_registry                  persist_oracle (also under OTHER id assignments)
#   SerializableEnum: ==, !=, hash, name(), repr after a trip   api_oracle
#   SerializableType.setRootId, class statements               unit reg_ops (serlib.registry_unit)
#   Serializable.dumps / loads / toJson / fromJson             property C15
# Process-level state read by all of them (SerializableType.registry / names / next_type_id / custom_id,
# SerializableEnumType._enums, serialize_types / deserialize_types, the size caps, each class's type_id / _fields /
# class-level defaults / enum member tables): must be exactly what it was after ANY encode or decode.

def mk_header(pairs):
    """a stored registry written independently of serialize_registry: count, then (type id, class name) as base values"""
    st = io.BytesIO()
    SL.S.serialize_value(st, len(pairs))
    for t, n in pairs:
        SL.S.serialize_value(st, t)
        SL.S.serialize_value(st, n)
    return st.getvalue()


class _Reporter:
    def __init__(self, run):
        self.run = run
        self.done = set()

    def __call__(self, what, case, site):
        key = (what, site)
        if key in self.done:
            return
        self.done.add(key)
        self.run.oracle_violation(what, case, site)


def state_clause(report, guard, api, v, extra=None):
    """the process-level state is what it was when `guard` was entered; otherwise report and put it back"""
    d = guard.diff()
    if d:
        case = {"api": api, "value": srepr(v)[:300], "changed": d[:6]}
        case.update(extra or {})
        report("process-state-changed", case, "serializable.py:" + api)
        guard.restore()
        return False
    return True


def api_oracle(run, good):
    """default-tables trips and the rarely used entry points, on values the registry= trip already handled"""
    r = run.rng
    S = SL.S
    report = _Reporter(run)
    fp0 = SL.table_fingerprint()
    with SL.StateGuard() as guard:
        items = good if run.thorough() else (good if len(good) <= 1500 else r.sample(good, 1500))
        for v, b, want in items:
            run.evaluations += 1
            rest = bytes(r.getrandbits(8) for _ in range(r.choice([0, 3])))
            # the process-wide tables (no registry=): what an application does
            st = io.BytesIO(b + rest)
            try:
                x = S.deserialize_value(st)
                if shape(x) != want or st.tell() != len(b):
                    report("default-tables-roundtrip-differs", {"value": srepr(v)[:300], "decoded": srepr(x)[:300],
                                                                "consumed": st.tell(), "encoded": len(b)}, "deserialize_value")
            except Exception as e:      # noqa
                report("decode-raises", {"value": srepr(v)[:300], "error": type(e).__name__, "cls": "default-tables"}, "deserialize_value")
                x = None
            if isinstance(v, SL.SerializableEnum) and x is not None:
                try:
                    ok = (x == v) and not (x != v) and hash(x) == hash(v) and x.name() == v.name() and repr(x) == repr(v) \
                        and type(x) is type(v) and (x <= v) and (x >= v) and not (x < v) and not (x > v) and bool(x) == bool(v)
                except Exception as e:  # noqa
                    ok = False
                if not ok:
                    report("enum-not-equal-after-trip", {"value": srepr(v)[:200], "decoded": srepr(x)[:200]}, "SerializableEnum")
            if isinstance(v, SL.Serializable):
                api = None
                try:
                    api = "loadb"
                    a = S.Serializable.loadb(b)
                    st = io.BytesIO(b + rest)
                    a2 = S.Serializable.loadb(st)
                    bad = shape(a) != want or shape(a2) != want or st.tell() != len(b) or type(a) is not type(v)
                    if not bad:
                        api = "serialize_header/serialize/deserialize"
                        st = io.BytesIO()
                        v.serialize_header(st)
                        v.serialize(st)
                        o = type(v)()
                        st2 = io.BytesIO(b[2:] + rest)
                        o2 = o.deserialize(st2)
                        bad = st.getvalue() != b or o2 is not o or shape(o) != want or st2.tell() != len(b) - 2
                    if not bad:
                        api = "__init__(**fields)/dumpb"
                        bad = type(v)(**{f: getattr(v, f) for f in v._fields}).dumpb() != b
                    if not bad and len(b) < 600:
                        api = "dumpz/loadz"
                        z = v.dumpz()
                        bad = shape(S.Serializable.loadz(z)) != want or shape(S.Serializable.loadz(io.BytesIO(z))) != want
                        run.count("gzip_trips")
                    if bad:
                        report("entry-point-roundtrip-differs", {"api": api, "value": srepr(v)[:300]}, "Serializable." + api)
                except Exception as e:  # noqa
                    report("entry-point-raises", {"api": api, "value": srepr(v)[:300], "error": type(e).__name__}, "Serializable.%s" % api)
            if SL.table_fingerprint() != fp0:
                state_clause(report, guard, "encode/decode entry points", v)
        state_clause(report, guard, "encode/decode entry points (whole phase)", None)
    run.count("default_table_trips", len(items))


def persist_oracle(run, good):
    """store_persistant / load_persistant / serialize_registry / deserialize_registry.
    The stored stream carries the writer's id -> class-name table; the reader may live under ANOTHER id assignment
    (classes defined in another order / another version).  Claims, from the property text: the object comes back equal,
    exactly the record's bytes are consumed (records concatenate), and — decoding being a function of the bytes —
    nothing process-wide changes: afterwards the ordinary dumpb/loadb trips of the very same classes still hold."""
    r = run.rng
    S = SL.S
    T = S.SerializableType
    report = _Reporter(run)
    site = "Serializable.store_persistant/load_persistant"
    objs = [g for g in good if isinstance(g[0], SL.Serializable) and len(g[1]) < 1500]
    others = [g for g in good if not isinstance(g[0], SL.Serializable) and len(g[1]) < 600]
    n = 4000 if run.thorough() else 800
    prev = None
    for i in range(n):
        run.evaluations += 1
        if i % 3 == 2 and others:
            inner, _, _ = r.choice(others)
            v = SL.VfHigh()
            v.v = inner
        else:
            v = r.choice(objs)[0]
        try:
            want = shape(norm_py(v))
        except NotInDomain:
            continue
        used = sorted(SL.ids_in(v))
        kind, mapping = SL.gen_id_assignment(r, used)
        if i < 4:
            # fixed cases: the two classes of a nested value change places / a class takes the id of another one
            v = SL.VfBag()
            v.pt = SL.VfPoint()
            v.pt.x, v.pt.y = -129, 2 ** 31
            v.anyv = [SL.VfLow(), SL.VfColor(2), {SL.VfName("bee"): SL.VfPoint()}]
            want = shape(norm_py(v))
            used = sorted(SL.ids_in(v))
            a, b = [(SL.VfBag, SL.VfPoint), (SL.VfPoint, SL.VfLow), (SL.VfColor, SL.VfName), (SL.VfPoint, SL.VfMix)][i]
            kind, mapping = "swap-fixed", {a.type_id: b.type_id, b.type_id: a.type_id}
        moved = {T.registry[t].__name__: [t, mapping.get(t, t)] for t in used if mapping.get(t, t) != t}
        with SL.StateGuard() as guard:
            # ---- the writer's process
            with SL.IdAssignment(mapping):
                there = [(t, c.__name__) for t, c in T.registry.items()]
                werr = None
                try:
                    st = io.BytesIO()
                    v.store_persistant(st)
                    blob = st.getvalue()
                    st = io.BytesIO()
                    S.serialize_value(st, v)
                    body = st.getvalue()
                    st = io.BytesIO()
                    S.serialize_registry(st)
                    regbytes = st.getvalue()
                except Exception as e:      # noqa
                    werr = e
            case = {"value": srepr(v)[:300], "ids": kind, "moved": moved}
            if werr is not None:
                report("encode-refuses-domain-value", dict(case, error=type(werr).__name__), site)
                continue
            if not state_clause(report, guard, "store_persistant", v, {"ids": kind}):
                continue
            # the stored table, read back with plain value decodes: count, then (int id, str name) for every class
            st = io.BytesIO(blob)
            try:
                cnt = S.deserialize_value(st, registry={})
                pairs = [(S.deserialize_value(st, registry={}), S.deserialize_value(st, registry={})) for _ in range(cnt)]
                hdr_ok = pairs == there and all(type(t) is int and type(nm) is str for t, nm in pairs) \
                    and blob[st.tell():] == body and blob[:st.tell()] == regbytes
            except Exception:       # noqa
                hdr_ok = False
            if not hdr_ok:
                report("stored-registry-wrong", dict(case, blob=blob[:400]), "serialize_registry")
                continue
            # ---- the reader's process (this one): variants of the stored table
            variant = r.choice(["as-written", "as-written", "independent-header", "subset", "with-unknown-classes", "reordered"])
            if variant == "as-written":
                data = blob
            else:
                ps = list(there)
                if variant == "subset":
                    keep = set(mapping.get(t, t) for t in used)
                    ps = [p for p in ps if p[0] in keep or r.random() < 0.3]
                elif variant == "with-unknown-classes":
                    free = [t for t in r.sample(range(128, 65536), 8) if t not in dict(ps)]
                    for t in free[:3]:
                        ps.insert(r.randrange(len(ps) + 1), (t, "VfNoSuchClass%d" % t))
                elif variant == "reordered":
                    r.shuffle(ps)
                data = mk_header(ps) + body
            case = dict(case, stored_table=variant, stream=data if len(data) <= 4000 else data[:4000])
            rest = bytes(r.getrandbits(8) for _ in range(r.choice([0, 0, 2, 9])))
            try:
                x1 = S.Serializable.load_persistant(data)
                st = io.BytesIO(data + rest)
                x2 = S.Serializable.load_persistant(st)
                pos = st.tell()
            except Exception as e:      # noqa
                report("decode-raises", dict(case, error=type(e).__name__, cls="persistent"), site)
                state_clause(report, guard, "load_persistant", v, {"ids": kind, "moved": moved})
                continue
            if shape(x1) != want or shape(x2) != want:
                report("roundtrip-differs", dict(case, decoded=srepr(x1)[:300]), site)
            elif pos != len(data):
                report("consumes-wrong-length", dict(case, encoded=len(data), consumed=pos), site)
            elif prev is not None:
                # records concatenate: two stored records load one after another from one stream
                st = io.BytesIO(prev[0] + data)
                try:
                    y1 = S.Serializable.load_persistant(st)
                    y2 = S.Serializable.load_persistant(st)
                    if shape(y1) != prev[1] or shape(y2) != want or st.tell() != len(prev[0]) + len(data):
                        report("concat-differs", dict(case, consumed=st.tell(), total=len(prev[0]) + len(data)), site)
                except Exception as e:  # noqa
                    report("concat-decode-raises", dict(case, error=type(e).__name__), site)
            prev = (data, want)
            # ---- afterwards: the ordinary trips of the same classes, through the process-wide tables
            try:
                w = S.Serializable.loadb(v.dumpb())
                if shape(w) != want:
                    report("roundtrip-differs-after-load_persistant", dict(case, decoded=srepr(w)[:300]), "Serializable.dumpb/loadb")
            except Exception as e:      # noqa
                report("roundtrip-differs-after-load_persistant", dict(case, error=type(e).__name__), "Serializable.dumpb/loadb")
            state_clause(report, guard, "load_persistant", v, {"ids": kind, "moved": moved, "stored_table": variant,
                                                               "stream": data if len(data) <= 4000 else data[:4000]})
        run.count("persistent_%s" % kind)
        if moved:
            run.nt(("persist", kind, variant, tuple(sorted(moved)), srepr(v)[:200]))
    run.count("persistent_trips", n)


# ------------------------------------------------------------------ correspondence: the persistent format
# (coq/Model/Persist.v, units persist_load / persist_store)

def names_wire():
    return [[[ord(ch) for ch in n], int(c.type_id)] for n, c in SL.S.SerializableType.names.items()]


def impl_persist_load(data):
    """-> ([result, stream reads, registry after, names after], pktable)"""
    S = SL.S
    T = S.SerializableType
    st = SL.CountingStream(data)
    with SL.StateGuard(), SL.KeyOracle() as ko:
        try:
            x = S.Serializable.load_persistant(st)
            r = [0, [shape(x), len(data) - st.tell()]]
        except Exception as e:      # noqa
            r = [1, SL.exc_code(e)]
        reg_after = [[t if type(t) is int else repr(t), int(c.type_id)] for t, c in T.registry.items()]
        names_after = names_wire()
        pkw = ko.wire()
    return [r, st.reads, reg_after, names_after], pkw


def persist_streams(run, good):
    """[(label, bytes)]: stored records written by the REAL writer under other id assignments, with variants of the
    stored table, then truncated / bit-flipped / crafted ones"""
    r = run.rng
    S = SL.S
    T = S.SerializableType
    Tt = run.thorough()
    objs = [g[0] for g in good if isinstance(g[0], SL.Serializable) and len(g[1]) < 400]
    out = []
    valid = []
    for i in range(400 if Tt else 60):
        v = r.choice(objs)
        kind, mapping = SL.gen_id_assignment(r, sorted(SL.ids_in(v)))
        with SL.IdAssignment(mapping):
            there = [(t, c.__name__) for t, c in T.registry.items()]
            st = io.BytesIO()
            S.serialize_value(st, v)
            body = st.getvalue()
            st = io.BytesIO()
            v.store_persistant(st)
            blob = st.getvalue()
        variant = r.choice(["as-written", "subset", "unknown", "reordered", "duplicates"])
        ps = list(there)
        if variant == "subset":
            keep = set(mapping.get(t, t) for t in SL.ids_in(v))
            ps = [p for p in ps if p[0] in keep or r.random() < 0.3]
        elif variant == "unknown":
            for t in r.sample(range(128, 65536), 3):
                if t not in dict(ps):
                    ps.insert(r.randrange(len(ps) + 1), (t, r.choice(["VfNoSuchClass", "", "vfpoint", "VfPoint "])))
        elif variant == "reordered":
            r.shuffle(ps)
        elif variant == "duplicates":
            # the same id twice (the later entry wins), one class under two ids
            a, b = r.choice(ps), r.choice(ps)
            ps.insert(r.randrange(len(ps) + 1), (a[0], b[1]))
            ps.append((r.choice([131, 40000, 65535]), a[1]))
        data = blob if variant == "as-written" else mk_header(ps) + body
        out.append(("valid-%s-%s" % (kind, variant), data + bytes(r.getrandbits(8) for _ in range(r.choice([0, 0, 3])))))
        valid.append(data)
    # malformed: truncations and bit flips of stored records (header and body)
    for data in valid[: (12 if Tt else 3)]:
        step = 1 if Tt else 7
        out += [("trunc", data[:k]) for k in range(0, len(data), step)]
        pos = range(len(data)) if Tt else sorted(set(list(range(8)) + [r.randrange(len(data)) for _ in range(60)] + list(range(len(data) - 24, len(data)))))
        for i in pos:
            k = r.randrange(8)
            out.append(("flip", data[:i] + bytes([data[i] ^ (1 << k)]) + data[i + 1:]))
    # crafted tables
    H = struct.pack

    def val(x):
        st = io.BytesIO()
        S.serialize_value(st, x)
        return st.getvalue()
    P = SL.VfPoint
    body = P().dumpb()
    pid = val(P.type_id)
    counts = [val(n) for n in (0, 1, 2, 3, 2 ** 14 + 1, 2 ** 31, 2 ** 63 - 1, -1, -2 ** 63)] + \
        [b"\x00\x01\x01", b"\x00\x01\x00", b"\x00\x0f", H(">Hf", 11, 2.0), val("2"), val(b"\x02"), b"\x00\x10\x00\x03\x00", b"\x00\x08\x02", b""]
    ids = [pid, val(40000), val(0), val(3), val(-1), val(2 ** 40), b"\x00\x01\x01", H(">Hd", 12, float(P.type_id)), H(">Hf", 11, 300.0),
           H(">Hd", 12, 300.5), H(">Hd", 12, float("nan")), val(str(P.type_id)), b"\x00\x0f", b"\x00\x10\x00\x03\x00", val(b"ab"), P().dumpb(),
           b"\x00\x12\x00\x03\x00"]
    nms = [val("VfPoint"), val("VfColor"), val("VfBag"), val("NoSuchClass"), val(""), val(7), b"\x00\x0f", b"\x00\x10\x00\x03\x00", val(b"VfPoint"),
           H(">H", SL.VfName.type_id) + val("VfPoint"), H(">H", SL.VfName.type_id) + val("nope"), H(">H", SL.VfName.type_id) + val(5),
           b"\x00\x0d\x00\x03\x09VfPo", P().dumpb(), b"\x00\x11\x00\x03\x00"]
    for c in counts:
        for i in ids[:3] + r.sample(ids[3:], 3):
            for nm in nms[:2] + r.sample(nms[2:], 3):
                out.append(("crafted", c + (i + nm) * 2 + body))
    for i in ids:
        for nm in nms:
            out.append(("crafted", val(1) + i + nm + body))
            out.append(("crafted", val(2) + pid + val("VfPoint") + i + nm + body))
            # the body uses the id the entry declares (when it is one)
            out.append(("crafted", val(1) + i + nm + H(">H", 300) + b"\x00\x03\x01\x00\x03\x05"))
    return out


def persist_units(run, good):
    M = run.model
    r = run.rng
    S = SL.S
    T = S.SerializableType
    greg = dict(T.registry)
    gregw = SL.wire_registry(greg)
    namesw = names_wire()
    streams = persist_streams(run, good)
    impl, args = [], []
    for label, data in streams:
        res, pkw = impl_persist_load(data)
        impl.append(res)
        args.append([gregw, namesw, pkw, SL.BIG_FRAMES, data])
        run.count("persist_load_" + label.split("-")[0])
        if label.split("-")[0] != "valid" or "same" not in label:
            run.nt(("persist_load", data))
    mod = []
    ci, ii, mm = [], [], []
    for (label, data), a, m in zip(streams, impl, M.call_many("persist_load", args)):
        mr = m[0]
        if mr[0] == 0:
            mr = [0, [SL.canon(mr[1][0]), mr[1][1]]]
        if mr == [1, 9]:
            # Persist.v's explicit `outside the model` (a SerializableEnum member as a stored id)
            run.count("persist_load_excluded_outside_model")
            continue
        ci.append((label, data))
        ii.append(a)
        mm.append([mr, m[1], m[2], m[3]])
    run.compare("persist_load", ci, ii, mm, describe=lambda c: lib.jsonable({"kind": c[0], "len": len(c[1]), "stream": c[1][:1500]}))
    run.sample({"unit": "persist_load", "kind": streams[0][0], "stream": streams[0][1][:48].hex(), "impl": lib.jsonable(impl[0][0])[:2]})

    # the writer, in a process with another id assignment
    objs = [g[0] for g in good if isinstance(g[0], SL.Serializable) and len(g[1]) < 600]
    cases, si, sargs = [], [], []
    for i in range(600 if run.thorough() else 60):
        v = r.choice(objs)
        if i % 10 == 9:
            v = SL.VfHigh()
            v.v = SL.wrap_bad(r, SL.gen_bad_leaf(r), 1)
        kind, mapping = SL.gen_id_assignment(r, sorted(SL.ids_in(v)))
        with SL.StateGuard(), SL.IdAssignment(mapping):
            regw = SL.wire_registry(dict(T.registry))
            cn = [[int(t), [ord(ch) for ch in c.__name__]] for t, c in T.registry.items()]
            vw = wire_of(v)

            def f():
                st = io.BytesIO()
                v.store_persistant(st)
                return st.getvalue()
            si.append(SL.guarded(f))
        sargs.append([regw, cn, vw])
        cases.append((kind, srepr(v)[:200]))
        run.nt(("persist_store", kind, srepr(v)[:200]))
    run.compare("persist_store", cases, si, M.call_many("persist_store", sargs))
