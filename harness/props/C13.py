"""C13 — binary serializer: decode(encode(v)) == norm(v), exact consumption, refusals.

Correspondence units (coq/Extract/U_Ser.v): ser_enc (serialize_value: bytes or exception),
ser_dec (deserialize_value on a counting stream: value, bytes left, number of reads),
ser_norm (the value a trip is proved to return vs what the implementation actually returns),
ser_int (serialize_int), ser_utf8 (str.encode / bytes.decode('utf-8')), ser_f32 (struct '>f').
The registry of the Serializable / SerializableEnum test classes (harness/serlib.py) is handed to
the implementation as `registry=` and to the model as data.

Oracle: the property restated over the implementation only, with an independently written
normaliser (norm_py) and a structural comparison: encode succeeds on the domain,
decode(encode(v) + rest) == norm_py(v) with exactly len(rest) bytes left, k concatenated
encodings decode one after another from one stream, values outside the domain raise and
dumpb returns nothing.  Values whose dict keys / set elements contain a tuple are a separate,
labelled class (D18)."""
import io, struct, ctypes, itertools
from harness import lib
from harness import serlib as SL

RULE = ("recursive value generator over None/bool/int/float/str/bytes/list/tuple/dict/set/"
        "Serializable (10 classes)/SerializableEnum (3 classes), depth <= 4: every integer width boundary "
        "(2^7, 2^15, 2^31, 2^63 +-2, both signs) as value and as string/bytes/sequence length, NaN payloads, "
        "+-inf, +-0, subnormals of both formats, float32 rounding ties and the overflow threshold, empty and 1-4 "
        "byte UTF-8 code points at every length boundary, surrogates, size caps 2^14 / 2^20 +-1, random trailing "
        "bytes, concatenations of 2-6 encodings; separate refused stream (wide ints, overflowing floats, "
        "surrogates, unsupported types, illegal enum values, over-long containers, nested anywhere); "
        "non-trivial = value nests a container or class, or sits on a width / rounding / code-point boundary, "
        "or is refused")
ASSUMPTIONS = [
    "values are finite trees (no cyclic containers) nested less deeply than the interpreter's recursion limit "
    "(theorems: need v <= fuel)",
    "CPython hash collisions between unequal dict keys / set elements are not modelled (an enum key and a "
    "non-enum key with equal hashes make SerializableEnum.__eq__ raise); generators do not mix them",
    "C13_roundtrip assumes norm v = SOk nv: dict keys / set elements are hashable after a trip (no tuple inside a key: D18)",
]
TRUSTED = [
    "Flocq 4.1 (binary_normalize, bits_of_b32) for struct.pack('>f'): theorems about flocq_fc inherit the "
    "axioms printed by Print Assumptions",
    "CPython struct / utf-8 codec / dict and set semantics are the reference the model is compared with (sampled)",
]

MAXA, MAXB = SL.MAXA, SL.MAXB


# ------------------------------------------------------------------ independent reference (oracle side)

def f32(x):
    return struct.unpack(">f", struct.pack(">f", x))[0]


class NotInDomain(Exception):
    pass


def norm_py(v):
    """what a value is expected to look like after one trip (written without looking at the model)"""
    t = type(v)
    if v is None or t in (bool, int, str, bytes):
        return v
    if t is float:
        return f32(v)
    if t in (list, tuple):
        return [norm_py(x) for x in v]
    if t is dict:
        d = {}
        for k, x in v.items():
            nk = norm_py(k)
            try:
                d[nk] = norm_py(x)
            except TypeError:
                raise NotInDomain("key")
        return d
    if t is set:
        s = set()
        for x in v:
            nx = norm_py(x)
            try:
                s.add(nx)
            except TypeError:
                raise NotInDomain("element")
        return s
    if isinstance(v, SL.Serializable):
        o = type(v)()
        for f in v._fields:
            setattr(o, f, norm_py(getattr(v, f)))
        return o
    if isinstance(v, SL.SerializableEnum):
        e = type(v).__new__(type(v))
        e.value = norm_py(v.value)
        return e
    raise NotInDomain("type")


def srepr(v):
    try:
        return repr(v)
    except Exception:       # noqa  (an enum holding an illegal value has no repr)
        return "wire:" + repr(SL.to_wire(v))


def shape(v):
    """structural, type-exact, order-insensitive-for-sets form used to compare two python values"""
    return SL.canon(SL.to_wire(v))


def in_domain(v, depth=0):
    """the documented domain, decided syntactically"""
    t = type(v)
    if v is None or t is bool:
        return True
    if t is int:
        return -2 ** 63 <= v < 2 ** 63
    if t is float:
        return not SL.f32_overflows(SL.f2bits(v))
    if t is str:
        if any(0xD800 <= ord(c) <= 0xDFFF for c in v):
            return False
        return len(v.encode("utf-8")) <= MAXB
    if t is bytes:
        return len(v) <= MAXB
    if t in (list, tuple, set):
        return len(v) <= MAXA and all(in_domain(x) for x in v)
    if t is dict:
        return len(v) <= MAXA and all(in_domain(k) and in_domain(x) for k, x in v.items())
    if isinstance(v, SL.Serializable):
        return all(in_domain(getattr(v, f)) for f in v._fields)
    if isinstance(v, SL.SerializableEnum):
        try:
            return v.value in v._value2name and in_domain(v.value)
        except TypeError:
            return False
    return False


def need_py(v):
    """Python frames deserialize_value needs for the encoding of v (mirrors the theorem premise)"""
    t = type(v)
    if v is None:
        return 2
    if t in (bool, int, float):
        return 3
    if t in (str, bytes):
        return 5
    if t in (list, tuple, set):
        return 2 + max([3] + [need_py(x) for x in v])
    if t is dict:
        return 2 + max([3] + [max(need_py(k), need_py(x)) for k, x in v.items()])
    if isinstance(v, SL.Serializable):
        return 2 + max([3] + [need_py(getattr(v, f)) for f in v._fields])
    if isinstance(v, SL.SerializableEnum):
        return 2 + need_py(v.value)
    raise TypeError(v)


def nontrivial_key(v):
    t = type(v)
    if t in (list, tuple, dict, set) and len(v) > 0:
        return True
    if isinstance(v, (SL.Serializable, SL.SerializableEnum)):
        return True
    if t is int:
        a = abs(v)
        return any(abs(a - 2 ** k) <= 2 for k in (7, 15, 31, 63))
    if t is float:
        try:
            return v != f32(v) if v == v else True
        except OverflowError:
            return True
    if t is str:
        return any(ord(c) >= 0x80 for c in v)
    return False


# ------------------------------------------------------------------ generators

def gen_key2(r):
    """plain hashable key, floats not necessarily float32-exact (keys may merge after a trip)"""
    c = r.random()
    if c < 0.25:
        return SL.gen_float(r)
    if c < 0.35:
        return r.choice([0, 1, -1, 0.0, -0.0, 1.0, True, False, 1.0000000001, 0.9999999999, 2.0 ** 24 + 1, 16777216, 16777217])
    return SL.gen_key(r, 0, plain=True)


def gen_value2(r, depth):
    """serlib.gen_value plus: merging keys, objects in containers, deeper nesting"""
    c = r.random()
    if depth <= 0 or c < 0.55:
        return SL.gen_value(r, max(depth, 0))
    n = r.choice([0, 1, 2, 3, 4])
    if c < 0.65:
        return {gen_key2(r): gen_value2(r, depth - 1) for _ in range(n)}
    if c < 0.72:
        return set(gen_key2(r) for _ in range(n))
    if c < 0.82:
        return [gen_value2(r, depth - 1) for _ in range(n)]
    if c < 0.88:
        return tuple(gen_value2(r, depth - 1) for _ in range(n))
    if c < 0.94:
        o = r.choice(SL.OBJS)()
        for f in o._fields:
            if r.random() < 0.6:
                setattr(o, f, gen_value2(r, depth - 1))
        return o
    # objects as dict values / keys (hashable by identity), enums as values
    o = SL.gen_obj(r, 1)
    return r.choice([{o: SL.gen_scalar(r)}, {SL.gen_enum(r): o}, [o, o], {SL.gen_int(r): SL.gen_enum(r)}])


def str_of_len(r, nbytes):
    """a str whose UTF-8 encoding has exactly nbytes bytes, multi-byte where possible"""
    out = []
    left = nbytes
    while left > 0:
        k = r.choice([1, 1, 2, 3, 4])
        if k > left:
            k = left
        out.append({1: "a", 2: "é", 3: "中", 4: "\U0001f600"}[k])
        left -= k
    return "".join(out)


def boundary_values(run):
    r = run.rng
    vals = []
    vals += list(SL.INT_EDGES)
    vals += [SL.bits2f(b) for b in SL.FLOAT_BITS_EDGES]
    vals += [chr(c) for c in SL.CP_EDGES] + ["a" + chr(c) + "z" for c in SL.CP_EDGES] + [chr(c) for c in SL.SURROGATES]
    vals += ["", b"", [], (), {}, set(), None, True, False]
    lens = [0, 1, 2, 126, 127, 128, 129, 255, 256, 257, 32766, 32767, 32768, 32769, 65535, 65536]
    for n in lens:
        vals.append(b"\xa5" * n)
        vals.append(str_of_len(r, n))
    T = run.thorough()
    for n in [127, 128, 129, MAXA - 1, MAXA, MAXA + 1]:
        vals.append([None] * n)
        vals.append(tuple([True] * n))
        # the model's dict / set insertion is quadratic: cap-sized hash containers only in the thorough tier
        if n < 200 or n == MAXA + 1 or (T and n == MAXA):
            vals.append(set(range(n)))
            vals.append({i: None for i in range(n)})
    vals += [b"\x00" * MAXB, b"\x01" * (MAXB + 1), "a" * (MAXB + 1), "é" * (MAXB // 2 + 1)]
    if T:
        vals += ["a" * MAXB, "é" * (MAXB // 2)]
        for n in [32767, 32768, 2 ** 17 + 1, MAXB - 1]:
            vals.append(str_of_len(r, n))
    # every scalar edge once inside each container kind and class
    for x in [2 ** 7, -2 ** 7 - 1, 2 ** 15, -2 ** 15 - 1, 2 ** 31, -2 ** 31 - 1, 2 ** 63 - 1, -2 ** 63, float("nan"), float("inf"), -0.0, 1e-45, "\U0010ffff"]:
        o = SL.VfHigh()
        o.v = x
        vals += [[x], (x, x), {x: x}, {"k": x}, o]
        if x == x:
            vals.append({x})
    for cls in SL.ENUMS:
        for m in cls._value2name:
            vals.append(cls(m))
    for cls in SL.OBJS:
        vals.append(cls())
    return vals


D18_WITNESSES = [
    lambda: {(1, 2): 3},
    lambda: {(): None},
    lambda: {(1, (2, 3)): "x", 5: 6},
    lambda: {(1, 2)},
    lambda: {((), ("a",))},
    lambda: [{("k", 1): [1]}],
    lambda: {"outer": {(0,): 0}},
]


def gen_d18(r):
    base = r.choice(D18_WITNESSES)()
    c = r.random()
    if c < 0.3:
        return base
    if c < 0.5:
        return [SL.gen_scalar(r), base]
    if c < 0.7:
        o = SL.VfHigh()
        o.v = base
        return o
    k = tuple(SL.gen_key(r, 0, plain=True) for _ in range(r.choice([0, 1, 2, 3])))
    return r.choice([{k: SL.gen_scalar(r)}, {k}, {SL.gen_int(r): {k: None}}])


# ------------------------------------------------------------------ implementation runners

def impl_encode(v):
    return SL.impl_encode(v)


def impl_trip(v, reg, rest=b""):
    """encode then decode on the implementation: ([0,[shape, left]] | [1,code]) ; None when encode fails"""
    e = impl_encode(v)
    if e[0] != 0:
        return None
    r, reads = SL.impl_decode(e[1] + rest, reg)
    return r


def wire_of(v):
    return SL.to_wire(v)


# ------------------------------------------------------------------ the run

def run(run):
    SL.raise_stack_limit()
    M = run.model
    r = run.rng
    reg = SL.py_registry(hello=False)
    regw = SL.wire_registry(reg)
    T = run.thorough()
    import time
    t_last = [time.time()]

    def lap(name):
        now = time.time()
        run.notes.append("phase %s: %.1f s" % (name, now - t_last[0]))
        t_last[0] = now

    # ---------------- values
    n_rand = 40000 if T else 2500
    vals = boundary_values(run)
    run.count("boundary_values", len(vals))
    for _ in range(n_rand):
        vals.append(gen_value2(r, r.choice([1, 2, 3, 3, 4])))
    run.count("random_values", n_rand)
    n_bad = 6000 if T else 500
    bads = [SL.wrap_bad(r, SL.gen_bad_leaf(r), 3) for _ in range(n_bad)]
    run.count("refused_values", n_bad)
    n_d18 = 600 if T else 80
    d18 = [w() for w in D18_WITNESSES] + [gen_d18(r) for _ in range(n_d18)]
    run.count("tuple_key_values", len(d18))
    allv = vals + bads + d18

    # ---------------- correspondence: ser_enc
    encs = [impl_encode(v) for v in allv]
    mod = M.call_many("ser_enc", [[regw, wire_of(v)] for v in allv])
    run.compare("ser_enc", allv, encs, mod, describe=lambda v: srepr(v)[:300])
    for v, e in zip(allv, encs):
        run.count("enc_ok" if e[0] == 0 else "enc_refused_%d" % e[1])
        if nontrivial_key(v) or e[0] != 0:
            run.nt(("enc", repr(shape(v))[:400] if e[0] == 0 else srepr(v)[:200]))
    run.sample({"unit": "ser_enc", "value": srepr(allv[len(vals) - 1])[:200], "impl": lib.jsonable(encs[len(vals) - 1])})

    lap('enc')
    # ---------------- correspondence: ser_dec on the encodings followed by random trailing bytes
    okv = [(v, e[1]) for v, e in zip(allv, encs) if e[0] == 0]
    rests = [bytes(r.getrandbits(8) for _ in range(r.choice([0, 0, 1, 2, 7, 40]))) for _ in okv]
    dec_i, dec_m_args = [], []
    for (v, b), rest in zip(okv, rests):
        ri, reads = SL.impl_decode(b + rest, reg)
        dec_i.append([ri, reads])
        dec_m_args.append([regw, [], SL.BIG_FRAMES, b + rest])
    dec_m = []
    for m in M.call_many("ser_dec", dec_m_args):
        rm, reads, nval = SL.canon_model_dec(m)
        dec_m.append([rm, reads])
    run.compare("ser_dec", [(srepr(v)[:200], b[:64], rest) for (v, b), rest in zip(okv, rests)], dec_i, dec_m)
    run.sample({"unit": "ser_dec", "value": srepr(okv[-1][0])[:200], "bytes": okv[-1][1][:48].hex(), "impl": lib.jsonable(dec_i[-1])})

    lap('dec')
    # ---------------- correspondence: ser_norm (model's normal form == what the implementation returns)
    nm = M.call_many("ser_norm", [[wire_of(v)] for v, _ in okv])
    impl_n, mod_n = [], []
    for (v, b), rest, di, n in zip(okv, rests, dec_i, nm):
        if di[0][0] == 0:
            impl_n.append([0, di[0][1][0]])
        else:
            impl_n.append([1, di[0][1]])
        mod_n.append([0, SL.canon(n[1])] if n[0] == 0 else [1, n[1]])
    run.compare("ser_norm", [srepr(v)[:200] for v, _ in okv], impl_n, mod_n)

    lap('norm')
    # ---------------- correspondence: concatenated streams, value after value from one stream
    n_cat = 1500 if T else 150
    cat_cases, cat_i, cat_margs = [], [], []
    pool = [i for i, (v, b) in enumerate(okv) if len(b) < 4000 and dec_i[i][0][0] == 0]
    for _ in range(n_cat):
        idx = [r.choice(pool) for _ in range(r.choice([2, 2, 3, 4, 6]))]
        blob = b"".join(okv[i][1] for i in idx)
        st = SL.CountingStream(blob)
        got = []
        for i in idx:
            try:
                x = SL.S.deserialize_value(st, registry=reg)
                got.append([0, [shape(x), len(blob) - st.tell()]])
            except Exception as e:      # noqa
                got.append([1, SL.exc_code(e)])
                break
        cat_cases.append(idx)
        cat_i.append(got)
        off = 0
        for i in idx:
            cat_margs.append([regw, [], SL.BIG_FRAMES, blob[off:]])
            off += len(okv[i][1])
    flat = M.call_many("ser_dec", cat_margs)
    pos = 0
    cat_m = []
    for idx in cat_cases:
        out = []
        for _ in idx:
            rm, reads, nval = SL.canon_model_dec(flat[pos])
            pos += 1
            out.append(rm)
        cat_m.append(out)
    run.compare("ser_dec_concat", cat_cases, cat_i, cat_m)
    run.count("concatenated_streams", n_cat)

    lap('concat')
    # ---------------- correspondence: frames — the premise `need v <= fuel` of the theorems
    # (decode with exactly need(v) Python frames succeeds, with one frame less it is RecursionError)
    fr_cases, fr_i, fr_margs = [], [], []
    small = [i for i, (v, b) in enumerate(okv) if len(b) < 600 and dec_i[i][0][0] == 0]
    for i in (small if T else r.sample(small, min(len(small), 400))):
        v, b = okv[i]
        n = need_py(v)
        for frames in (n, n - 1):
            ri, reads = SL.impl_decode(b, reg, frames=frames)
            fr_cases.append((srepr(v)[:120], frames - n))
            fr_i.append(ri)
            fr_margs.append([regw, [], frames, b])
            if frames == n and ri[0] != 0:
                run.oracle_violation("decode-fails-with-need-frames", {"value": srepr(v)[:300], "frames": n, "error": ri[1]},
                                     "deserialize_value")
            if frames == n - 1 and ri != [1, 8]:
                run.notes.append("need is not tight for %s" % srepr(v)[:80])
    fr_m = [SL.canon_model_dec(m)[0] for m in M.call_many("ser_dec", fr_margs)]
    run.compare("ser_dec_frames", fr_cases, fr_i, fr_m)
    lap("frames")

    # ---------------- correspondence: kernels (ints, utf-8, float32)
    ints = list(SL.INT_EDGES) + [SL.gen_int(r, wide=True) for _ in range(20000 if T else 2000)]
    if T:
        ints += list(range(-70000, 70001)) + [s * (2 ** k) + d for k in (31, 32, 63, 64) for s in (1, -1) for d in range(-300, 301)]
        run.exhaustive.append("serialize_int: every integer in [-70000, 70000] and +-300 around 2^31, 2^32, 2^63, 2^64")
    run.compare("ser_int", ints, [impl_encode(z) for z in ints], M.call_many("ser_int", [[z] for z in ints]))

    ucases = utf8_cases(run)
    ui = []
    for b, cps in ucases:
        d = SL.guarded(lambda: [ord(c) for c in b.decode("utf-8")])
        e = SL.guarded(lambda: "".join(chr(c) for c in cps).encode("utf-8"))
        ui.append([[0, d[1]] if d[0] == 0 else [1], [0, e[1]] if e[0] == 0 else [1]])
    um = M.call_many("ser_utf8", [[b, cps] for b, cps in ucases])
    run.compare("ser_utf8", ucases, ui, um)

    fcases = f32_cases(run)
    fi = []
    for b64, b32 in fcases:
        p = SL.guarded(lambda: struct.unpack(">L", struct.pack(">f", SL.bits2f(b64)))[0])
        u = SL.f2bits(struct.unpack(">f", struct.pack(">L", b32))[0])
        fi.append([p, u])
    run.compare("ser_f32", fcases, fi, M.call_many("ser_f32", [[a, b] for a, b in fcases]))

    lap('kernels')
    # cap-sized hash containers are too slow for the (quadratic) model in the quick tier: oracle only
    extra = [] if T else [set(range(MAXA)), {i: None for i in range(MAXA)}, set(range(MAXA - 1)), {str(i): i for i in range(MAXA)}]
    oracle(run, reg, vals + extra, bads, d18)
    lap('oracle')
    SL.registry_unit(run, 400 if run.thorough() else 80)
    run.rules.append(RULE)


def utf8_cases(run):
    r = run.rng
    T = run.thorough()
    cases = []
    cps = list(SL.CP_EDGES) + SL.SURROGATES + [0x110000, 0x10FFFF + 2]
    if T:
        cps = list(range(0, 0x110002))
        run.exhaustive.append("utf-8 encode: every code point 0..0x110001 (surrogates and out-of-range included)")
    else:
        cps += list(range(0, 0x900)) + list(range(0xD700, 0xE100)) + list(range(0xFF00, 0x10100)) + [r.randrange(0, 0x110000) for _ in range(3000)]
    for c in cps:
        if c < 0x110000:
            try:
                b = chr(c).encode("utf-8")
            except UnicodeEncodeError:
                b = chr(c).encode("utf-8", "surrogatepass")
        else:
            b = b"\xf4\x90\x80\x80"
        cases.append((b, [c]))
    # all 2-byte strings; 3-byte strings with every lead byte >= 0xC0 and boundary continuation bytes
    two = range(256) if T else [0, 0x41, 0x7F, 0x80, 0xBF, 0xC0, 0xC1, 0xC2, 0xDF, 0xE0, 0xED, 0xEF, 0xF0, 0xF4, 0xF5, 0xFF]
    for a in two:
        for b in range(256):
            cases.append((bytes([a, b]), []))
    if T:
        run.exhaustive.append("utf-8 decode: every 1- and 2-byte string")
    cont = [0x00, 0x7F, 0x80, 0x8F, 0x90, 0x9F, 0xA0, 0xBF, 0xC0, 0xFF]
    for a in range(0xC0, 0x100):
        for b in cont:
            for c in cont:
                cases.append((bytes([a, b, c]), []))
                if a >= 0xF0:
                    for d in (0x7F, 0x80, 0xBF, 0xC0):
                        cases.append((bytes([a, b, c, d]), []))
    for a in range(256):
        cases.append((bytes([a]), []))
    for _ in range(20000 if T else 2000):
        s = SL.gen_str(r, allow_bad=True)
        try:
            b = s.encode("utf-8")
        except UnicodeEncodeError:
            b = s.encode("utf-8", "surrogatepass")
        if r.random() < 0.4 and b:
            bb = bytearray(b)
            i = r.randrange(len(bb))
            c = r.random()
            if c < 0.4:
                bb[i] ^= 1 << r.randrange(8)
            elif c < 0.7:
                del bb[i]
            else:
                bb = bb[:i]
            b = bytes(bb)
        cases.append((b, [ord(c) for c in s]))
    return cases


def f32_cases(run):
    r = run.rng
    cases = [(b, b & 0xFFFFFFFF) for b in SL.FLOAT_BITS_EDGES]
    e32 = [0, 1, 0x007FFFFF, 0x00800000, 0x3F800000, 0x7F7FFFFF, 0x7F800000, 0x7F800001, 0x7FC00000, 0x7FFFFFFF, 0x7FA00000]
    cases += [(0, w | s) for w in e32 for s in (0, 0x80000000)]
    for _ in range(60000 if run.thorough() else 6000):
        c = r.random()
        if c < 0.4:
            e = r.randrange(1023 - 152, 1023 + 130)
            b = (r.getrandbits(1) << 63) | (e << 52) | r.getrandbits(52)
        elif c < 0.6:
            # exact ties and their neighbours: float32 mantissa, then the 29 dropped bits around 1<<28
            e = r.randrange(1023 - 150, 1023 + 128)
            hi = r.getrandbits(23)
            lo = (1 << 28) + r.choice([-1, 0, 1])
            b = (r.getrandbits(1) << 63) | (e << 52) | (hi << 29) | lo
        elif c < 0.7:
            b = (r.getrandbits(1) << 63) | (0x7FF << 52) | r.choice([0, 1, 1 << 51, 1 << 28, 1 << 29, r.getrandbits(52)])
        else:
            b = r.getrandbits(64)
        cases.append((b, r.getrandbits(32)))
    return cases


# ------------------------------------------------------------------ oracle

def oracle(run, reg, vals, bads, d18):
    """the property on the implementation alone"""
    r = run.rng
    S = SL.S

    def enc(v):
        st = io.BytesIO()
        S.serialize_value(st, v)
        return st.getvalue()

    def dec_all(blob, k):
        st = io.BytesIO(blob)
        out = [S.deserialize_value(st, registry=reg) for _ in range(k)]
        return out, st.tell()

    done = set()

    def report(what, case, site):
        key = (what, site)
        if key in done:
            return
        done.add(key)
        run.oracle_violation(what, case, site)

    good = []
    for v in vals:
        run.evaluations += 1
        dom = in_domain(v)
        try:
            b = enc(v)
        except Exception as e:      # noqa
            if dom:
                report("encode-refuses-domain-value", {"value": srepr(v)[:300], "error": type(e).__name__}, "serialize_value")
            continue
        if not dom:
            report("encode-accepts-value-outside-domain", {"value": srepr(v)[:300], "bytes": b[:64].hex()}, "serialize_value")
            continue
        try:
            want = shape(norm_py(v))
        except NotInDomain:
            continue
        rest = bytes(r.getrandbits(8) for _ in range(r.choice([0, 1, 5])))
        try:
            (x,), pos = dec_all(b + rest, 1)
        except Exception as e:      # noqa
            report("decode-raises", {"value": srepr(v)[:300], "error": type(e).__name__, "cls": "plain"}, "deserialize_value")
            continue
        if shape(x) != want:
            report("roundtrip-differs", {"value": srepr(v)[:300], "decoded": srepr(x)[:300]}, "deserialize_value")
        elif pos != len(b):
            report("consumes-wrong-length", {"value": srepr(v)[:300], "encoded": len(b), "consumed": pos}, "deserialize_value")
        else:
            if len(b) < 3000:
                good.append((v, b, want))
    # dumpb / loadb (the public entry points) on objects
    for v, b, want in good:
        if isinstance(v, SL.Serializable):
            run.evaluations += 1
            if v.dumpb() != b or shape(S.Serializable.loadb(b, registry=reg)) != want:
                report("dumpb-loadb-differs", {"value": srepr(v)[:300]}, "Serializable.dumpb/loadb")
    # concatenations decode one after another
    for _ in range(3000 if run.thorough() else 300):
        pick = [r.choice(good) for _ in range(r.choice([2, 3, 5, 8]))]
        blob = b"".join(p[1] for p in pick)
        run.evaluations += 1
        try:
            xs, pos = dec_all(blob, len(pick))
        except Exception as e:      # noqa
            report("concat-decode-raises", {"values": [srepr(p[0])[:100] for p in pick], "error": type(e).__name__}, "deserialize_value")
            continue
        if [shape(x) for x in xs] != [p[2] for p in pick] or pos != len(blob):
            report("concat-differs", {"values": [srepr(p[0])[:100] for p in pick], "consumed": pos, "total": len(blob)}, "deserialize_value")
        run.nt(("cat", tuple(p[1][:40] for p in pick)))
    # refusals: an exception, and nothing comes out of dumpb
    for v in bads:
        run.evaluations += 1
        if in_domain(v):
            continue
        try:
            b = enc(v)
            report("encode-accepts-value-outside-domain", {"value": srepr(v)[:300], "bytes": b[:64].hex()}, "serialize_value")
        except Exception:           # noqa
            pass
        st = io.BytesIO()
        try:
            S.serialize_value(st, v)
        except Exception:           # noqa
            if st.tell() > 0:
                run.count("refused_after_partial_write_to_stream")
        o = SL.VfHigh()
        o.v = v
        out = None
        try:
            out = o.dumpb()
        except Exception:           # noqa
            pass
        if out is not None:
            report("dumpb-returns-bytes-for-refused-value", {"value": srepr(v)[:300], "bytes": out[:64].hex()}, "Serializable.dumpb")
    # D18 class: hashable before the trip, a list (unhashable) after it
    for v in d18:
        run.evaluations += 1
        if not SL.key_with_tuple(v):
            continue
        try:
            b = enc(v)
        except Exception as e:      # noqa
            report("encode-refuses-domain-value", {"value": srepr(v)[:300], "error": type(e).__name__}, "serialize_value")
            continue
        try:
            dec_all(b, 1)
            ok = True
        except Exception as e:      # noqa
            ok = False
            err = type(e).__name__
        if not ok:
            report("decode-raises", {"value": srepr(v)[:300], "error": err, "cls": "tuple-in-key"},
                   "deserialize_map/deserialize_set")
    run.sample({"oracle": "roundtrip", "value": srepr(good[-1][0])[:200], "encoded_len": len(good[-1][1])})
