"""C06 — fragmentation and reassembly preserve bytes; nothing is fabricated.

Correspondence: split (FragmentSender.build vs split_frags), send_one (ConnectionBase.send on a
connected endpoint: fragment messages / single APP / ValueError), frag_feed (_recvAppFragment +
FragmentReceiver vs recv_fragment AND vs the abstract per-id receiver of the theorems), conn_run
(both real endpoints of a simulated network, full private state after every event).
Oracle (implementation only): the fragments of every payload concatenate to it, are non-empty, fit
one datagram, count 2..MAX_FRAGMENTS; small payloads travel as one APP message; too large ->
ValueError, nothing queued; over a network with reordering / duplication / delay (and loss) the
multiset of payloads delivered to the application is a sub-multiset of the payloads sent, equal
to it when nothing is lost.
Object identity vs equality ("fresh" sessions): the application builds every payload right in the send call
(send(make(i)), UdpClient.send / send_guaranteed and the server-side send / send_guaranteed) and keeps nothing; the harness
keeps only sha256 + length (netsim.Net.send_fresh), so payload objects are freed as soon as the implementation lets go of
them and later payloads of the same length get the same address (counted: fresh_address_reused).  Runs of equal lengths,
two alternating lengths, equal lengths on both sides of the process (client and server connection share every class
attribute), three ways of building the object, a bytearray (must be refused or delivered intact); delivered digests are
compared with sent digests, and the histories are replayed on Conn.v with the payloads rebuilt from the generator."""
import struct, collections, hashlib
from harness import lib
from harness import connsim as S
from harness import packlib as P

RULE = ("split/send: every payload length within +-12 of k*MAX_FRAGMENT_SIZE and of k*MAX_FRAGMENT_SIZE + MAX_PAYLOAD_SIZE-6 "
        "(where the last fragment absorbs the remainder) for k <= 4, of MAX_PAYLOAD_SIZE, and of the fragment limit, "
        "for a sweep of MTUs (thorough: every 4th MTU + all of 1090..1102), random contents; "
        "receiver: random arrival histories (permuted, repeated, interleaved with 1-3 other fragment ids, short/garbled "
        "fragments, arrival times inside and beyond the expiry bound); network: several fragmented messages in flight in "
        "both directions under reorder/dup/delay/loss schedules; non-trivial = a length within 1 of a boundary, or a history "
        "with a repeated and an out-of-order fragment, or a schedule that reorders fragments of one message")
ASSUMPTIONS = [
    "no-expiry hypothesis `timely` of reassemble_any_order: while a reassembly context is open no fragment of any id arrives "
    "later than 1 s + 0.5 s x count after the context's first fragment (D17: without it the statement is refuted)",
    "duplicates of a message sequence number are dropped before _recvAppFragment (C04/C08); fragment ids in flight are distinct",
]
TRUSTED = ["harness/packlib.py decode_datagram"]

T = S.TICKS


# ------------------------------------------------------------------ implementation runners

class SmallLimit:
    """Packet.MAX_FRAGMENTS lowered (a configuration attribute) so that the fragment limit can be
    swept exhaustively with small payloads"""

    def __init__(self, n):
        self.n = n

    def __enter__(self):
        from mpgameserver.connection import Packet
        self.saved = Packet.MAX_FRAGMENTS
        if self.n is not None:
            Packet.MAX_FRAGMENTS = self.n

    def __exit__(self, *a):
        from mpgameserver.connection import Packet
        Packet.MAX_FRAGMENTS = self.saved


def impl_split(mtu, payload):
    """FragmentSender.build -> fragments (bytes after the 6-byte prefix), checked prefix fields"""
    from mpgameserver.connection import FragmentSender
    S.env_for_mtu(mtu)
    try:
        fs = FragmentSender(None, 77, 0, None)
        out = []
        for i, (pl, cb) in enumerate(fs.build(payload)):
            fid, idx, cnt = struct.unpack(">HHH", pl[:6])
            out.append((fid, idx, cnt, bytes(pl[6:])))
        return out
    finally:
        S.restore_mtu()


def impl_send_one(mtu, payload, retry, max_frags=None):
    """ConnectionBase.send on a connected endpoint: [outputs, [(type, payload)..], seq_fragment]"""
    from mpgameserver.connection import ConnectionBase, ConnectionStatus
    with SmallLimit(max_frags):
        env = S.env_for_mtu(mtu)
        try:
            c = ConnectionBase(False, ("h", 1))
            c.status = ConnectionStatus.CONNECTED
            outs = []
            try:
                c.send(payload, retry=retry)
            except Exception as e:   # noqa
                outs.append([3, lib.exc_code(e)])
            return env, [outs, [[m.type.value, bytes(m.payload)] for m in c.outgoing_messages], int(c.seq_fragment)]
        finally:
            S.restore_mtu()


def impl_feed(fid, frags, evs):
    """_recvAppFragment on a fresh connection under the virtual clock"""
    from mpgameserver.connection import ConnectionBase, SeqNum
    S.install_clock()
    c = ConnectionBase(False, ("h", 1))
    c.clock = S.CLOCK.time
    steps = []
    for ev in evs:
        S.CLOCK.t = ev[3]
        before = len(c.incoming_messages)
        if ev[0] == 0:
            frag = struct.pack(">HHH", fid, ev[1] + 1, len(frags)) + frags[ev[1]]
        else:
            frag = ev[1]
        try:
            c._recvAppFragment(SeqNum(ev[2]), frag)
        except struct.error:
            pass
        steps.append([[int(s), bytes(p)] for s, p in c.incoming_messages[before:]])
    rf = [[int(f), r.frag_count, S.ticks(r.ctime), int(r.msgseq), [[] if x is None else [bytes(x)] for x in r.fragments]]
          for f, r in c.received_fragments.items()]
    return steps, [[int(s), bytes(p)] for s, p in c.incoming_messages], rf


# ------------------------------------------------------------------ split / send

def content(r, n):
    return (bytes(r.getrandbits(8) for _ in range(min(n, 64))) * (n // 64 + 1))[:n] if n else b""


def boundary_lengths(mtu, kmax=4, width=12):
    mp = mtu - 66
    mf = mp - 6 if mp < 1030 else 1024
    ls = set()
    for k in range(0, kmax + 1):
        for base in (k * mf, k * mf + mp - 6, k * mf + mp):
            for d in range(-width, width + 1):
                ls.add(base + d)
    return sorted(x for x in ls if x >= 0), mp, mf


def check_split(run, mtu, n, payload):
    """oracle on FragmentSender.build alone; returns the fragments"""
    mp = mtu - 66
    parts = impl_split(mtu, payload)
    frs = [p[3] for p in parts]
    run.evaluations += 1
    if not parts:
        return frs
    good = (b"".join(frs) == payload and all(len(f) > 0 for f in frs) and all(len(f) + 6 <= mp for f in frs)
            and [p[1] for p in parts] == list(range(1, len(parts) + 1)) and all(p[2] == len(parts) for p in parts)
            and all(p[0] == 77 for p in parts))
    if n > mp:
        good = good and 2 <= len(parts) <= 8192
    if not good:
        run.oracle_violation("split-join", {"mtu": mtu, "length": n, "fragment_lengths": [len(f) for f in frs][:12],
                                            "joined_equal": b"".join(frs) == payload,
                                            "indices": [p[1] for p in parts][:12], "count_fields": [p[2] for p in parts][:12]},
                             "FragmentSender.build")
    return frs


def split_and_send(run):
    M, r = run.model, run.rng
    if run.thorough():
        mtus = sorted(set(list(range(512, 1501, 4)) + list(range(1090, 1103)) + [1500]))
        run.exhaustive.append("split/send: all lengths within +-12 of the boundaries (k<=4) for every 4th MTU 512..1500 and 1090..1102")
    else:
        mtus = [512, 513, 777, 1095, 1096, 1097, 1500] + [r.randrange(512, 1501) for _ in range(5)]
    scases, simpl = [], []
    sendc, sendi = [], []
    for mtu in mtus:
        ls, mp, mf = boundary_lengths(mtu, width=12 if (run.thorough() or mtu in (512, 1096, 1500)) else 3)
        env = [mp, mf, 8192]
        for n in ls:
            payload = content(r, n)
            frs = check_split(run, mtu, n, payload)
            scases.append([env, payload])
            simpl.append(frs)
            if min(abs(n - b) for b in (mp, mf, 2 * mf, mf + mp - 6, 3 * mf, 2 * mf + mp - 6)) <= 1:
                run.nt(("split", mtu, n))
        # send(): fragmented / single / refused, with the fragment limit lowered to 3 so that it is reachable
        for n in [0, 1, mp - 1, mp, mp + 1, mp + 7, 2 * mf - 1, 2 * mf, 2 * mf + 1, 3 * mf - 1, 3 * mf, 3 * mf + 1, 3 * mf + 2,
                  3 * mf + mp, 4 * mf + 5]:
            payload = content(r, n)
            retry = r.choice([0, 1, -1])
            env3, res = impl_send_one(mtu, payload, retry, max_frags=3)
            sendc.append([env3, payload, retry])
            sendi.append(res)
            run.evaluations += 1
            limit = 3 * mf
            q = res[1]
            if n <= mp:
                good = res[0] == [] and q == [[6, payload]]
                what = "small-payload-fragmented"
            elif n > limit:
                good = res[0] == [[3, lib.ERR["ValueError"]]] and q == []
                what = "too-large-not-refused"
            else:
                body = b"".join(p[6:] for t, p in q)
                hdrs = [struct.unpack(">HHH", p[:6]) for t, p in q]
                good = (res[0] == [] and body == payload and all(t == 7 for t, p in q) and 2 <= len(q) <= 3
                        and [h[1] for h in hdrs] == list(range(1, len(q) + 1)) and all(h[2] == len(q) for h in hdrs)
                        and len(set(h[0] for h in hdrs)) == 1 and all(6 < len(p) <= mp for t, p in q))
                what = "fragmented-send-wrong"
            if not good:
                run.oracle_violation(what, {"mtu": mtu, "length": n, "max_payload": mp, "max_fragment": mf, "max_fragments": 3,
                                            "outputs": res[0], "queued": [[t, len(p)] for t, p in q][:8]}, "ConnectionBase.send")
    run.compare("split", scases, simpl, M.call_many("split", scases), describe=lambda c: [c[0], len(c[1])])
    run.compare("send_one", sendc, sendi, M.call_many("send_one", sendc), describe=lambda c: [c[0], len(c[1]), c[2]])
    run.count("split_cases", len(scases))
    run.count("send_cases", len(sendc))
    # the real limit once: 8 MiB and 8 MiB + 1 (implementation only in the quick tier; the model needs the bytes)
    from mpgameserver.connection import Packet
    big = bytes(1024 * 8192 + 1)
    for n in (1024 * 8192, 1024 * 8192 + 1):
        env, res = impl_send_one(1500, big[:n], 0)
        run.evaluations += 1
        ok = (res[0] == [] and len(res[1]) == 8192) if n == 1024 * 8192 else (res[0] == [[3, 1]] and res[1] == [])
        if not ok:
            run.oracle_violation("fragment-limit", {"length": n, "outputs": res[0], "queued": len(res[1])}, "FragmentSender.build")
    run.sample({"unit": "split", "mtu": 512, "length": 1000, "fragments": [len(f) for f in [p[3] for p in impl_split(512, bytes(1000))]]})


# ------------------------------------------------------------------ receiver histories

def gen_feed_case(r, timely=True):
    n = r.choice([1, 2, 2, 3, 3, 4, 5, 8])
    frags = [bytes(r.getrandbits(8) for _ in range(r.choice([1, 1, 2, 5, 30]))) for _ in range(n)]
    fid = r.choice([1, 2, 77, 65535, r.randrange(1, 65536)])
    others = []
    for _ in range(r.choice([0, 1, 2, 3])):
        oid = r.choice([x for x in (fid + 1, fid - 1, 3, 9, 40000) if 0 < x < 65536 and x != fid])
        ocnt = r.choice([1, 2, 3])
        others.append((oid, ocnt, [bytes(r.getrandbits(8) for _ in range(r.choice([1, 3, 9]))) for _ in range(ocnt)]))
    evs = []
    t = 15 * r.randrange(0, 2000)
    bound = T + (T // 2) * n
    rounds = r.choice([1, 1, 1, 2])
    order = []
    for _ in range(rounds):
        idx = list(range(n))
        r.shuffle(idx)
        idx += [r.randrange(n) for _ in range(r.choice([0, 0, 1, 3]))]       # repetitions
        r.shuffle(idx) if r.random() < 0.5 else None
        order += idx
    mseq = r.randrange(1, 60000)
    for i in order:
        c = r.random()
        if others and c < 0.35:
            oid, ocnt, ofr = r.choice(others)
            j = r.randrange(ocnt)
            evs.append([1, struct.pack(">HHH", oid, j + 1, ocnt) + ofr[j], mseq + 100 + len(evs), t])
        elif c < 0.42:
            evs.append([1, bytes(r.getrandbits(8) for _ in range(r.randrange(0, 6))), mseq + 100 + len(evs), t])   # too short
        elif c < 0.47 and others:
            oid = others[0][0]
            evs.append([1, struct.pack(">HHH", oid, r.choice([0, 9, 65535]), r.choice([0, 1, 2])) + b"zz", mseq + 100 + len(evs), t])
        evs.append([0, i, mseq + i, t])
        if timely:
            t += 15 * r.randrange(0, max(1, bound // (15 * (len(order) + 2))))
        else:
            t += 15 * r.choice([0, 1, 10, bound // 15, bound // 15 + 1, bound // 30, 3 * bound // 15])
    return fid, frags, evs


def py_timely_and_spec(frags, evs):
    """python re-statement of the abstract receiver (independent of the Coq text): per Mine step the
    delivery (seq or -1), and whether the no-expiry hypothesis held throughout"""
    n = len(frags)
    have, t0, sq = [False] * n, 0, 0
    out = []
    ok = True
    bound = T + (T // 2) * n
    for ev in evs:
        if any(have) and ev[3] - t0 > bound:
            ok = False
        if ev[0] == 1:
            out.append(-1)
            continue
        i = ev[1]
        if not any(have):
            t0, sq = ev[3], 0
        if i == 0:
            sq = ev[2]
        have[i] = True
        if all(have):
            out.append(sq)
            have = [False] * n
        else:
            out.append(-1)
    return ok, out


def receiver(run):
    M, r = run.model, run.rng
    cases = []
    for k in range(40000 if run.thorough() else 2500):
        cases.append(gen_feed_case(r, timely=(k % 3 != 0)))
    impl = [impl_feed(*c) for c in cases]
    mod = M.call_many("frag_feed", [[c[0], c[1], c[2]] for c in cases])
    # model vs implementation: deliveries per step, final incoming, final received_fragments
    run.compare("frag_feed", cases, [[list(i[0]), i[1], i[2]] for i in impl], [[m[0], m[1], m[3]] for m in mod],
                describe=lambda c: [c[0], [len(f) for f in c[1]], [[e[0], e[1] if e[0] == 0 else len(e[1]), e[2], e[3]] for e in c[2]][:14]])
    # abstract receiver (theorem's spec) vs implementation, on the histories that satisfy the no-expiry hypothesis
    n_timely = 0
    for c, i, m in zip(cases, impl, mod):
        fid, frags, evs = c
        tim, spec = py_timely_and_spec(frags, evs)
        run.evaluations += 1
        if m[2] != spec:
            run.corr_fail.append({"unit": "frag_feed(spec_run)", "case": lib.jsonable([fid, [len(f) for f in frags]]),
                                  "impl": spec, "model": m[2]})
            continue
        if not tim:
            run.count("feed_untimely")
            continue
        n_timely += 1
        payload = b"".join(frags)
        for ev, d, s in zip(evs, i[0], spec):
            if ev[0] == 0:
                want = [[s, payload]] if s >= 0 else []
                if d != want:
                    run.oracle_violation("reassembly-wrong", {"fid": fid, "fragment_lengths": [len(f) for f in frags],
                                                              "events": [[e[0], e[1] if e[0] == 0 else len(e[1]), e[2], e[3]] for e in evs][:20],
                                                              "delivered": lib.jsonable(d), "expected": lib.jsonable(want)},
                                         "_recvAppFragment")
                    return
        idx = [e[1] for e in evs if e[0] == 0]
        if len(set(idx)) < len(idx) and idx != sorted(idx):
            run.nt(("feed", fid, tuple(idx), len(evs)))
    run.count("feed_timely", n_timely)
    run.sample({"unit": "frag_feed", "fid": cases[1][0], "fragments": [len(f) for f in cases[1][1]],
                "events": [[e[0], e[1] if e[0] == 0 else len(e[1]), e[2], e[3]] for e in cases[1][2]][:8]})


# ------------------------------------------------------------------ network

def net_run(run, mtu, cfg, lengths, label, frames=120, hold=None):
    """several fragmented (and small) messages in flight in both directions; returns False after a violation.
    hold = (fragment index, delay ticks): delay the client's datagram carrying that fragment of its first message"""
    from harness import netsim as N
    r = run.rng
    mp = mtu - 66
    net = N.Net(run, r, cfg, mtu=mtu)
    case = {"kind": label, "mtu": mtu, "cfg": {k: v for k, v in cfg.items()}, "lengths": lengths[:24]}
    lossy = cfg.get("loss", 0) > 0
    first_arrival = {}
    try:
        pending = list(lengths)
        if hold is not None:
            held = [False]
            orig = net._transmit

            def tx(who, idx):
                if who == "client" and not held[0]:
                    dec = P.decode_datagram(net.emitted[who][idx]["raw"], net.keys.bytes_of(net.key))
                    for s_, t_, p_ in dec.get("msgs", []):
                        if t_ == 7 and struct.unpack(">HHH", p_[:6])[1] == hold[0]:
                            held[0] = True
                            net.flight.append((net.t + hold[1], "server", idx))     # delayed, not lost
                            return
                orig(who, idx)
            net._transmit = tx
        for f in range(frames):
            if pending and f % 2 == 0 and f < frames - 70:
                for _ in range(r.choice([1, 1, 2, 3])):
                    if pending:
                        n = pending.pop(0)
                        net.send(r.choice(["client", "server"]) if hold is None else "client", n,
                                 0 if hold is not None else (r.choice([0, 1, -1]) if not lossy else -1), with_cb=False)
            net.step()
            if hold is not None and f == hold[2]:
                net.send("client", 2 * 1024 + 300, 0, with_cb=False)     # another fragmented message: its arrival sweeps
        net.healed = True
        for _ in range(40):
            net.step()
        diffs = net.check_models()
    finally:
        net.close()
    run.compare("conn_run", [dict(case, endpoint="both")], [diffs[0] if diffs else None], [None])
    ok = True
    for who in ("client", "server"):
        peer = net.other(who)
        sent = collections.Counter(rec["payload"] for rec in net.sent[who].values() if rec["accepted"])
        got = collections.Counter(p for t, p in net.delivered[peer])
        run.evaluations += 1
        fabricated = got - sent
        if fabricated:
            p0 = list(fabricated)[0]
            run.oracle_violation("delivered-message-not-sent-or-duplicated",
                                 dict(case, sender=who, length=len(p0), times=got[p0], sent_times=sent[p0]), "_recvAppFragment")
            ok = False
            continue
        missing = sent - got
        if missing and not lossy:
            p0 = sorted(missing, key=len)[0]
            # was every fragment of it accepted by the receiver, and how far apart in time?
            span, nfr = arrival_span(net, who, p0)
            bound = T + (T // 2) * max(nfr, 1)
            if len(p0) > mp and span is not None and span > bound:
                run.oracle_violation("fragmented-message-lost-by-expiry",
                                     dict(case, sender=who, length=len(p0), fragments=nfr, arrival_span_ticks=span,
                                          expiry_bound_ticks=bound), "FragmentReceiver.expired")
            else:
                run.oracle_violation("sent-message-not-delivered",
                                     dict(case, sender=who, length=len(p0), fragments=nfr, arrival_span_ticks=span,
                                          length_minus_max_payload=len(p0) - mp), "_recvAppFragment")
            ok = False
        if any(len(p) > mp for p in got):
            run.nt((label, mtu, who, len(got), tuple(sorted(cfg.items()))))
    for t, who, where, code, *rest in net.raised:
        if where == "send" and rest and rest[0] > (mp - 6 if mp < 1030 else 1024) * 8192:
            continue
        run.oracle_violation("raised", dict(case, endpoint=who, where=where, error=code), "ConnectionBase")
        ok = False
        break
    run.count("net_" + label)
    return ok


def arrival_span(net, who, payload):
    """ticks between the first and the last accepted arrival (at the peer) of datagrams carrying a fragment
    of `payload`; number of fragments.  None when some fragment never arrived."""
    peer = net.other(who)
    kb = net.keys.bytes_of(net.key)
    # which fragment id carried this payload: find fragments whose concatenation matches, by decoding what `who` emitted
    frs = {}
    where = {}
    for i, rec in enumerate(net.emitted[who]):
        dec = P.decode_datagram(rec["raw"], kb)
        for s, t, p in dec.get("msgs", []):
            if t == 7:
                fid, idx, cnt = struct.unpack(">HHH", p[:6])
                frs.setdefault(fid, {})[idx] = p[6:]
                where.setdefault(fid, {}).setdefault(idx, []).append(i)
    for fid, d in frs.items():
        if b"".join(d[k] for k in sorted(d)) == payload:
            acc = {i: t for t, i in net.accepted[peer]}
            times = []
            for idx, dgs in where[fid].items():
                ts = [acc[i] for i in dgs if i in acc]
                if not ts:
                    return None, len(d)
                times.append(min(ts))
            return max(times) - min(times), len(d)
    return None, 0


FRESH_RULE = ("fresh sessions: payloads built inside the send call and never referenced by the harness (digest + length only); runs of "
              "2..6 equal fragmented lengths back to back, two alternating lengths, the same length from both endpoints of the "
              "process, lengths around MAX_PAYLOAD_SIZE and k*MAX_FRAGMENT_SIZE, three construction styles, all retry modes, "
              "send and send_guaranteed, both roles, plain / reordering / duplicating networks; non-trivial = a session in which a "
              "fragmented payload was allocated at the address of an earlier, freed payload of the same length")


def make_payload(i, n, style):
    """a FRESH object of n bytes whose content depends on i (deterministic); three ways an application might build it"""
    seed = b"fresh-%d-%d" % (i, n)
    if style == 0:
        return hashlib.shake_256(seed).digest(n)               # one allocation of the final object
    if style == 1:
        buf = bytearray(n)                                     # fill a buffer, then freeze it
        tag = hashlib.sha256(seed).digest()
        for k in range(0, n, 512):
            buf[k:k + 32] = tag[:max(0, min(32, n - k))]
        if n >= 32:
            buf[-32:] = tag
        return bytes(buf)
    return ((b"%09d/" % i) * (n // 10 + 1))[:n]                  # repeat + slice


def fresh_session(run, mtu, cfg, label, frames=40):
    from harness import netsim as N
    r = run.rng
    mp = mtu - 66
    mf = mp - 6 if mp < 1030 else 1024
    net = N.Net(run, r, cfg, mtu=mtu)
    case = {"kind": label, "mtu": mtu, "cfg": dict(cfg)}
    last_id = {}          # length -> id() of the last payload of that length (an integer, not a reference)
    reused = 0
    plan = []
    serial = [0]
    refused = 0
    try:
        # lengths of 2..4 fragments; one datagram per frame carries about one fragment, so the bursts are spaced for the
        # queues to drain (fragments of one message then arrive well inside the receiver's expiry bound, cf. D17)
        A = r.choice([mp + 1, mp + 2, 2 * mf, 2 * mf + 1, 3 * mf + 7, r.randrange(mp + 1, 4 * mf)])
        B = r.choice([x for x in (mp + 1, mp + 3, 2 * mf - 1, 3 * mf, r.randrange(mp + 1, 4 * mf)) if x != A])
        for f in range(frames):
            if f % 8 == 0:
                mode = r.choice(["run", "run", "alternate", "both-sides", "mixed"])
                style = r.choice([0, 1, 2])
                retry = r.choice([0, 1, -1])
                api = r.random() < 0.5
                who = r.choice(["client", "server"])
                k = r.choice([2, 2, 3, 4])
                if mode == "run":
                    burst = [(who, A)] * k
                elif mode == "alternate":
                    burst = [(who, A if j % 2 == 0 else B) for j in range(k + 1)] + [(who, A)]
                elif mode == "both-sides":
                    burst = [(w, A) for j in range(k) for w in (who, net.other(who))][:k + 1]
                else:
                    burst = [(who, r.choice([A, A, B, 0, 7, mp, mp - 1])) for j in range(k)]
                for w, n in burst:
                    serial[0] += 1
                    i = serial[0]
                    mid = net.send_fresh(w, lambda i=i, n=n, style=style: make_payload(i, n, style), retry, api=api)
                    rec = net.sent[w][mid]
                    if n > mp and last_id.get(n) == rec["id"]:
                        reused += 1
                    last_id[n] = rec["id"]
                    plan.append([w, n, style, retry, 1 if api else 0])
                    run.evaluations += 1
                if f == 8:
                    # not bytes: refused at the door (TypeError) or, if it were accepted, delivered intact — never something else
                    ba = bytearray(make_payload(10 ** 6 + f, A, 0))
                    q0 = len(net.ep(who).impl.conn.outgoing_messages)
                    try:
                        net.ep(who).impl.conn.send(ba)
                        raise RuntimeError("bytearray payload accepted: extend the fresh sessions to mutate it between sends")
                    except TypeError:
                        refused += 1
                        if len(net.ep(who).impl.conn.outgoing_messages) != q0:
                            run.oracle_violation("refused-payload-left-something-queued", dict(case, length=A), "ConnectionBase.send")
            net.step()
        for _ in range(400):
            if not (net.A.impl.conn.outgoing_messages or net.B.impl.conn.outgoing_messages):
                break
            net.step()
        net.healed = True
        for _ in range(30):
            net.step()
        diffs = net.check_models()
    finally:
        net.close()
    case["sends"] = plan[:40]
    case["n_sends"] = len(plan)
    run.compare("conn_run", [dict(case, endpoint="both")], [diffs[0] if diffs else None], [None])
    ok = True
    for who in ("client", "server"):
        peer = net.other(who)
        sent = collections.Counter(rec["digest"] for rec in net.sent[who].values() if rec["accepted"])
        lens = {rec["digest"]: rec["len"] for rec in net.sent[who].values()}
        got = collections.Counter(hashlib.sha256(p).digest() for t, p in net.delivered[peer])
        glen = {hashlib.sha256(p).digest(): len(p) for t, p in net.delivered[peer]}
        fabricated = got - sent
        if fabricated:
            d0 = list(fabricated)[0]
            run.oracle_violation("delivered-message-not-sent-or-duplicated",
                                 dict(case, sender=who, length=glen[d0], times=got[d0], sent_times=sent[d0],
                                      not_delivered=sum((sent - got).values()), address_reuses_so_far=reused,
                                      delivered_sha256=d0.hex()[:16]), "FragmentSender.build/_recvAppFragment")
            ok = False
            continue
        missing = sent - got
        if missing:
            d0 = list(missing)[0]
            run.oracle_violation("sent-message-not-delivered",
                                 dict(case, sender=who, length=lens[d0], n_missing=sum(missing.values()),
                                      length_minus_max_payload=lens[d0] - mp), "_recvAppFragment")
            ok = False
    for t, who, where, code, *rest in net.raised:
        run.oracle_violation("raised", dict(case, endpoint=who, where=where, error=code), "ConnectionBase")
        ok = False
        break
    run.count("net_" + label)
    run.count("fresh_sends", len(plan))
    run.count("fresh_address_reused", reused)
    run.count("non_bytes_payload_refused", refused)
    if reused:
        run.nt((label, mtu, len(plan)))
    return ok, reused


def fresh(run):
    r = run.rng
    scheds = [{"tick": 300}, {"tick": 300}, {"tick": 300, "reorder": 0.4, "max_delay": T // 4}, {"tick": 300, "dup": 0.4, "max_delay": T // 4}]
    total = 0
    for rep in range(10 if run.thorough() else 2):
        for n, cfg in enumerate(scheds):
            mtu = r.choice([512, 1096, 1500, 1500, r.randrange(512, 1501)])
            ok, reused = fresh_session(run, mtu, cfg, "fresh")
            total += reused
            if not ok:
                return
    if total == 0:
        raise RuntimeError("no fresh payload was ever allocated at the address of an earlier one: the harness is not exercising "
                           "the identity-vs-equality surface")


def network(run):
    r = run.rng
    # the known defect D17 as a deterministic replay: fragment 2 of a 3-fragment message delayed 4 s, pure delay
    net_run(run, 1500, {"tick": 300}, [2500], "delay-4s", frames=330, hold=(2, 4 * T, 190))
    scheds = [{"tick": 300}, {"tick": 300, "reorder": 0.5, "max_delay": T // 4}, {"tick": 300, "dup": 0.4, "max_delay": T // 4},
              {"tick": 300, "reorder": 0.4, "dup": 0.3, "max_delay": T // 3}, {"tick": 300, "loss": 0.15, "reorder": 0.3, "dup": 0.2, "max_delay": T // 4}]
    reps = 40 if run.thorough() else 4
    for rep in range(reps):
        for cfg in scheds:
            mtu = r.choice([512, 600, 1096, 1500, r.randrange(512, 1501)])
            ls, mp, mf = boundary_lengths(mtu, kmax=3, width=2)
            lengths = [r.choice(ls) for _ in range(10)] + [r.randrange(0, 5 * mf) for _ in range(4)] + [mp, mp + 1, mf * 2, 7]
            r.shuffle(lengths)
            if not net_run(run, mtu, cfg, lengths, "net"):
                return


def run(run):
    import time
    t = time.time()
    split_and_send(run)
    run.notes.append("split/send %.1fs" % (time.time() - t)); t = time.time()
    receiver(run)
    run.notes.append("receiver %.1fs" % (time.time() - t)); t = time.time()
    network(run)
    run.notes.append("network %.1fs" % (time.time() - t)); t = time.time()
    fresh(run)
    run.notes.append("fresh %.1fs" % (time.time() - t))
    run.rules.append(RULE)
    run.rules.append(FRESH_RULE)
