"""C10 — server handler lifecycle: connect once (after the handshake), messages, disconnect once;
one thread; handler exceptions do not stop the flow; distinct tokens.

Correspondence: the REAL UdpServerThread, stepped deterministically (harness/srvsim.py), against
Server.v's srv_step: the complete linear log of handler calls / sendto / callbacks / caught
exceptions, and the contents of both pools (full connection snapshots) at every iteration.
Units: srv_run (1001), srv_get_token (1003, ServerContext.get_token against scripted urandom).
Oracle: the property restated over the implementation's handler log alone.
callback_world (implementation only; Server.v's user callbacks only record): application send callbacks that ACT when the
library calls them — client.disconnect() on failure (or always), client.send() with a further acting callback, kicking
every other client, raising (alone or after acting) — so that exceptions and re-entrant API calls happen INSIDE
ServerClientConnection.update(), including the update() the disconnect/time-out sweep itself makes in the tick a client
is removed.  All clients of a world go silent in the same tick; client i is sent its message i ticks later, for every i
from 0 to connection_timeout/tick + 2, so the ack time-out of one of them fires in every tick up to and including the
tick of the silence time-out.  Behind every front door (also the reactor fronts).  Judged by lifecycle_oracle."""
import struct
from harness import lib
from harness import connsim as S
from harness import srvsim as V

T = S.TICKS
RULE = ("random worlds of 1-8 real UdpClients around the stepped real server loop: connects (fresh and reused "
        "addresses, also while the old client object is still pooled), application messages (small and fragmented), "
        "peer disconnects, silences past connection_timeout, duplicated / replayed / re-addressed datagrams, garbage, "
        "datagrams re-sealed under the session key with extra or duplicated handshake / DISCONNECT / APP messages, "
        "handlers that raise / disconnect / send in every event, forced token collisions through the urandom shim, "
        "shutdown at a random tick; non-trivial = a run in which at least one client connected and at least two of "
        "{handler exception, server-side disconnect, time-out, peer disconnect, replay, forced collision} occurred")
ASSUMPTIONS = ["virtual clock on the 1/1024 s grid (every float comparison of the code has the truth value of the integer comparison of the model)",
               "handler code touches the server only through client.disconnect()/client.send() on clients it was given (other interference, e.g. mutating ctxt.connections, is outside the property)"]
TRUSTED = ["thread scheduling and the Lock/Condition hand-off of UdpServerThread are not modelled: 'all events on one thread' is structural in the model (one step function) and only OBSERVED in the harness (thread id of every handler call)",
           "cryptography (ECDH, ECDSA, AES-GCM) is symbolic in the model; the harness runs the real primitives and passes their outcomes to the model as oracle answers"]

CFGS = [(7680, 3840, 1536, 3840), (5 * T, 2 * T, 1536, T), (15360, 7680, 3840, 7680)]


def get_token_cases(run):
    from mpgameserver.context import ServerContext
    import mpgameserver.context as CX
    import types
    rng = run.rng
    cases, impl = [], []
    saved = CX.os
    try:
        for i in range(400 if run.thorough() else 120):
            ntok = rng.randrange(0, 6)
            used = [rng.choice([0x40000000, 0x40000001, 0x7fffffff, 0x40000000 | rng.getrandbits(30)]) for _ in range(ntok)]
            rand = []
            for _ in range(rng.randrange(1, 6)):
                r = rng.random()
                if used and r < 0.5:
                    tk = rng.choice(used)
                    rand.append(rng.choice([tk, tk & 0x3fffffff, tk | 0x80000000, (tk & 0x3fffffff) | 0x80000000]))
                elif r < 0.6:
                    rand.append(rng.choice([0, 0x80000000, 0xffffffff, 0x40000000]))
                else:
                    rand.append(rng.getrandbits(32))
            rand.append(0x12345678 + i)           # fresh: the loop terminates
            while (rand[-1] & 0x7fffffff | 0x40000000) in used:
                rand[-1] += 1
            ctx = ServerContext(V.SimHandler(None), S.root_key())
            pools = [ctx.connections, ctx.temp_connections]
            for j, tk in enumerate(used):
                pools[j % 2][("10.9.9.%d" % j, 1)] = types.SimpleNamespace(token=tk)
            pos = [0]

            def ur(n, rand=rand, pos=pos):
                v = rand[pos[0]]
                pos[0] += 1
                return struct.pack(">L", v)
            CX.os = types.SimpleNamespace(urandom=ur)
            tok = ctx.get_token()
            impl.append([1, tok, pos[0]])
            cases.append([used, rand])
            if pos[0] > 1:
                run.nt(("gt", tuple(used), tuple(rand)))
            if tok in used or tok == 0:
                run.oracle_violation("token in use handed out", {"used": used, "rand": rand, "token": tok}, "context.py:get_token")
    finally:
        CX.os = saved
    run.compare("srv_get_token", cases, impl, run.model.call_many("srv_get_token", cases))


# ---------------------------------------------------------------- the implementation-level oracle

def lifecycle_oracle(run, sim, label, cfg, challenge_steps=None):
    """property C10 over the handler log of one run (python object identity = client)"""
    per = {}
    facts = set()
    step = 0
    steps_of = []
    for i, o in enumerate(sim.log):
        if o == [0, [2]]:
            step += 1
        steps_of.append(step)
        if o[0] == 0 and o[1][0] in (3, 4, 5):
            per.setdefault(o[1][1], []).append((o[1][0], i))
        if o[0] == 1:
            facts.add("exc")
    for cid, evs in per.items():
        kinds = [k for k, _ in evs]
        st = 0
        for k in kinds:
            if k == 3 and st == 0:
                st = 1
            elif k == 4 and st == 1:
                pass
            elif k == 5 and st == 1:
                st = 2
            else:
                run.oracle_violation("lifecycle order", {"what": "lifecycle order", "label": label, "cid": cid, "kinds": kinds},
                                     "server.py:UdpServerThread.run")
                break
        if sim.finished and not sim.died and st == 1:
            run.oracle_violation("no disconnect at shutdown", {"what": "no disconnect at shutdown", "label": label, "cid": cid, "kinds": kinds},
                                 "server.py:UdpServerThread.run")
    # one thread
    if len(set(sim.tids)) > 1 or (sim.tids and sim.tids[0] != sim.thread.ident):
        run.oracle_violation("handler events on several threads", {"label": label, "tids": sorted(set(sim.tids))}, "server.py")
    # connect only with a completed handshake: the event's token is the object's token, the object
    # holds a session key, and a CHALLENGE_RESP-typed datagram from that address is in the batch
    # processed in this iteration
    for i, o in enumerate(sim.log):
        if o[0] == 0 and o[1][0] == 3:
            k = steps_of[i]
            addr = V.va(o[1][2])
            batch = sim.steps[k][1] if k < len(sim.steps) else []
            ok = any(a == addr and len(raw) >= 20 and raw[12] == 3 for a, raw in batch)
            obj = [c for c in sim.keep if hasattr(c, "token") and hasattr(c, "addr") and sim.objs.get(id(c)) == o[1][1]]
            if not ok or not obj or obj[0].session_key_bytes is None or o[1][3] == 0:
                run.oracle_violation("connect without challenge response",
                                     {"what": "connect without challenge response", "label": label, "event": lib.jsonable(o)}, "context.py:_onConnect")
    # every cause yields its disconnect in the next sweep: at block U_k a client of `connections` that is
    # DISCONNECTING/DISCONNECTED or silent for connection_timeout at the sweep's clock must get its
    # disconnect event before U_{k+1}; tokens pairwise distinct at every block
    for k, view in enumerate(sim.views):
        toks = [v[3] for v in view] + [v[2] for v in sim.tviews[k] if v[2] != 0]
        if len(set(toks)) != len(toks):
            run.oracle_violation("equal tokens", {"what": "equal tokens", "label": label, "step": k, "tokens": toks}, "context.py:get_token")
        if any(v[3] == 0 for v in view):
            run.oracle_violation("connected client without token", {"what": "connected client without token", "label": label, "step": k,
                                                                    "tokens": [v[3] for v in view]}, "context.py:_onConnect")
        if len(toks) > 1:
            facts.add("many")
        if k + 1 < len(sim.steps):
            ts = sim.steps[k + 1][0]
        elif sim.finished:
            ts = sim.t_end
        else:
            continue
        lo = sim.marks[k]
        hi = sim.marks[k + 1] if k + 1 < len(sim.marks) else len(sim.log)
        seg = sim.log[lo:hi]
        got = [o[1][1] for o in seg if o[0] == 0 and o[1][0] == 5]
        if sim.died:
            continue
        for cid, status, last_recv, tok in view:
            due = status in (3, 4) or ts - last_recv >= cfg[0]
            if due and status in (3, 4):
                facts.add("closed")
            if due and status not in (3, 4):
                facts.add("timeout")
            if due and got.count(cid) != 1:
                run.oracle_violation("cause without exactly one disconnect",
                                     {"what": "cause without exactly one disconnect", "label": label, "step": k, "cid": cid,
                                      "status": status, "silence": ts - last_recv, "got": got}, "server.py:UdpServerThread.run")
    return facts


# ---------------------------------------------------------------- scenarios

def edits(rng, hello_payloads):
    def base(ms):
        return ms[0][0] if ms else 7

    def dup(h, ms):
        if not ms:
            return h, ms
        return h, ms + [[(base(ms) + 20000) % 65535 + 1, ms[0][1], ms[0][2]]]

    def add_disc(h, ms):
        return h, ms + [[(base(ms) + 20001) % 65535 + 1, 5, b""]]

    def pre_app(h, ms):
        return h, [[(base(ms) + 20002) % 65535 + 1, 6, b"early"]] + ms

    def add_hello(h, ms):
        if not hello_payloads:
            return h, ms
        return h, ms + [[(base(ms) + 20003) % 65535 + 1, 1, rng.choice(hello_payloads)]]

    def retype(h, ms):
        h = list(h)
        h[4] = rng.choice([3, 5, 6, 1])
        return h, ms

    def add_chal(h, ms):
        return h, ms + [[(base(ms) + 20004) % 65535 + 1, 3, b"\x00\x01garbage"]]
    return [dup, add_disc, pre_app, add_hello, retype, add_chal]


def scenario(run, rng, idx):
    cfg = rng.choice(CFGS)
    facts = set()
    policy = V.random_policy(rng, p_raise=rng.choice([0.0, 0.1, 0.3]), chatty=rng.random() < 0.8)
    w = V.World(run, rng, cfg=cfg, policy=policy, full=True, mtu=rng.choice([1500, 1500, 1500, 600]))
    sim = w.sim
    hello_payloads = []
    eds = edits(rng, hello_payloads)
    addrs = [("10.1.%d.%d" % (i // 4, i % 4 + 1), 5000 + i) for i in range(8)]
    nsteps = rng.randrange(40, 120) * (2 if run.thorough() else 1)
    try:
        for st in range(nsteps):
            extra, rand = [], []
            r = rng.random()
            live = [c for c in w.clients if c["ticking"]]
            if (r < 0.12 or st == 0) and len(live) < 6:
                a = rng.choice(addrs)
                old = w.by_addr.get(a)
                if old is not None and old["ticking"]:
                    old["ticking"] = False
                    facts.add("reconnect-same-address")
                rec = w.add_client(a)
                if rng.random() < 0.35:
                    ed = rng.choice(eds)

                    def once(rec, d, ed=ed):
                        kid = rec["hc"].key_id()
                        if kid < 0 or len(d) < 20 or d[12] == 1:
                            return d
                        rec["edit"] = None
                        facts.add("recraft")
                        return V.recraft(sim, d, kid, ed)
                    rec["edit"] = once
                if rng.random() < 0.5:
                    # force collisions with the tokens in use
                    toks = [int(c.token) for p in (sim.ctxt.connections, sim.ctxt.temp_connections) for c in p.values() if c.token]
                    if toks:
                        rand = [rng.choice(toks) ^ rng.choice([0, 0x80000000]) for _ in range(rng.randrange(1, 4))]
                        facts.add("collision")
            for rec in live:
                hc = rec["hc"]
                q = rng.random()
                if hc.status() == 2:
                    if q < 0.3:
                        for _ in range(rng.randrange(1, 4)):
                            n = rng.choice([0, 1, 5, 40, 300, 1500, 2600])
                            hc.client.send(bytes(rng.randrange(256) for _ in range(n)), retry=rng.choice([0, 1, -1]))
                    elif q < 0.34:
                        hc.client.disconnect()
                        facts.add("peer-disconnect")
                    elif q < 0.38:
                        rec["ticking"] = False
                        facts.add("silence")
                    elif q < 0.41 and rec["edit"] is None:
                        ed = rng.choice(eds)

                        def once2(rec, d, ed=ed):
                            kid = rec["hc"].key_id()
                            if kid < 0 or len(d) < 20:
                                return d
                            rec["edit"] = None
                            facts.add("recraft")
                            return V.recraft(sim, d, kid, ed)
                        rec["edit"] = once2
            if w.sent_hist and rng.random() < 0.15:
                a, d = rng.choice(w.sent_hist)
                if rng.random() < 0.3:
                    a = rng.choice(addrs)
                extra.append((a, d))
                facts.add("replay")
            if rng.random() < 0.1:
                a = rng.choice(addrs + [("10.7.7.7", 7)])
                n = rng.choice([0, 5, 19, 20, 24, 60, 1472])
                g = bytes(rng.randrange(256) for _ in range(n))
                if n >= 20 and rng.random() < 0.7:
                    g = S.pack_header([1, rng.randrange(2 ** 32), rng.randrange(65536), rng.randrange(65536),
                                       rng.randrange(8), rng.choice([0, max(0, n - 24), n, 65535]), rng.choice([0, 1, 2, 255]),
                                       rng.getrandbits(32)]) + g[20:]
                extra.append((a, g))
                facts.add("garbage")
            dt = rng.choice([150, 300, 300, 300, 600, 1500])
            if rng.random() < 0.04:
                dt = rng.choice([cfg[0], cfg[0] + 15, cfg[1], 2 * cfg[0]])
                facts.add("jump")
            for a, d in w.sent_hist[-4:]:
                if len(d) > 24 and d[12] == 1 and len(hello_payloads) < 4:
                    hello_payloads.append(d[22:-4])
            if not w.step(dt, extra, rand):
                break
        w.finish()
        diff = sim.check_model()
        label = "world %d" % idx
        facts |= lifecycle_oracle(run, sim, label, cfg)
        nconn = sum(1 for o in sim.log if o[0] == 0 and o[1][0] == 3)
        run.count("worlds")
        run.count("steps", len(sim.steps))
        run.count("handler calls", len(sim.resps))
        run.count("connects", nconn)
        run.count("handler exceptions", sum(1 for o in sim.log if o[0] == 1))
        run.count("datagrams fed", sum(len(b) for b in w.batches))
        for f in facts:
            run.count("world with " + f)
        if sim.internal:
            raise RuntimeError("harness-internal problem: %s" % sim.internal[:3])
        interesting = len(facts & {"exc", "closed", "timeout", "peer-disconnect", "replay", "collision", "recraft"})
        if nconn >= 1 and interesting >= 2:
            run.nt(("world", idx, len(sim.log), nconn))
        run.sample({"world": idx, "cfg": list(cfg), "steps": len(sim.steps), "connects": nconn,
                    "facts": sorted(facts), "handler_events": [lib.jsonable(o[1][:2]) for o in sim.log if o[0] == 0 and o[1][0] != 2][:12]})
        return [label, len(sim.steps)], [0] if diff is None else [1, diff], sim
    finally:
        w.close()


def kick_at_shutdown_scenario(run, rng, idx, steps_before_finish):
    """directed: several connected clients; one leaves (peer DISCONNECT); the handler's disconnect event
    kicks every other client (client.disconnect() from inside the event, i.e. after the sweep may already
    have passed them in this tick); the server is shut down `steps_before_finish` iterations later.
    Every client that connected must still get exactly one disconnect event."""
    cfg = CFGS[1]
    base = V.random_policy(rng, p_raise=0.0, chatty=False)

    def policy(sim, n, ev):
        acts, raises = base(sim, n, ev)
        if ev[0] == 5:
            acts = [a for a in acts if a[0] != 0] + [[0, V.av(a)] for a in list(sim.ctxt.connections.keys())]
        return acts, raises
    w = V.World(run, rng, cfg=cfg, policy=policy, full=True, mtu=1500)
    sim = w.sim
    addrs = [("10.2.0.%d" % (i + 1), 6000 + i) for i in range(4)]
    try:
        order = list(addrs)
        rng.shuffle(order)
        for a in order:
            w.add_client(a)
            for _ in range(rng.randrange(1, 4)):
                if not w.step(300, [], []):
                    break
        for _ in range(12):
            if all(c["hc"].status() == 2 for c in w.clients):
                break
            w.step(300, [], [])
        leaver = rng.choice(w.clients)
        leaver["hc"].client.disconnect()
        for _ in range(steps_before_finish):
            w.step(300, [], [])
        w.finish()
        diff = sim.check_model()
        label = "kick-at-shutdown %d/%d" % (idx, steps_before_finish)
        lifecycle_oracle(run, sim, label, cfg)
        run.count("kick-at-shutdown worlds")
        if sim.internal:
            raise RuntimeError("harness-internal problem: %s" % sim.internal[:3])
        run.nt(("kick", idx, steps_before_finish, len(sim.log)))
        return [label, len(sim.steps)], [0] if diff is None else [1, diff], sim
    finally:
        w.close()


CB_RULE = ("callback worlds (implementation only): up to 30 real clients connect, are served, and go silent in the same tick; the handler "
           "sends client i one message (retry NONE / BEST_EFFORT / RETRY_ON_TIMEOUT) i ticks later whose delivery callback acts when called: "
           "disconnect-on-failure, disconnect-always, send-on-failure (chained acting callback), send-then-disconnect, kick-everybody-on-failure, "
           "raise, disconnect-then-raise; one kind per world (quick) or mixed; offsets i cover every tick from the silence to the silence "
           "time-out, configurations and tick lengths rotate, behind all six front doors; non-trivial = world in which >= 3 callbacks acted with "
           "failure inside update() and at least one update() call raised out of the server's sweep or update loop")
CB_KINDS = ["disconnect-on-failure", "send-then-disconnect-on-failure", "disconnect-then-raise", "kick-everybody-on-failure",
            "disconnect-always", "send-on-failure", "raise"]
CB_GRID = [((7680, 3840, 1536, 3840), 600), ((5 * T, 2 * T, 1536, T), 3000), ((7680, 3840, 1536, 3840), 300), ((15360, 7680, 3840, 7680), 600),
           ((5 * T, 2 * T, 1536, T), 4500), ((15360, 7680, 3840, 3840), 1500)]


def callback_world(run, rng, idx, front, kind, cfg, dt, retry):
    from harness import srvx as X
    W = -(-cfg[0] // dt) + 2
    n_clients = min(W + 1, 30)
    mixed = kind == "mixed"
    kind_of = {}
    plan = {}              # step -> list of (addr, cbid)
    state = {"cb": 0}

    def cb_policy(sim, obj, cbid, ok):
        k = kind_of.get(cbid, "raise")
        me = V.av(obj.addr)
        acts, raises = [], False
        if k == "disconnect-on-failure" and not ok:
            acts = [[0, me]]
        elif k == "disconnect-always":
            acts = [[0, me]]
        elif k == "send-on-failure" and not ok:
            state["cb"] += 1
            kind_of[state["cb"]] = rng.choice(CB_KINDS)
            acts = [[1, me, b"again %d" % cbid, rng.choice([0, 1, -1]), state["cb"]]]
        elif k == "send-then-disconnect-on-failure" and not ok:
            acts = [[1, me, b"last words %d" % cbid, 0, -1], [0, me]]
        elif k == "kick-everybody-on-failure" and not ok:
            acts = [[0, V.av(a)] for a in list(sim.ctxt.connections.keys())]
        elif k == "disconnect-then-raise":
            acts, raises = ([[0, me]] if not ok else []), True
        elif k == "raise":
            raises = True
        return acts, raises

    def policy(sim, n, ev):
        acts = []
        if ev[0] == 4:
            for c in sim.ctxt.connections.values():
                if sim.cid(c) == ev[1]:
                    acts.append([1, V.av(c.addr), b"echo:" + ev[3][:100], 0, -1])
        if ev[0] == 2:
            for a, cbid in plan.pop(len(sim.steps), []):
                acts.append([1, V.av(a), b"are you there %d" % cbid, retry if not mixed else rng.choice([0, 1, -1]), cbid])
        return acts, (rng.random() < 0.1 if mixed else False)
    w = X.WorldX(run, rng, cfg=cfg, policy=policy, full=False, front=front, cb_policy=cb_policy)
    sim = w.sim
    if sim.reactor is not None:
        sim.reactor.inline = True
    label = "callback world %d (%s, %s, tick %d, retry %d)" % (idx, front, kind, dt, retry)
    try:
        recs = []
        for i in range(n_clients):
            recs.append(w.add_client(("10.4.%d.%d" % (idx % 200, i + 1), 7000 + i)))
            if i % 4 == 3:
                w.step(dt)
        for _ in range(6):
            w.step(dt)
            if all(r["hc"].status() == 2 for r in recs):
                break
        for r in recs:
            if r["hc"].status() == 2 and rng.random() < 0.5:
                r["hc"].client.send(b"hello from %d" % r["addr"][1])
        w.step(dt)
        w.step(dt)
        s0 = len(sim.steps)          # the handler's update event of this model step is the first in which everybody is silent
        for r in recs:
            r["ticking"] = False
        for i, r in enumerate(recs):
            state["cb"] += 1
            kind_of[state["cb"]] = rng.choice(CB_KINDS) if mixed else kind
            plan.setdefault(s0 + (i % (W + 1)), []).append((r["addr"], state["cb"]))
        for st in range(W + (cfg[3] // dt) + 6):
            if not w.step(dt):
                break
        w.finish()
        if sim.internal:
            raise RuntimeError("harness-internal problem: %s" % sim.internal[:3])
        if sim.thread_exc is not None or sim.died:
            run.oracle_violation("server loop died", {"what": "server loop died", "label": label, "exception": repr(sim.thread_exc)[:160]},
                                 "server.py:UdpServerThread.run")
        # disconnect exactly once, with the story of the client: which model step each event fell in, what its callbacks did
        step, where = 0, {}
        for o in sim.log:
            if o == [0, [2]]:
                step += 1
            elif o[0] == 0 and o[1][0] in (3, 5):
                where.setdefault(o[1][1], []).append(["connect" if o[1][0] == 3 else "disconnect", step])
        for cid, evs in where.items():
            nd = sum(1 for e in evs if e[0] == "disconnect")
            if nd != 1 or evs[0][0] != "connect":
                run.oracle_violation("disconnect not reported exactly once",
                                     {"what": "disconnect not reported exactly once", "label": label, "cid": cid, "cfg": list(cfg), "tick": dt,
                                      "events_with_loop_iteration": evs[:6],
                                      "callbacks_of_this_client[iteration,cid,cbid,ok,actions,raises]": [list(c) for c in sim.cb_calls if c[1] == cid][:4],
                                      "update_raised_for_this_client": sum(1 for o in sim.log if o == [5, cid])},
                                     "server.py:UdpServerThread.run (disconnect / time-out sweep)")
        lifecycle_oracle(run, sim, label, cfg)
        acted = sum(1 for c in sim.cb_calls if c[3] == 0 and (c[4] or c[5]))
        raised_out = sum(1 for o in sim.log if o[0] == 5)
        run.count("callback worlds")
        run.count("callback worlds behind " + front)
        run.count("callback worlds " + kind)
        run.count("callbacks that acted on failure", acted)
        run.count("update() calls that raised out of the sweep / update loop", raised_out)
        run.count("connects", sum(1 for o in sim.log if o[0] == 0 and o[1][0] == 3))
        run.evaluations += len(sim.steps)
        if acted >= 3 and raised_out >= 1:
            run.nt(("callback world", idx, front, kind, dt))
        if idx < 2:
            run.sample({"world": label, "clients": n_clients, "steps": len(sim.steps), "callback_calls": [list(c) for c in sim.cb_calls[:6]],
                        "raised_out_of_update": raised_out})
    finally:
        w.close()


def run(run):
    run.rules.append(RULE)
    get_token_cases(run)
    n = 1200 if run.thorough() else 150
    cases, impl, model = [], [], []
    for i in range(n):
        c, d, sim = scenario(run, run.rng, i)
        cases.append(c)
        impl.append([0])
        model.append(d)
    for i in range(24 if run.thorough() else 8):
        for k in (0, 1, 2, 3):
            c, d, sim = kick_at_shutdown_scenario(run, run.rng, i, k)
            cases.append(c)
            impl.append([0])
            model.append(d)
    run.compare("srv_run", cases, impl, model)
    from harness import srvx as X
    run.rules.append(CB_RULE)
    fronts = list(X.FRONTS) + list(X.REACTOR_FRONTS)
    nw = 72 if run.thorough() else 10
    with X.logging_enabled():
        for i in range(nw):
            cfg, dt = CB_GRID[i % len(CB_GRID)]
            kind = (CB_KINDS + ["mixed"])[i % (len(CB_KINDS) + 1)] if i >= 3 else CB_KINDS[0]
            callback_world(run, run.rng, i, fronts[i % len(fronts)], kind, cfg, dt, retry=[0, 1, -1][(i // 2) % 3])
