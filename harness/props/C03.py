"""C03 — AES-GCM nonces never repeat; nothing but the hellos travels in clear.

Correspondence: two REAL endpoints (UdpClient + ServerClientConnection) joined by the simulated
network of harness/netsim.py (loss / duplication / reordering), every event replayed on the
Conn.v model (unit conn_run / conn_run_from): outputs (decoded emitted datagrams: header, sealing
key id, payload) and full private-state snapshots must agree after every event.  Sessions:
(a) real three-message handshakes followed by traffic, (b) established sessions with mixed traffic
and idle periods, (c) long constant-traffic sessions that cross the 16-bit wrap of the datagram
counter (quick: started 400 below the wrap; thorough: from 0 through three wraps).

Oracle (implementation only, on the raw bytes handed to the socket): per session key no two
datagrams of either direction share bytes 0..11; every datagram emitted by an endpoint that holds
a key, except those typed SERVER_HELLO, opens with AESGCM(key).decrypt(nonce=d[:12], ct=d[20:],
aad=d[:20]) and has exactly 20+len+16 bytes; no application payload tag occurs in any datagram's
bytes as sent.  "Holds a key" means: has agreed a session key at any earlier moment of the session — the
key an endpoint held is remembered by the harness, so a datagram emitted after the connection object
forgot its key (disconnect, time-out, ...) is still required to be sealed under the session key.
Sessions (d): the application closes the connection — UdpClient.disconnect() or the server-side kick
ServerClientConnection.disconnect() — while best-effort / guaranteed messages are waiting to be re-sent
(their acks were lost); the closing datagrams (DISCONNECT + the re-sent messages) and everything either
side emits afterwards (further send() calls, further disconnect() calls, late datagrams arriving after
the terminal state) are judged by the same oracle and replayed on the model.
Sessions (e), implementation only (hold_world): the moment between BUILDING a packet and SEALING it.  The real server
loop (stepped, harness/srvx.py) behind the fronts where a built Packet object is held before Packet.to_bytes runs:
TwistedServer.sendPackets / ThreadedServer (batch handed to reactor.callFromThread; a stub reactor queues the calls and
the harness, playing the reactor thread, runs them 0..k ticks later, also after the server thread has exited) and
UdpServerThread.send (the tick's batch of all clients is complete before the first packet is sealed).  Real handshakes,
several clients, server-side sends on consecutive ticks (handler sends, echoes, retried and fragmented messages,
keep-alives, kicks).  Oracle on the bytes the transport was given: per session key no two datagrams share bytes 0..11;
every datagram (except SERVER_HELLO) opens with AESGCM under the key the packet was handed over with, with its own 20
header bytes as AAD, to exactly the plaintext the packet had at the hand-over; its header is the header the packet had
at the hand-over (so it carries the sequence number assigned when it was built); per destination the sequence numbers
written are pairwise distinct and increasing; no application tag in clear.
Sessions (f), implementation only (session_sendfail): the client's SOCKET refuses datagrams — sock.sendto raises OSError
(ENOBUFS, ENETUNREACH, EAGAIN, EPERM; connsim.FakeSock's optional fail_next switch) for 1..4 consecutive calls at random
moments, while the application keeps queueing between updates (all retry modes, callbacks) and acknowledgements flow.
Whatever UdpClient.update does with the error (the unchanged tree lets it propagate: recorded, the session goes on), the
oracle looks at every datagram the endpoint SEALED — every byte string handed to sendto, refused or not: per key no two
of them share bytes 0..11 unless they are byte-identical, each opens under the session key with its header as AAD, no
application tag in clear."""
import re, struct
from harness import lib, netsim, connsim as S

RULE = ("netsim sessions (handshake / established mixed traffic / wrap-crossing constant traffic / application-side "
        "disconnect() by the client API or the server-side kick with re-sends pending, then sends, further disconnects and "
        "late datagrams after the terminal state) under random "
        "loss, duplication, reordering; non-trivial = session that emitted >= 20 sealed datagrams in each direction "
        "(wrap sessions: crossed seq 65535 -> 1 in both directions; disconnect sessions: the closing side had messages "
        "pending re-send and application messages left with or after its DISCONNECT)")
ASSUMPTIONS = ["AES-GCM, ECDH/HKDF and ECDSA of the `cryptography` package are trusted (symbolic in the model)",
               "clock values are multiples of 1/1024 s (exact binary fractions), below 2^32 s"]
USES_GENERATED_HDR = True
TRUSTED = ["harness/connsim.py + netsim.py: translation between real datagram bytes and the model's symbolic datagrams "
           "(the harness decrypts every emitted datagram itself with AESGCM)"]

T = S.TICKS
TAG = re.compile(rb"\d{8}\|")


def oracle_session(run, net, label):
    """the property on the bytes actually handed to the socket"""
    from cryptography.hazmat.primitives.ciphers.aead import AESGCM
    nonces = {}
    n_sealed = {"client": 0, "server": 0}
    wrapped = {"client": False, "server": False}
    for who in ("client", "server"):
        prev_seq = None
        for idx, rec in enumerate(net.emitted[who]):
            d = rec["raw"]
            typ = d[12]
            ln = struct.unpack(">H", d[13:15])[0]
            seq = struct.unpack(">H", d[8:10])[0]
            if prev_seq is not None and seq < prev_seq:
                wrapped[who] = True
            prev_seq = seq
            kid = rec["keyid"]
            if TAG.search(d):
                run.oracle_violation("app-bytes-in-clear", {"session": label, "who": who, "index": idx,
                                                            "hdr": rec["hdr"], "datagram": d[:64]}, "wire")
            if kid is None or kid < 0:
                # no key yet: only a hello may travel (typed CLIENT_HELLO from the client)
                if typ not in (1, 2):
                    run.oracle_violation("clear-non-hello", {"session": label, "who": who, "index": idx, "hdr": rec["hdr"]},
                                         "Packet.to_bytes")
                continue
            if typ == 2:
                continue        # the signed server hello is the documented exception
            key = net.keys.bytes_of(kid)
            try:
                AESGCM(key).decrypt(d[:12], d[20:], d[:20])
                ok = len(d) == 20 + ln + 16
            except Exception:     # noqa
                ok = False
            if not ok:
                case = {"session": label, "who": who, "index": idx, "hdr": rec["hdr"], "len": len(d)}
                if rec.get("key_forgotten"):
                    case["endpoint_forgot_its_session_key"] = True
                if "after_disconnect" in rec:
                    case["emitted_after_disconnect_by"] = rec["after_disconnect"]
                    case["messages"] = rec.get("msgs")
                run.oracle_violation("not-sealed-under-session-key", case, "Packet.to_bytes")
                continue
            n_sealed[who] += 1
            k = (kid, d[:12])
            if k in nonces:
                run.oracle_violation("nonce-reuse", {"session": label, "first": nonces[k], "second": [who, idx],
                                                     "nonce": d[:12], "hdr": rec["hdr"]}, "_build_packet")
            nonces[k] = [who, idx]
    return n_sealed, wrapped


class Net2(netsim.Net):
    """netsim.Net that also records the key each endpoint held when it emitted a datagram"""

    def tick(self, who, rx=None):
        before = len(self.emitted[who])
        conn0 = self.ep(who).impl.conn
        held = getattr(self, "held", None)
        if held is None:
            held = self.held = {"client": -1, "server": -1}
        if conn0 is not None and conn0.session_key_bytes:
            held[who] = self.keys.id_of(conn0.session_key_bytes)      # the key held BEFORE this update
        outs = super().tick(who, rx)
        conn = self.ep(who).impl.conn
        kid = self.keys.id_of(conn.session_key_bytes) if conn is not None else -1
        if kid >= 0:
            held[who] = kid
        for rec in self.emitted[who][before:]:
            # the key the endpoint holds after the update that emitted the datagram (the client
            # derives it while processing the server hello and emits afterwards, in the same update);
            # an endpoint that held a session key and holds none now is judged by the key it held
            rec["keyid"] = kid if kid >= 0 else held[who]
            rec["key_forgotten"] = kid < 0 <= held[who]
        return outs

    def disconnect(self, who):
        conn = self.ep(who).impl.conn
        if conn is not None and conn.session_key_bytes:
            if getattr(self, "held", None) is None:
                self.held = {"client": -1, "server": -1}
            self.held[who] = self.keys.id_of(conn.session_key_bytes)
        return super().disconnect(who)


def fix_keyids(net):
    for who in ("client", "server"):
        for rec in net.emitted[who]:
            rec.setdefault("keyid", -1)


def session_handshake(run, rng, n, label):
    cfg = {"loss": rng.choice([0, 0, 0.1]), "dup": rng.choice([0, 0.2]), "reorder": rng.choice([0, 0.3]),
           "tick": rng.choice([300, 600, 900]), "delay": rng.choice([0, 300, 600, 1500])}
    mtu = rng.choice([1500, 1500, 512, 800, 1096])
    net = Net2(run, rng, cfg, mtu=mtu, established=False, key=None)
    try:
        net.A.apply(("hello", net.t, rng.randrange(2)))
        eager = rng.random() < 0.6     # the application also calls send() while the handshake is still running
        for i in range(n):
            both = net.A.impl.conn.status.value == 2 and net.B.impl.conn.status.value == 2
            if (both or eager) and rng.random() < 0.5:
                who = rng.choice(["client", "server"])
                net.send(who, rng.choice([0, 1, 9, 40, 300, net.env[0], net.env[0] + 1, 2500]), rng.choice([0, 1, -1]))
            net.step()
        fix_keyids(net)
        diffs = net.check_models()
    finally:
        net.close()
    return net, diffs, {"mtu": mtu, **cfg}


def session_mixed(run, rng, n, label):
    cfg = {"loss": rng.choice([0, 0.1, 0.3]), "dup": rng.choice([0, 0.2]), "reorder": rng.choice([0, 0.3]),
           "tick": rng.choice([300, 600, 1500, 4500])}
    mtu = rng.choice([1500, 512, 1096, 800])
    net = Net2(run, rng, cfg, mtu=mtu)
    try:
        idle = 0
        for i in range(n):
            if idle > 0:
                idle -= 1
            elif rng.random() < 0.05:
                idle = rng.randrange(5, 40)          # idle period: only keep-alives travel
            elif rng.random() < 0.6:
                who = rng.choice(["client", "server"])
                L = rng.choice([0, 1, 10, 100, 1000, net.env[0] - 1, net.env[0], net.env[0] + 1, 3000, 5000])
                net.send(who, L, rng.choice([0, 1, -1]))
            net.step()
        fix_keyids(net)
        diffs = net.check_models()
    finally:
        net.close()
    return net, diffs, {"mtu": mtu, **cfg}


def session_disconnect(run, rng, n, label):
    """the application closes the connection while messages are waiting to be re-sent"""
    cfg = {"loss": rng.choice([0, 0, 0.1]), "dup": rng.choice([0, 0.2]), "reorder": rng.choice([0, 0.2]),
           "tick": rng.choice([300, 600, 900])}
    mtu = rng.choice([1500, 1500, 512, 1096])
    handshake = rng.random() < 0.3
    net = Net2(run, rng, cfg, mtu=mtu, established=False, key=None) if handshake else Net2(run, rng, cfg, mtu=mtu)
    who = rng.choice(["client", "server"])          # who closes: client API / server-side kick
    peer = net.other(who)
    info = {"closed_by": who, "handshake": handshake, "pending_resend_at_close": 0, "datagrams_after_close": 0,
            "messages_after_close": 0}
    try:
        if handshake:
            net.A.apply(("hello", net.t, rng.randrange(2)))
            for i in range(40):
                net.step()
                if net.A.impl.conn.status.value == 2 and net.B.impl.conn.status.value == 2:
                    break
        sizes = [1, 9, 40, 300, net.env[0], net.env[0] + 1, 2500]
        for i in range(rng.randrange(3, n)):
            if rng.random() < 0.5:
                net.send(rng.choice(["client", "server"]), rng.choice(sizes), rng.choice([0, 1, -1]))
            net.step()
        # the acks towards the closing side are lost for a while: its retried messages stay pending
        quiet = rng.random() < 0.8
        if quiet:
            net.drop_filter = lambda w, rec: w == peer
        for i in range(rng.choice([1, 2, 4, 8])):
            for _ in range(rng.randrange(1, 4)):
                net.send(who, rng.choice(sizes), rng.choice([1, -1, -1, 0]), api=rng.random() < 0.3)
            net.step()
        conn = net.ep(who).impl.conn
        info["pending_resend_at_close"] = len(conn.pending_retry_msg)
        info["queued_at_close"] = len(conn.outgoing_messages)
        mark = {w: len(net.emitted[w]) for w in ("client", "server")}
        net.disconnect(who)
        if rng.random() < 0.5:
            net.drop_filter = None
        closed = {who}
        for i in range(rng.choice([12, 25, 40])):
            r = rng.random()
            if r < 0.3:
                net.send(rng.choice(["client", "server"]), rng.choice(sizes), rng.choice([0, 1, -1]))   # after the terminal state
            elif r < 0.4:
                w = rng.choice(["client", "server"])
                net.disconnect(w)                       # again / the other side closes as well
                closed.add(w)
            elif r < 0.5 and net.emitted[peer]:
                net.replay(who, rng.randrange(len(net.emitted[peer])))      # a late datagram after the terminal state
            net.step()
        info["closed"] = sorted(closed)
        for w in ("client", "server"):
            for rec in net.emitted[w][mark[w]:]:
                rec["after_disconnect"] = who
                ms = S.decode_msgs_py(rec["hdr"][4], rec["hdr"][6], bytes(rec["payload"])) or []
                rec["msgs"] = [[sq, ty, len(p)] for (sq, ty, p) in ms][:6]
                if w == who:
                    info["datagrams_after_close"] += 1
                    info["messages_after_close"] += sum(1 for (_, ty, _) in ms if ty in (6, 7))
        fix_keyids(net)
        diffs = net.check_models()
    finally:
        net.close()
    return net, diffs, {"mtu": mtu, **cfg, **info}


def session_sendfail(run, rng, n, label):
    """the client's socket refuses datagrams now and then; see (f) in the module docstring"""
    import errno
    from cryptography.hazmat.primitives.ciphers.aead import AESGCM
    cfg = {"loss": rng.choice([0, 0, 0.1]), "dup": 0, "reorder": 0, "tick": rng.choice([300, 525, 600, 900]),
           "scenario": "client socket sendto raises OSError"}
    mtu = rng.choice([1500, 1500, 512])
    handshake = rng.random() < 0.3
    net = Net2(run, rng, cfg, mtu=mtu, established=False, key=None) if handshake else Net2(run, rng, cfg, mtu=mtu)
    sock = net.A.impl.sock
    info = {"mtu": mtu, **cfg, "handshake": handshake, "refused": 0, "update_raised": 0}
    keyids = []                      # per handed datagram: the key the client held after the update that sealed it
    try:
        if handshake:
            net.A.apply(("hello", net.t, rng.randrange(2)))
            for i in range(40):
                net.step()
                if net.A.impl.conn.status.value == 2 and net.B.impl.conn.status.value == 2:
                    break
        for i in range(n):
            r = rng.random()
            if r < 0.6:
                for _ in range(rng.choice([1, 1, 2, 3])):
                    net.send(rng.choice(["client", "client", "server"]), rng.choice([0, 1, 9, 40, 300, net.env[0], 2500]),
                             rng.choice([0, 1, -1]), with_cb=rng.random() < 0.4)
            if sock.fail_next == 0 and rng.random() < 0.25:
                sock.fail_next = rng.choice([1, 1, 2, 4])
                sock.fail_exc = OSError(*rng.choice([(errno.ENOBUFS, "No buffer space available"), (errno.ENETUNREACH, "Network is unreachable"),
                                                     (errno.EAGAIN, "Resource temporarily unavailable"), (errno.EPERM, "Operation not permitted")]))
                if sock.fail_exc.errno == errno.EAGAIN and rng.random() < 0.5:
                    sock.fail_exc = BlockingIOError(errno.EAGAIN, "Resource temporarily unavailable")
            net.step()
            conn = net.A.impl.conn
            kid = net.keys.id_of(conn.session_key_bytes) if conn is not None and conn.session_key_bytes else -1
            while len(keyids) < len(sock.handed):
                keyids.append(kid)
        sock.fail_next = 0
        for i in range(20):
            net.step()
        while len(keyids) < len(sock.handed):
            keyids.append(keyids[-1] if keyids else -1)
        info["refused"] = sum(1 for d, ok in sock.handed if not ok)
        info["update_raised"] = sum(1 for x in net.raised if x[1] == "client" and x[2] == "update")
        # ---- oracle over everything the client SEALED
        seen = {}
        for idx, ((d, accepted), kid) in enumerate(zip(sock.handed, keyids)):
            run.evaluations += 1
            case = {"session": label, "who": "client", "index": idx, "hdr": S.unpack_header(d), "accepted_by_socket": accepted,
                    "cfg": info}
            if TAG.search(d):
                run.oracle_violation("app-bytes-in-clear", dict(case, datagram=d[:64]), "wire")
            if kid < 0 or d[12] in (1, 2):
                continue
            try:
                plain = AESGCM(net.keys.bytes_of(kid)).decrypt(d[:12], d[20:], d[:20])
            except Exception:       # noqa
                run.oracle_violation("not-sealed-under-session-key", dict(case, len=len(d)), "Packet.to_bytes")
                continue
            k = (kid, d[:12])
            if k in seen and sock.handed[seen[k]][0] != d:
                first = sock.handed[seen[k]]
                run.oracle_violation("nonce-reuse", dict(case, nonce=d[:12], first_index=seen[k], first_accepted_by_socket=first[1],
                                                         first_hdr=S.unpack_header(first[0]), same_plaintext=False,
                                                         sealed_datagrams_differ=True), "_build_packet / UdpClient.update")
            seen.setdefault(k, idx)
    finally:
        net.close()
    return net, info


def session_wrap(run, rng, builds, seq0, label):
    """constant small traffic in both directions so that every tick builds a datagram"""
    cfg = {"loss": 0.02, "dup": 0.02, "reorder": 0.05, "tick": 300, "max_delay": T // 4}
    net = Net2(run, rng, cfg, mtu=1500, seq0=seq0)
    net.A.snap = net.B.snap = builds <= 5000
    try:
        for i in range(builds):
            net.send("client", 9, rng.choice([0, 0, 1, -1]), with_cb=False)
            net.send("server", 9, rng.choice([0, 0, 1, -1]), with_cb=False)
            net.step()
        fix_keyids(net)
        diffs = net.check_models()
    finally:
        net.close()
    return net, diffs, {"seq0": seq0, "builds": builds}


HOLD_RULE = ("hold worlds (implementation only): 1-3 real clients handshake with the stepped real server behind twisted-reactor / "
             "threaded-reactor (stub reactor lagging 0..4 ticks at random, flushing after shutdown) and behind the directly sending "
             "fronts; the handler sends to every client on consecutive ticks (all retry modes, fragments), echoes, kicks; "
             "non-trivial = reactor world in which >= 10 packets were sealed at least one tick after they were built and >= 2 "
             "packets for one client waited in the queue together")


def hold_oracle(run, sim, label, info):
    """the property on what the transport was given, against the photograph taken when the server thread let go of the packet"""
    from cryptography.hazmat.primitives.ciphers.aead import AESGCM
    nonces, last_seq = {}, {}
    held, sealed = 0, 0
    for idx, w in enumerate(sim.written):
        d, addr, snap = w["data"], w["addr"], w["snap"]
        case = dict(info, session=label, index=idx, addr=list(addr), built_in_step=w["step_built"], written_in_step=w["step_written"],
                    wire_header=S.unpack_header(d) if len(d) >= 20 else None)
        if TAG.search(d):
            run.oracle_violation("app-bytes-in-clear", dict(case, datagram=d[:64]), "wire")
        if snap is None:
            run.oracle_violation("datagram written that was not in the batch handed over", case, "twisted.py:sendPacketsUnsafe / server.py:send")
            continue
        case["header_when_built"] = snap["hdr"]
        if tuple(snap["addr"]) != tuple(addr):
            run.oracle_violation("datagram written to another destination than the packet was built for", case, "twisted.py:sendPacketsUnsafe")
            continue
        if w["step_written"] > w["step_built"]:
            held += 1
        if len(d) < 20 or S.unpack_header(d) != snap["hdr"]:
            run.oracle_violation("header-changed-between-build-and-seal", case, "connection.py:_build_packet_impl / Packet.to_bytes")
        key = snap["key"]
        if d[12] == 2 or snap["hdr"][4] == 2:
            continue                # the signed server hello is the documented exception
        if key is None:
            run.oracle_violation("clear-non-hello", case, "Packet.to_bytes")
            continue
        ln = struct.unpack(">H", d[13:15])[0]
        try:
            plain = AESGCM(key).decrypt(d[:12], d[20:], d[:20])
            ok = len(d) == 20 + ln + 16
        except Exception:     # noqa
            plain, ok = None, False
        if not ok:
            run.oracle_violation("not-sealed-under-session-key", dict(case, len=len(d)), "Packet.to_bytes")
        elif plain != snap["plain"]:
            run.oracle_violation("plaintext-changed-between-build-and-seal", dict(case, sealed=plain[:40], built=snap["plain"][:40]),
                                 "Packet.to_bytes")
        else:
            sealed += 1
        k = (key, d[:12])
        if k in nonces:
            first = sim.written[nonces[k]]
            run.oracle_violation("nonce-reuse", dict(case, nonce=d[:12], first_index=nonces[k], first_built_in_step=first["step_built"],
                                                     same_plaintext=first["data"] == d), "_build_packet / twisted.py:sendPackets")
        else:
            nonces[k] = idx
        seq = struct.unpack(">H", d[8:10])[0]
        prev = last_seq.get((key, addr))
        if prev is not None and not (1 <= (seq - prev) % 65535 < 32768):
            run.oracle_violation("sequence numbers on the wire not increasing", dict(case, previous=prev, seq=seq), "_build_packet")
        last_seq[(key, addr)] = seq
    return held, sealed


def hold_world(run, rng, idx, front):
    from harness import srvsim as V, srvx as X
    state = {"n": 0}

    def policy(sim, n, ev):
        acts = []
        me = None
        if ev[0] in (3, 4, 5):
            for c in sim.ctxt.connections.values():
                if sim.cid(c) == ev[1]:
                    me = V.av(c.addr)
        if ev[0] == 4 and me:
            acts.append([1, me, b"echo:" + ev[3][:600], 0, -1])
            if rng.random() < 0.03:
                acts.append([0, me])
        if ev[0] == 2 and rng.random() < 0.85:
            for a in list(sim.ctxt.connections.keys()):
                state["n"] += 1
                L = rng.choice([0, 3, 3, 40, 40, 900, 2500])
                acts.append([1, V.av(a), b"%08d|" % state["n"] + bytes(rng.randrange(256) for _ in range(L)), rng.choice([0, 0, 1, -1]), -1])
        return acts, False
    lag = rng.choice([0, 1, 2, 4])
    busy_left = {"n": 0}

    def reactor_busy(w):
        if busy_left["n"] > 0:
            busy_left["n"] -= 1
            return True
        if lag and rng.random() < 0.5:
            busy_left["n"] = rng.randrange(0, lag)
            return True
        return False
    reactor = front in X.REACTOR_FRONTS
    w = X.WorldX(run, rng, cfg=rng.choice([(5 * T, 2 * T, 1536, T), (15360, 7680, 768, 7680)]), policy=policy, full=False,
                 front=front, mtu=rng.choice([1500, 1500, 800]), hold_probe=not reactor, reactor_busy=reactor_busy if reactor else None)
    sim = w.sim
    info = {"front": front, "reactor_lag_ticks_up_to": lag if reactor else None}
    try:
        recs = [w.add_client(("10.3.%d.%d" % (idx % 200, i + 1), 5000 + i)) for i in range(rng.choice([1, 2, 3]))]
        nsteps = rng.randrange(50, 90) * (2 if run.thorough() else 1)
        for st in range(nsteps):
            for rec in recs:
                hc = rec["hc"]
                if hc.status() == 2 and rng.random() < 0.3:
                    hc.client.send(b"%08d|" % (9000000 + st) + bytes(rng.randrange(256) for _ in range(rng.choice([0, 5, 300]))),
                                   retry=rng.choice([0, 1, -1]))
            if not w.step(rng.choice([300, 300, 300, 600, 1500])):
                break
        w.finish()
        if sim.internal:
            raise RuntimeError("harness-internal problem: %s" % sim.internal[:3])
        if sim.thread_exc is not None:
            run.oracle_violation("server loop died", dict(info, session="hold%d" % idx, exception=repr(sim.thread_exc)[:160]), "server.py")
        held, sealed = hold_oracle(run, sim, "hold%d" % idx, info)
        queued_together = 0
        by = {}
        for wr in sim.written:
            by.setdefault((wr["addr"], wr["step_written"]), set()).add(wr["step_built"])
        queued_together = sum(1 for v in by.values() if len(v) >= 2)
        run.count("hold_worlds")
        run.count("hold_worlds_" + front)
        run.count("hold_datagrams", len(sim.written))
        run.count("hold_datagrams_sealed_a_tick_or_more_after_build", held)
        run.count("hold_turns_sealing_packets_of_several_ticks_for_one_client", queued_together)
        run.evaluations += len(sim.written)
        if (reactor and held >= 10 and queued_together >= 2) or (not reactor and sealed >= 40):
            run.nt(("hold", idx, front, len(sim.written), held))
        if idx < 2:
            run.sample({"session": "hold%d" % idx, "front": front, "lag": lag, "written": len(sim.written), "held": held,
                        "first": [wr["snap"]["hdr"] for wr in sim.written[:3] if wr["snap"]]})
    finally:
        w.close()


def run(run):
    rng = run.rng
    th = run.thorough()
    from harness import srvx as X
    fronts = list(X.REACTOR_FRONTS) * 3 + ["twisted-own", "twisted"]
    with X.logging_enabled():
        for i in range(64 if th else 16):
            hold_world(run, rng, i, fronts[i % len(fronts)])
    run.rules.append(HOLD_RULE)
    # sessions are generated lazily and the run stops generating once three of them disagree with the model:
    # on a broken tree every session disagrees and replaying all of them only costs time and memory
    plan = [("handshake", lambda i=i: session_handshake(run, rng, 60 if th else 40, "hs%d" % i)) for i in range(60 if th else 16)]
    plan += [("mixed", lambda i=i: session_mixed(run, rng, 200 if th else 90, "mx%d" % i)) for i in range(120 if th else 24)]
    plan += [("disconnect", lambda i=i: session_disconnect(run, rng, 30, "dc%d" % i)) for i in range(120 if th else 24)]
    if th:
        plan.append(("wrap", lambda: session_wrap(run, rng, 3 * 65535 + 2000, None, "wrap-full")))
    plan.append(("wrap", lambda: session_wrap(run, rng, 2500, [65535 - 400, 65535 - 300], "wrap-near")))

    def sessions_iter():
        bad = 0
        for kind, mk in plan:
            if bad >= 3:
                run.notes.append("stopped generating sessions after three disagreements with the model")
                return
            r = mk()
            if r[1]:
                bad += 1
            yield kind, r
    sessions = sessions_iter()

    cases, impl, mod = [], [], []
    for n, (kind, (net, diffs, cfg)) in enumerate(sessions):
        label = "%s%d" % (kind, n)
        cases.append({"session": label, "cfg": cfg, "first_difference": diffs[:1]})
        impl.append("agree")
        mod.append("agree" if not diffs else "differ")
        n_sealed, wrapped = oracle_session(run, net, label)
        run.count("sessions_" + kind)
        run.count("datagrams", len(net.emitted["client"]) + len(net.emitted["server"]))
        run.count("sealed_datagrams", n_sealed["client"] + n_sealed["server"])
        run.evaluations += len(net.emitted["client"]) + len(net.emitted["server"])
        nontrivial = min(n_sealed.values()) >= 20 and (kind != "wrap" or all(wrapped.values()))
        if kind == "disconnect":
            # non-trivial: the closing side still had messages to re-send and they left with / after the DISCONNECT
            nontrivial = cfg["pending_resend_at_close"] > 0 and cfg["messages_after_close"] > 0
            run.count("disconnects_with_resends_pending", 1 if nontrivial else 0)
            run.count("disconnect_by_" + cfg["closed_by"])
            run.count("datagrams_after_disconnect", cfg["datagrams_after_close"])
        if nontrivial:
            run.nt((label, n_sealed["client"], n_sealed["server"]))
        if kind == "wrap":
            run.notes.append("%s: wrapped client=%s server=%s, %d+%d sealed datagrams" % (
                label, wrapped["client"], wrapped["server"], n_sealed["client"], n_sealed["server"]))
            if not all(wrapped.values()):
                raise RuntimeError("wrap session did not cross the ring wrap: generator broken")
        if n < 3:
            run.sample({"session": label, "cfg": cfg, "emitted": [r["hdr"] for r in net.emitted["client"][:4]],
                        "sealed": n_sealed})
    run.compare("conn_run", cases, impl, mod)
    # ---- (f) the client's socket refuses datagrams (implementation only)
    import logging
    logging.disable(logging.CRITICAL)
    try:
        for i in range(60 if th else 14):
            net, info = session_sendfail(run, rng, 120 if th else 70, "sf%d" % i)
            fix_keyids(net)
            oracle_session(run, net, "sf%d" % i)            # and the usual clauses over what the socket accepted
            run.count("sessions_sendfail")
            run.count("datagrams_refused_by_the_socket", info["refused"])
            run.count("updates_that_raised_oserror", info["update_raised"])
            if info["refused"] >= 3:
                run.nt(("sf%d" % i, info["refused"], info["update_raised"]))
    finally:
        logging.disable(logging.NOTSET)
    run.rules.append(RULE)
    run.rules.append("socket failures (implementation only): sendto of the client raises OSError for 1..4 consecutive calls with probability "
                     "0.25 per frame, the application queues 0..3 messages per frame (all retry modes); non-trivial = session with >= 3 "
                     "refused datagrams; oracle over every datagram handed to sendto")
