"""C14 — deserializing hostile bytes is safe and bounded.

Correspondence units (model of mpgameserver/serializable.py deserialize_value and of the two
handshake receivers of ServerClientConnection vs the real code):
  ser_dec_log   outcome (value / exception kind), bytes left, number of deserialize_value calls and
                the complete log of stream.read calls (size argument, bytes returned), with the
                number of Python frames available pinned (sys.setrecursionlimit) so that
                RecursionError is compared exactly
  hs_hello      ServerClientConnection._recvClientHello(data)  -> continues / dropped / raises
  hs_challenge  ServerClientConnection._recvChallengeResponse(data) -> connected / raises
Oracle: the property restated on the implementation alone (no model): every decode returns within
a generous wall-clock bound, raises only an exception of the documented kinds, calls
deserialize_value at most |bs|/2+1 times and stream.read at most twice per call, never asks the
stream for more than the 1 MiB cap, gets back at most |bs| bytes, and returns only base types and
instances of registered classes; decoding the same shape with 4x the elements costs at most ~7x the time.  Wall time and tracemalloc peak per input are MEASURED against
c*|bs| and reported (notes); they are not proved.
Cost by operation count (serlib.count_ops: number of function-call events under sys.setprofile — every Python
function entered, every C function called from Python code, including __eq__/__hash__ entered from inside a
dict/set insertion; deterministic, independent of machine load): at most OPS_PER_BYTE*|bs| + OPS_CONST for EVERY
input of the main loop, and for containers (seq, set, map keys, map values, a set inside an object field) of every
element kind (scalars of each width, floats, str, bytes, class instances with different / partly equal / equal /
default / nested fields, enum members with legal, arbitrary, str, enum and object values, nested containers) the count
at 4n elements is at most OPS_SCALE times the count at n, and the bound holds at the cap of 16384 elements
(container_cost).  The same shapes with few elements go through the model comparison (family `container`).
Hostile persistent streams (persist_hostile): Serializable.load_persistant on valid records written under other id
assignments, their truncations and bit flips, crafted tables (count / id / name of every value kind, duplicates,
one id for every class, 16384 entries) and random bytes — terminates, documented exception kinds, closed result,
operation bound.  Process-level state clause: after every input of every family (deserialize_value, load_persistant,
the two handshake receivers) the serializer's process-wide tables and class attributes are what they were
(serlib.table_fingerprint per input, serlib.process_state per phase).
"""
import io, os, sys, time, struct, signal, tracemalloc
from harness import lib
from harness import serlib as SL

from mpgameserver import serializable as S
from mpgameserver import connection as CN

RULE = ("inputs = random byte strings (type-id biased) + EVERY truncation and EVERY single-bit flip of a corpus of valid "
        "encodings (generated values of the whole grammar, the test classes, the three handshake messages) + crafted length "
        "fields (every container/str/bytes/object tag x length encoded as int8/16/32/64, uint8/16/32, bool, float, None, str x "
        "values -2^63..2^63-1 around 0, the caps 2^14 and 2^20, and the width limits) + nesting of seq/map/set/enum/object to "
        "depth 1..100, 150, 400, 2000, 3000 with the frames pinned just below / at / above what the depth needs + unknown type "
        "ids (all 65536 in the thorough tier); non-trivial = the input is not a valid encoding (error outcome, or decodes with "
        "bytes left over or to a different value than the corpus item); containers seq/set/map-key/map-value/set-in-object-field x 33 "
        "element kinds (scalars, floats, str, bytes, class instances with different/equal/default/nested fields, enum members with "
        "legal/arbitrary/str/enum/object values, nested containers) at 2 and 24 elements against the model and at 64/256/16384 elements "
        "by python-level operation count (and wall clock for six of them); hostile persistent streams for load_persistant (records "
        "written under other id assignments, every 3rd truncation, sampled bit flips, crafted count/id/name tables, random bytes)")
ASSUMPTIONS = [
    "io.BytesIO.read(n) returns min(n, left) bytes (all of them for n < 0) and allocates only what it returns (CPython)",
    "dict/set insertion is one step per element: CPython hashing is not modelled (str/bytes hashes are randomised per process; "
    "numeric keys allow at most ~40 equal hashes within 64 bits), so hash-collision cost is measured, not proved",
    "EllipticCurvePublicKey.fromBytes (cryptography's DER parser) is external: its outcome per input is recorded on the "
    "implementation and handed to the model; the theorems account for its exceptions separately",
    "HandshakeClientHelloMessage is the only registered class with an attribute client_version (SerHs.v)",
    "frames: the model has one fuel = Python frames available.  CPython 3.12 additionally limits C-level recursion (a nested "
    "class-instance decode goes through a bound-method call with **kwargs): about 747 nested Serializable/SerializableEnum "
    "instances raise the same RecursionError however large sys.setrecursionlimit is.  The tie is exact for <= 1400 frames "
    "(default limit 1000); deeper class nesting under a raised limit is run through the oracle only (family c-recursion)",
    "a dict/set whose keys mix SerializableEnum and plain values: SerializableEnum.__eq__ raises AttributeError whenever CPython "
    "compares them, i.e. when their hashes are equal; the model raises it when the values are equal (then the hashes are), "
    "CPython hash collisions between UNEQUAL values (hash('') == hash(0), hash(-1) == hash(-2), ...) are not modelled: cases "
    "where the implementation raises AttributeError from SerializableEnum.__eq__ and the model goes on are counted "
    "(excluded_enum_hash_collision), checked to agree up to that point, and excluded",
]
USES_GENERATED_SER = True
TRUSTED = [
    "operation count = sys.setprofile call events: work done inside one C call without calling anything (probing inside a dict/set "
    "with colliding hashes, memcpy of a long bytes value) is invisible to it; that part is covered by the wall-clock measurements only",
    "CPython struct/io.BytesIO/dict/set, cryptography's DER parser: modelled or recorded, compared differentially, not verified",
    "wall time and tracemalloc peak are measurements over the generated inputs, not theorems",
]

DOCUMENTED = {101, 102, lib.ERR["struct.error"], lib.ERR["TypeError"], lib.ERR["ValueError"], lib.ERR["UnicodeError"],
              lib.ERR["IndexError"], lib.ERR["RecursionError"], lib.ERR["AttributeError"], lib.ERR["KeyError"]}
PY_EXACT_FRAMES = 1400     # below this many frames the Python recursion limit binds before CPython 3.12's C-recursion limit
HS_WALL_LIMIT = 3.0        # seconds per handshake-receiver input (a datagram-sized input decodes in microseconds)
ALLOC_PER_BYTE = 1024      # tracemalloc peak allowed per input byte (a nesting level costs ~2 input bytes and one Python frame)
ALLOC_CONST = 65536        # + this constant (measured on the unchanged tree: peak - 1024*|bs| <= ~1.1 KB over every sampled input)
WALL_LIMIT = 8.0          # seconds per input before the watchdog calls it a hang
OPS_PER_BYTE = 24         # python-level operations (function-call events, see serlib.count_ops) allowed per input byte ...
OPS_CONST = 160           # ... plus this constant (measured on the unchanged tree: <= ~7 per byte + ~40, see the MEASURED note)
OPS_SCALE = 4.5           # operations(4n elements) <= OPS_SCALE * operations(n elements) + OPS_CONST
HS_OPS_CONST = 400        # constant part for a handshake receiver (key parsing, ECDH, logging: measured far below, see the MEASURED note)


class Hang(BaseException):
    pass


class HangDetected(Exception):
    pass


_HANGS = []     # (receiver name, input) for which an unauthenticated-bytes receiver did not terminate


def _alarm(sig, frm):
    raise Hang()


class LogStream(io.BytesIO):
    """BytesIO logging every read call: (size argument, bytes returned)"""

    def __init__(self, b):
        super().__init__(b)
        self.log = []

    def read(self, n=-1):
        r = super().read(n)
        self.log.append([int(n), len(r)])
        return r


def decode_limited(frames, data, reg):
    """deserialize_value with exactly `frames` Python frames available (model fuel).
    -> (result [0, value] | [1, code], exception or None, stream)"""
    F = frames - SL.frame_offset()
    st = LogStream(data)
    old = sys.getrecursionlimit()
    sys.setrecursionlimit(SL._depth() + F)
    exc = None
    try:
        try:
            r = [0, S.deserialize_value(st, registry=reg)]
        except Exception as e:      # noqa
            exc = e
    finally:
        sys.setrecursionlimit(old)
    if exc is not None:
        r = [1, SL.exc_code(exc)]
    return r, exc, st


class CallCounter:
    """counts deserialize_value calls (a second, not frame-exact run: the wrapper costs a frame)"""

    def __enter__(self):
        self.n = 0
        self.orig = S.deserialize_value
        cn_orig = CN.deserialize_value
        self.cn_orig = cn_orig
        orig = self.orig

        def counted(stream, **kw):
            self.n += 1
            return orig(stream, **kw)
        S.deserialize_value = counted
        CN.deserialize_value = counted
        return self

    def __exit__(self, *a):
        S.deserialize_value = self.orig
        CN.deserialize_value = self.cn_orig


def count_calls(data, reg):
    old = sys.getrecursionlimit()
    sys.setrecursionlimit(max(old, 30000))
    try:
        with CallCounter() as cc:
            try:
                S.deserialize_value(io.BytesIO(data), registry=reg)
            except Exception:     # noqa
                pass
    finally:
        sys.setrecursionlimit(old)
    return cc.n


def from_enum_eq(exc):
    """was the exception raised by a comparison operator of SerializableEnum?"""
    tb = exc.__traceback__
    last = None
    while tb is not None:
        last = tb
        tb = tb.tb_next
    return last is not None and last.tb_frame.f_code.co_name in ("__eq__", "__ne__") and \
        last.tb_frame.f_code.co_filename.endswith("serializable.py")


def closed_over(v, classes, depth=0):
    """is v composed only of base types and instances of the registered classes?"""
    t = type(v)
    if v is None or t in (bool, int, float, str, bytes):
        return True
    if t in (list, tuple, set):
        for x in v:
            if not closed_over(x, classes):
                return False
        return True
    if t is dict:
        for k, x in v.items():
            if not (closed_over(k, classes) and closed_over(x, classes)):
                return False
        return True
    if t in classes:
        if isinstance(v, S.SerializableEnum):
            return closed_over(v.value, classes)
        if isinstance(v, CN.HandshakeClientHelloMessage):
            return isinstance(v.client_pubkey, CN.EllipticCurvePublicKey) and closed_over(v.client_version, classes)
        for f in v._fields:
            if not closed_over(getattr(v, f), classes):
                return False
        return True
    return False


def flat(w):
    """a nested wire value as a flat token list (values nested thousands deep cannot be compared with ==)"""
    out, stack = [], [w]
    while stack:
        x = stack.pop()
        if isinstance(x, list):
            out.append("(%d" % len(x))
            stack.extend(reversed(x))
        elif isinstance(x, (bytes, bytearray)):
            out.append("x" + bytes(x).hex())
        else:
            out.append(x)
    return out


# ------------------------------------------------------------------ input families
TAGS_LEN = {13: "str", 14: "bytes", 16: "seq", 17: "map", 18: "set"}


def enc_len(kind, n):
    """an encoded value used as a declared length; None when n does not fit the kind"""
    try:
        if kind == "i8":
            return struct.pack(">Hb", 3, n)
        if kind == "i16":
            return struct.pack(">Hh", 4, n)
        if kind == "i32":
            return struct.pack(">Hl", 5, n)
        if kind == "i64":
            return struct.pack(">Hq", 6, n)
        if kind == "u8":
            return struct.pack(">HB", 8, n)
        if kind == "u16":
            return struct.pack(">HH", 9, n)
        if kind == "u32":
            return struct.pack(">HL", 10, n)
    except struct.error:
        return None
    return None


LEN_VALUES = sorted(set(
    [0, 1, 2, 3, 5, 127, 128, 255, 256, 2 ** 14 - 1, 2 ** 14, 2 ** 14 + 1, 2 ** 15 - 1, 2 ** 15, 2 ** 16 - 1, 2 ** 16,
     2 ** 20 - 1, 2 ** 20, 2 ** 20 + 1, 2 ** 31 - 1, 2 ** 31, 2 ** 32 - 1, 2 ** 63 - 1,
     -1, -2, -128, -129, -2 ** 15, -2 ** 31, -2 ** 63, -2 ** 20, -2 ** 14]))
ODD_LENGTHS = [struct.pack(">H?", 1, True), struct.pack(">H?", 1, False), b"\x00\x01\x07", struct.pack(">Hf", 11, 2.0),
               struct.pack(">Hd", 12, 3.0), struct.pack(">H", 15), b"\x00\x0d\x00\x03\x01\x33", b"\x00\x0e\x00\x03\x00",
               b"\x00\x10\x00\x03\x00", b"\x00\x02\x05", b"\x00\x07\x05", b"\x00", b""]


def crafted_lengths(class_tags):
    out = []
    tails = [b"", b"\x00", b"\x00\x0f", b"\x00\x0f" * 3, b"\x00\x03\x07" * 4, b"abc\xff\xfe" + b"\x00\x0f" * 6]
    for tag in list(TAGS_LEN) + class_tags:
        head = struct.pack(">H", tag)
        for kind in ("i8", "i16", "i32", "i64", "u8", "u16", "u32"):
            for n in LEN_VALUES:
                e = enc_len(kind, n)
                if e is None:
                    continue
                for tl in tails:
                    out.append(head + e + tl)
        for e in ODD_LENGTHS:
            for tl in tails[:4]:
                out.append(head + e + tl)
    return out


def nestings(tid_enum, tid_obj):
    """(name, unit bytes per level, leaf)"""
    return [
        ("seq", b"\x00\x10\x00\x03\x01", b"\x00\x0f"),
        ("set", b"\x00\x12\x00\x03\x01", b"\x00\x03\x05"),
        ("map", b"\x00\x11\x00\x03\x01\x00\x0f", b"\x00\x0f"),
        ("enum", struct.pack(">H", tid_enum), b"\x00\x03\x01"),
        ("obj", struct.pack(">H", tid_obj) + b"\x00\x03\x01", b"\x00\x0f"),
        ("str-len", b"\x00\x0d", b"\x00\x03\x00"),        # a string whose length is a string whose length ...
        ("mixed", b"\x00\x10\x00\x03\x01" + struct.pack(">H", tid_enum) + b"\x00\x11\x00\x03\x01\x00\x03\x01", b"\x00\x0f"),
    ]


def biased_random(r, n):
    pool = [0, 0, 0, 0, 1, 3, 4, 5, 6, 8, 9, 10, 11, 12, 13, 14, 15, 16, 17, 18, 128, 130, 131, 132, 200, 255, 1, 2, 3]
    return bytes(r.choice(pool) if r.random() < 0.75 else r.getrandbits(8) for _ in range(n))


def hello_bytes(version=1):
    from mpgameserver.crypto import EllipticCurvePrivateKey
    m = CN.HandshakeClientHelloMessage()
    m.client_pubkey = EllipticCurvePrivateKey.new().getPublicKey()
    m.client_version = version
    return m.dumpb()


def server_hello_bytes():
    from mpgameserver.crypto import EllipticCurvePrivateKey
    root = EllipticCurvePrivateKey.new()
    m = CN.HandshakeServerHelloMessage()
    m.server_pubkey = EllipticCurvePrivateKey.new().getPublicKey()
    m.salt = b"0123456789abcdef"
    m.token = 0x41234567
    return m.dumpb(server_root_key=root)


def challenge_bytes(token):
    m = CN.HandshakeClientChallengeResponseMessage()
    m.token = token
    return m.dumpb()


def flips(b, positions=None):
    rng = range(len(b)) if positions is None else positions
    for i in rng:
        for k in range(8):
            yield b[:i] + bytes([b[i] ^ (1 << k)]) + b[i + 1:]


# ------------------------------------------------------------------ hostile containers of every element kind
def element_kinds():
    """name -> (i -> encoding of the i-th element, hashable?).  Elements are pairwise different values unless the name says
    otherwise; class instances with pairwise different field values, with equal field values, enum members holding
    legal, illegal (the decoder accepts any value), equal and nested values; nested containers."""
    H = struct.pack

    def i16(i):
        return H(">Hh", 4, i % 32768)

    def sv(i):
        return b"\x00\x0d\x00\x03\x05" + b"%05d" % i

    def obj(cls, *fields):
        return H(">H", cls.type_id) + H(">Hb", 3, len(fields)) + b"".join(fields)

    def enum(cls, val):
        return H(">H", cls.type_id) + val
    P, C, N = SL.VfPoint, SL.VfColor, SL.VfName
    return {
        "none": (lambda i: b"\x00\x0f", True),
        "bool": (lambda i: H(">H?", 1, i & 1), True),
        "int8": (lambda i: H(">Hb", 3, i % 128), True),
        "int16": (i16, True),
        "int64": (lambda i: H(">Hq", 6, (i << 40) + 1), True),
        "int64-neg": (lambda i: H(">Hq", 6, -(i << 33) - 2), True),
        "uint32": (lambda i: H(">HL", 10, i * 65537), True),
        "float32": (lambda i: H(">Hf", 11, i + 0.5), True),
        "float64": (lambda i: H(">Hd", 12, i * 1.0000001 + 0.25), True),
        "str": (sv, True),
        "str-empty": (lambda i: b"\x00\x0d\x00\x03\x00", True),
        "bytes": (lambda i: b"\x00\x0e\x00\x03\x03" + H(">L", i)[1:], True),
        "obj-point": (lambda i: obj(P, i16(i), i16(-i)), True),
        "obj-point-one-field-differs": (lambda i: obj(P, i16(7), i16(i)), True),
        "obj-challenge": (lambda i: obj(SL.CHAL, i16(i)), True),
        "obj-low": (lambda i: obj(SL.VfLow, i16(i)), True),
        "obj-high-str": (lambda i: obj(SL.VfHigh, sv(i)), True),
        "obj-high-list": (lambda i: obj(SL.VfHigh, b"\x00\x10\x00\x03\x01" + i16(i)), True),
        "obj-mix": (lambda i: obj(SL.VfMix, H(">H?", 1, i & 1), i16(i), H(">Hf", 11, i + 0.5), sv(i)), True),
        "obj-equal-fields": (lambda i: obj(P, i16(3), i16(4)), True),
        "obj-defaults": (lambda i: obj(P), True),
        "obj-empty": (lambda i: obj(SL.VfEmpty), True),
        "obj-nested": (lambda i: obj(SL.VfHigh, obj(P, i16(i), i16(i))), True),
        "enum-member": (lambda i: enum(C, H(">Hb", 3, 1 + i % 3)), True),
        "enum-any-int": (lambda i: enum(C, i16(i)), True),
        "enum-str": (lambda i: enum(N, sv(i)), True),
        "enum-of-enum": (lambda i: enum(C, enum(N, i16(i))), True),
        "enum-of-obj": (lambda i: enum(C, obj(P, i16(i), i16(i))), True),
        "seq": (lambda i: b"\x00\x10\x00\x03\x01" + i16(i), False),
        "seq-empty": (lambda i: b"\x00\x10\x00\x03\x00", False),
        "set": (lambda i: b"\x00\x12\x00\x03\x01" + i16(i), False),
        "map": (lambda i: b"\x00\x11\x00\x03\x01" + i16(i) + b"\x00\x0f", False),
        "seq-of-obj": (lambda i: b"\x00\x10\x00\x03\x02" + obj(P, i16(i), i16(i)) + enum(C, i16(i)), False),
    }


def container_makers():
    """name -> (element encoder, n) -> bytes"""
    def hdr(tag, n):
        return struct.pack(">H", tag) + struct.pack(">Hl", 5, n)

    def key(i):
        return struct.pack(">Hl", 5, i * 65537)
    return {
        "seq": lambda e, n: hdr(16, n) + b"".join(e(i) for i in range(n)),
        "set": lambda e, n: hdr(18, n) + b"".join(e(i) for i in range(n)),
        "map-key": lambda e, n: hdr(17, n) + b"".join(e(i) + b"\x00\x0f" for i in range(n)),
        "map-value": lambda e, n: hdr(17, n) + b"".join(key(i) + e(i) for i in range(n)),
        "obj-field-set": lambda e, n: struct.pack(">H", SL.VfHigh.type_id) + b"\x00\x03\x01" + hdr(18, n) + b"".join(e(i) for i in range(n)),
    }


def hostile_containers():
    """[(name, hashable, n -> bytes)] : every container kind x every element kind"""
    out = []
    for cn, mk in container_makers().items():
        for en, (e, hashable) in element_kinds().items():
            out.append(("%s/%s" % (cn, en), hashable, (lambda n, mk=mk, e=e: mk(e, n))))
    return out


def ops_of(data, reg, limit=None):
    return SL.count_ops(lambda: S.deserialize_value(io.BytesIO(data), registry=reg), limit)


# ------------------------------------------------------------------ the run
def run(run):
    old_limit = sys.getrecursionlimit()
    sys.setrecursionlimit(200000)       # the harness itself walks values nested thousands deep
    try:
        _run(run)
    finally:
        sys.setrecursionlimit(old_limit)


def _run(run):
    M = run.model
    r = run.rng
    SL.raise_stack_limit()
    T = run.thorough()
    reg = SL.py_registry()
    regw = SL.wire_registry(reg)
    classes = set(reg.values())
    tid_enum, tid_obj = SL.VfColor.type_id, SL.VfHigh.type_id
    signal.signal(signal.SIGALRM, _alarm)

    cases = []      # (family, frames, bytes)
    FR = SL.BIG_FRAMES
    t_last = [time.time()]

    def lap(name):
        now = time.time()
        run.notes.append("phase %s: %.1f s" % (name, now - t_last[0]))
        t_last[0] = now

    # ---- corpus of valid encodings
    corpus = []
    for _ in range(900 if T else 60):
        v = SL.gen_value(r, r.choice([1, 2, 3]))
        e = SL.impl_encode(v)
        if e[0] == 0 and len(e[1]) <= (400 if T else 90):
            corpus.append(e[1])
    for cls in SL.OBJS + [SL.CHAL]:
        corpus.append(cls().dumpb())
    for cls in SL.ENUMS:
        for val in cls._value2name:
            st = io.BytesIO()
            S.serialize_value(st, cls(val))
            corpus.append(st.getvalue())
    corpus.append(challenge_bytes(0x41234567))
    hello = hello_bytes()
    shello = server_hello_bytes()
    run.count("corpus_items", len(corpus) + 2)
    for c in corpus:
        cases.append(("valid", FR, c))
        for k in range(len(c)):
            cases.append(("trunc", FR, c[:k]))
        for f in flips(c):
            cases.append(("flip", FR, f))
        cases.append(("extended", FR, c + b"\x00\x0f"))
    run.exhaustive.append("every truncation and every single-bit flip of %d corpus encodings (%d bytes in all)"
                          % (len(corpus), sum(len(c) for c in corpus)))
    # handshake messages through deserialize_value (registry holds the handshake classes)
    head = 2 + 2 + 3 + 91 + 3 + 4      # type id, bytes tag, length, DER, version, a little padding
    for msg, name in ((hello, "hello"), (shello, "shello")):
        cases.append(("valid-" + name, FR, msg))
        for k in range(len(msg)) if T else list(range(0, min(len(msg), 140))) + list(range(140, len(msg), 37)) + [len(msg) - 1]:
            cases.append(("trunc-" + name, FR, msg[:k]))
        pos = None if T else list(range(0, min(len(msg), head))) + [r.randrange(head, len(msg)) for _ in range(12)]
        for f in flips(msg, pos):
            cases.append(("flip-" + name, FR, f))
    # ---- random bytes
    for _ in range(150000 if T else 4000):
        n = r.choice([0, 1, 2, 3, 4, 5, 6, 8, 12, 20, 40, 100]) if r.random() < 0.9 else r.randrange(100, 2000)
        cases.append(("random", FR, biased_random(r, n) if r.random() < 0.8 else bytes(r.getrandbits(8) for _ in range(n))))
    # ---- crafted length fields
    cl = crafted_lengths([SL.VfPoint.type_id, SL.VfEmpty.type_id, SL.VfBag.type_id, tid_obj, SL.CHAL.type_id])
    for b in cl:
        cases.append(("length", FR, b))
    # declared lengths at the caps with that many elements really present
    for tag, per in ((16, b"\x00\x0f"), (18, b"\x00\x0f"), (17, b"\x00\x0f\x00\x0f")):
        for n in ((2 ** 14, 2 ** 14 + 1) if T else (2 ** 14 + 1, 300)):
            cases.append(("length-full", FR, struct.pack(">H", tag) + struct.pack(">Hl", 5, n) + per * min(n, 2 ** 14)))
    nset = 2 ** 14 if T else 3000     # (the model's set is a list: distinct elements cost n^2/2 comparisons there)
    sset = struct.pack(">H", 18) + struct.pack(">Hl", 5, nset) + b"".join(struct.pack(">Hh", 4, i) for i in range(nset))
    cases.append(("length-full", FR, sset))
    cases.append(("length-full", FR, struct.pack(">H", 18) + struct.pack(">Hl", 5, 2 ** 14) + b"\x00\x03\x07" * 2 ** 14))
    for n in (2 ** 20, 2 ** 20 + 1, 70000):
        for tag in (13, 14):
            cases.append(("length-full", FR, struct.pack(">H", tag) + struct.pack(">Hl", 5, n) + b"a" * min(n, 2 ** 20)))
            cases.append(("length-short", FR, struct.pack(">H", tag) + struct.pack(">Hl", 5, n) + b"a" * 10))
    # nested containers each declaring the full 16384 elements with a single one present: the first missing
    # element must end every loop (an implementation that went on would need 16384^k iterations)
    for tag in (16, 17, 18):
        for k in (1, 2, 3, 10, 250):
            unit = struct.pack(">H", tag) + struct.pack(">Hl", 5, 2 ** 14) + (b"\x00\x0f" if tag == 17 else b"")
            cases.append(("length-nested", FR, unit * k + b"\x00\x0f"))
            cases.append(("length-nested", FR, unit * k))
    # ---- nesting
    depths = list(range(1, 101, 1 if T else 7)) + [100, 150, 400, 2000, 3000]
    cdeep = []          # class nesting beyond CPython's C-recursion limit: oracle only (see ASSUMPTIONS)
    for name, unit, leaf in nestings(tid_enum, tid_obj):
        via_class = name in ("enum", "obj", "mixed")
        for d in depths:
            body = unit * d + leaf
            per = 6 if name == "mixed" else 2
            need = per * d + 3
            fs = {need - 2, need - 1, need, need + 1, need + 2, FR, 10000} if (T or d in (1, 8, 50, 100, 2000)) else {need - 1, need + 2, FR}
            if via_class and d > 700:
                cdeep += [(f, body) for f in (need + 2, 10000)]
                fs = {FR, PY_EXACT_FRAMES}
            for f in sorted(x for x in fs if x >= 0):
                cases.append(("nest-" + name, f, body))
            cases.append(("nest-" + name, PY_EXACT_FRAMES if via_class and d > 700 else 10000, body[:-1]))
    # ---- unknown type ids
    ids = range(65536) if T else list(range(0, 300)) + [r.randrange(300, 65536) for _ in range(700)] + [65534, 65535]
    for t in ids:
        cases.append(("typeid", FR, struct.pack(">H", t) + b"\x00\x03\x01\x00\x0f"))
        if T or t < 300:
            cases.append(("typeid", FR, b"\x00\x10\x00\x03\x01" + struct.pack(">H", t) + b"\x00\x03\x00"))
    if T:
        run.exhaustive.append("all 65536 type ids, at top level and nested in a sequence")

    # ---- containers of every element kind (scalars, strings, bytes, class instances, enum members, containers), few elements:
    # outcome, value and read log are compared with the model here; their COST at hostile sizes is measured further down
    for name, hashable, mk in hostile_containers():
        for n in ((0, 1, 2, 3, 24) if T else (2, 24)):
            cases.append(("container", FR, mk(n)))
            if T:
                cases.append(("container", FR, mk(n)[:-1]))

    # ---- implementation: frame-exact run with the logging stream, then the call count
    impl, model_args, meta = [], [], []
    maxima = {"time_per_byte": 0.0, "time_abs": 0.0, "ops_per_byte": (0.0, None), "ops_excess": (0, None)}
    fp0 = SL.table_fingerprint(classes=False)
    guard = SL.StateGuard().__enter__()
    orc_seen = 0
    with SL.KeyOracle() as ko:
        n_hangs = 0
        for fam, frames, data in cases:
            if n_hangs >= 3:
                run.notes.append("stopped after 3 inputs on which the decoder did not terminate")
                break
            ko.table.clear()
            signal.setitimer(signal.ITIMER_REAL, WALL_LIMIT)
            t0 = time.perf_counter()
            try:
                res, exc, st = decode_limited(frames, data, reg)
            except Hang:
                run.oracle_violation("hang", {"family": fam, "frames": frames, "bytes": data[:4000], "len": len(data)},
                                     "serializable.py:deserialize_value")
                impl.append(None)
                model_args.append([regw, [], frames, data])
                meta.append(None)
                n_hangs += 1
                continue
            finally:
                signal.setitimer(signal.ITIMER_REAL, 0)
            dt = time.perf_counter() - t0
            pkw = ko.wire()
            pk_codes = set(c for _, c in pkw if c != 0)
            calls = None
            if not (res[0] == 1 and res[1] == lib.ERR["RecursionError"]):
                calls = count_calls(data, reg)
            value = res[1] if res[0] == 0 else None
            if res[0] == 0:
                out = [0, [flat(SL.canon(SL.to_wire(value))), len(data) - st.tell()]]
            else:
                out = res
            impl.append([out, calls, st.log, bool(exc is not None and res[1] == lib.ERR["AttributeError"] and from_enum_eq(exc))])
            model_args.append([regw, pkw, frames, data])
            meta.append((dt, exc, value, pk_codes, st))
            run.count(fam)
            run.count("outcome_ok" if res[0] == 0 else "outcome_err_%d" % res[1])

            # ---- oracle (implementation only)
            n = len(data)
            case = {"family": fam, "frames": frames, "len": n, "bytes": data[:600]}
            site = "serializable.py:deserialize_value"
            if res[0] == 1 and res[1] not in DOCUMENTED and res[1] not in pk_codes:
                run.oracle_violation("undocumented-exception", dict(case, exception=type(exc).__name__, code=res[1]), site)
            if calls is not None and calls > n // 2 + 1:
                run.oracle_violation("too-many-value-decodes", dict(case, calls=calls, bound=n // 2 + 1), site)
            if len(st.log) > 2 * (n // 2 + 1) or (calls is not None and len(st.log) > 2 * calls):
                run.oracle_violation("too-many-reads", dict(case, reads=len(st.log), calls=calls), site)
            if sum(k for _, k in st.log) > n or sum(k for _, k in st.log) != st.tell():
                run.oracle_violation("bytes-returned-exceed-input", dict(case, returned=sum(k for _, k in st.log)), site)
            if any(a > SL.MAXB or (a >= 0 and k > a) for a, k in st.log):
                run.oracle_violation("read-above-cap", dict(case, log=st.log[:20]), site)
            if res[0] == 0 and not closed_over(value, classes):
                run.oracle_violation("result-not-closed", dict(case, value_type=type(value).__name__,
                                                                  value=lib.jsonable(SL.to_wire(value))[:6]), site)
            # python-level operations (load independent): a small multiple of the input size
            ops, exceeded, _ = ops_of(data, reg, OPS_PER_BYTE * n + OPS_CONST)
            if exceeded:
                run.oracle_violation("too-many-operations", dict(case, operations=">%d" % (OPS_PER_BYTE * n + OPS_CONST),
                                                                 bound="%d*len+%d" % (OPS_PER_BYTE, OPS_CONST)), site)
            elif n >= 16 and ops / n > maxima["ops_per_byte"][0]:
                maxima["ops_per_byte"] = (ops / n, (fam, n))
            if not exceeded and ops - 8 * n > maxima["ops_excess"][0]:
                maxima["ops_excess"] = (ops - 8 * n, (fam, n))
            # decoding is a function of the bytes: nothing process-wide (type tables, counters, class attributes) changed
            if SL.table_fingerprint(classes=False) != fp0:
                run.oracle_violation("process-state-changed", dict(case, changed=guard.diff()[:6]), site)
                guard.restore()
            if dt > 0.5 + 2e-5 * n:
                # a garbage collection of the harness's own millions of objects can land in one measurement: repeat it
                for _ in range(3):
                    t1 = time.perf_counter()
                    try:
                        decode_limited(frames, data, reg)
                    except BaseException:      # noqa
                        pass
                    dt = min(dt, time.perf_counter() - t1)
            if dt > 2.0 + 2e-5 * n:
                run.oracle_violation("slow-decode", dict(case, seconds=round(dt, 3)), site)
            maxima["time_abs"] = max(maxima["time_abs"], dt)
            if n >= 64:
                maxima["time_per_byte"] = max(maxima["time_per_byte"], dt / n)
            if res[0] == 1 or st.tell() != n or fam not in ("valid",):
                run.nt((fam, frames, data))
            orc_seen += 1

    lap('main-loop')
    d = guard.diff()
    if d:
        run.oracle_violation("process-state-changed", {"family": "all inputs of the main loop", "changed": d[:6]},
                             "serializable.py:deserialize_value")
        guard.restore()
    run.notes.append("MEASURED (not proved): python-level operations per input byte (inputs >= 16 B): max %.1f at %s; "
                     "max operations - 8*|bs| = %d at %s (allowed %d*|bs| + %d)"
                     % (maxima["ops_per_byte"][0], maxima["ops_per_byte"][1], maxima["ops_excess"][0], maxima["ops_excess"][1],
                        OPS_PER_BYTE, OPS_CONST))

    # ---- model
    mres = M.call_many("ser_dec_log", model_args)
    ci, ii, mm = [], [], []
    for (fam, frames, data), im, mo in zip(cases, impl, mres):
        if im is None:
            continue
        mr, nval, log = mo
        if mr[0] == 0:
            mr = [0, [flat(SL.canon(mr[1][0])), mr[1][1]]]
        calls = im[1]
        if im[3] and mr != im[0] and log[:len(im[2])] == im[2] and nval >= calls:
            run.count("excluded_enum_hash_collision")
            continue
        ci.append((fam, frames, data))
        ii.append([im[0], calls if calls is not None else nval, im[2]])
        mm.append([mr, nval, log])
    run.compare("ser_dec_log", ci, ii, mm, describe=lambda c: lib.jsonable({"family": c[0], "frames": c[1], "bytes": c[2][:300], "len": len(c[2])}))
    for c, a in list(zip(ci, ii))[:: max(1, len(ci) // 5)]:
        run.sample(lib.jsonable({"family": c[0], "frames": c[1], "len": len(c[2]), "bytes": c[2][:40],
                                 "outcome": a[0] if a[0][0] == 1 else "ok", "value_decodes": a[1], "reads": len(a[2])}))

    lap('model')
    # ---- class nesting beyond the C-recursion limit with a raised recursion limit: oracle only
    for frames, data in cdeep:
        res, exc, st = decode_limited(frames, data, reg)
        run.count("c-recursion")
        if not (res[0] == 0 or res[1] in DOCUMENTED):
            run.oracle_violation("undocumented-exception", {"family": "c-recursion", "frames": frames, "len": len(data),
                                                            "exception": type(exc).__name__}, "serializable.py:deserialize_value")
        if len(st.log) > 2 * (len(data) // 2 + 1):
            run.oracle_violation("too-many-reads", {"family": "c-recursion", "frames": frames, "len": len(data)},
                                 "serializable.py:deserialize_value")

    # ---- the PUBLIC entry point Serializable.loadb(bytes): by definition deserialize_value over a BytesIO of those bytes.
    #      Differential oracle on a sample of all inputs plus FOREIGN-FORMAT inputs — what the library's own other writers
    #      produce for compressible values (dumpz = gzip members; whole, truncated, bit-flipped, and their first bytes alone)
    #      and JSON text: the same outcome as the stream decoder (value or exception type), within the same allocation bound
    foreign = []
    for v in (b"\x00" * (1 << 20), [b"\x00" * (1 << 20)] * 24, "a" * 100000, list(range(3000)), {"k": [0] * 2000}):
        try:
            import gzip as _gz           # what Serializable.dumpz does, for any value: the encoding written through gzip.open
            _st = io.BytesIO()
            _w = _gz.GzipFile(fileobj=_st, mode="wb", mtime=0)
            S.serialize_value(_w, v)
            _w.close()
            z = _st.getvalue()
        except Exception:       # noqa
            z = None
        if z:
            foreign += [("foreign-gzip", z), ("foreign-gzip-truncated", z[: len(z) // 2]), ("foreign-gzip-magic", z[:2] + b"\x00" * 8),
                        ("foreign-gzip-flipped", z[:-5] + bytes([z[-5] ^ 1]) + z[-4:])]
    foreign += [("foreign-json", b'{"a": [1, 2, 3]}'), ("foreign-json-array", b"[" + b"0," * 5000 + b"0]")]
    pub = [(c[0], c[2]) for c in cases[:: (53 if not T else 17)]] + foreign

    def _outcome(f):
        # outcome = kind, type name, a shallow summary; the decoded value itself is compared separately (deeply nested
        # values can exceed the interpreter's recursion limit in ==, which says nothing about the code under test)
        try:
            v = f()
        except Exception as e:      # noqa
            return ["raises", type(e).__name__, None], None
        try:
            summary = len(v) if hasattr(v, "__len__") else (repr(v)[:60] if isinstance(v, (int, float, bool, type(None))) else None)
        except Exception:           # noqa
            summary = None
        return ["value", type(v).__name__, summary], v

    def _same(x, y):
        try:
            return SL.canon(SL.to_wire(x)) == SL.canon(SL.to_wire(y))
        except RecursionError:
            return True
    npub = 0
    pub_hangs = 0
    with SL.KeyOracle():
        for fam, data in pub:
            data = bytes(data)
            if pub_hangs >= 3:
                break
            signal.setitimer(signal.ITIMER_REAL, 2 * WALL_LIMIT)       # both decodes under the watchdog
            try:
                a, va = _outcome(lambda: S.deserialize_value(io.BytesIO(data)))
                tracemalloc.start()
                b, vb = _outcome(lambda: S.Serializable.loadb(data))
                _, peak = tracemalloc.get_traced_memory()
            except Hang:
                pub_hangs += 1
                run.oracle_violation("hang", {"family": fam, "bytes": data[:4000], "len": len(data), "entry": "Serializable.loadb"},
                                     "serializable.py:Serializable.loadb")
                continue
            finally:
                signal.setitimer(signal.ITIMER_REAL, 0)
                if tracemalloc.is_tracing():
                    tracemalloc.stop()
            npub += 1
            if a != b or (a[0] == "value" and not _same(va, vb)):
                run.oracle_violation("loadb-differs-from-stream-decoder", {"family": fam, "len": len(data), "bytes": data[:300],
                                                                           "deserialize_value": a, "loadb": b}, "serializable.py:Serializable.loadb")
            if peak > ALLOC_CONST + ALLOC_PER_BYTE * len(data):
                run.oracle_violation("allocation-far-above-input", {"family": fam, "len": len(data), "peak": peak, "entry": "Serializable.loadb",
                                                                    "bytes": data[:300]}, "serializable.py:Serializable.loadb")
    run.count("public_loadb_inputs", npub)
    run.count("foreign_format_inputs", len(foreign))

    # ---- measurement of allocation (tracemalloc) on a sample: peak bytes against |bs|
    sample = [c for c in cases if c[0] in ("length-full", "length-short")] + \
             [c for c in cases if c[0].startswith("nest-") and c[1] == 10000][:: 3] + \
             [cases[i] for i in range(0, len(cases), 97 if not T else 211)]
    worst = (0.0, None)
    worst_abs = 0
    worst_excess = (0, None)
    with SL.KeyOracle():
        for fam, frames, data in sample:
            tracemalloc.start()
            try:
                decode_limited(frames, data, reg)
            except BaseException:      # noqa  (measurement only)
                pass
            _, peak = tracemalloc.get_traced_memory()
            tracemalloc.stop()
            ratio = peak / (len(data) + 64)
            worst_abs = max(worst_abs, peak)
            if ratio > worst[0]:
                worst = (ratio, (fam, len(data), peak))
            excess = peak - ALLOC_PER_BYTE * len(data)
            if excess > worst_excess[0]:
                worst_excess = (excess, (fam, len(data), peak))
            if peak > ALLOC_CONST + ALLOC_PER_BYTE * len(data):
                run.oracle_violation("allocation-far-above-input", {"family": fam, "len": len(data), "peak": peak,
                                                                    "bytes": data[:300]}, "serializable.py:deserialize_value")
    run.notes.append("MEASURED (not proved): max wall time per input %.4f s; max wall time per byte (inputs >= 64 B) %.2e s; "
                     "tracemalloc peak over %d sampled inputs: max %d B, worst peak/(|bs|+64) = %.1f at %s; worst peak - %d*|bs| = %d B at %s (limit %d)"
                     % (maxima["time_abs"], maxima["time_per_byte"], len(sample), worst_abs, worst[0], worst[1],
                        ALLOC_PER_BYTE, worst_excess[0], worst_excess[1], ALLOC_CONST))

    lap('alloc')
    # ---- measurement of scaling: the same shape at n and 4n elements must not cost much more than 4x the time
    def hdr(tag, n):
        return struct.pack(">H", tag) + struct.pack(">Hl", 5, n)
    shapes = {
        "seq-none": lambda n: hdr(16, n) + b"\x00\x0f" * n,
        "seq-object": lambda n: hdr(16, n) + (struct.pack(">H", SL.VfMix.type_id) + b"\x00\x03\x00") * n,
        "seq-enum": lambda n: hdr(16, n) + (struct.pack(">H", tid_enum) + b"\x00\x03\x01") * n,
        "set-int64": lambda n: hdr(18, n) + b"".join(struct.pack(">Hq", 6, i << 40) for i in range(n)),
        "map-int-none": lambda n: hdr(17, n) + b"".join(struct.pack(">Hl", 5, i * 65537) + b"\x00\x0f" for i in range(n)),
        "bytes": lambda n: hdr(14, 64 * n) + b"a" * (64 * n),
        "str": lambda n: hdr(13, 64 * n) + b"\xc3\xa9" * (32 * n),
        "nest-seq": lambda n: b"\x00\x10\x00\x03\x01" * (n // 16) + b"\x00\x0f",
        "nest-enum": lambda n: struct.pack(">H", tid_enum) * (n // 32) + b"\x00\x03\x01",
        "nest-seq-truncated": lambda n: b"\x00\x10\x00\x03\x01" * (n // 16),
    }

    ops_bad = container_cost(run, reg)
    lap('container-cost')
    persist_hostile(run)
    lap('persist-hostile')
    # containers whose elements / keys are class instances, enum members, strings, bytes, floats, containers: the same
    # wall-clock criterion (skipped for a shape whose operation count already violated the clause: it would only be slow)
    HC = {name: mk for name, _, mk in hostile_containers()}
    guarded_shapes = set()
    timed_names = ("set/obj-point", "map-key/obj-point", "set/obj-challenge", "set/enum-any-int", "map-key/enum-any-int", "set/enum-str",
                   "set/str", "map-key/str", "set/bytes", "set/float64", "seq/seq", "map-value/obj-mix", "obj-field-set/obj-low")
    if not T:
        timed_names = ("set/obj-point", "map-key/obj-challenge", "set/enum-any-int", "map-key/str", "set/bytes", "seq/seq")
    for name in timed_names:
        if name in ops_bad:
            run.notes.append("scaling shape %s not timed: its operation count is already reported" % name)
            continue
        shapes["container:" + name] = HC[name]
        guarded_shapes.add("container:" + name)

    def timed(data):
        """one decode under the watchdog -> seconds, or None when it had to be stopped"""
        signal.setitimer(signal.ITIMER_REAL, WALL_LIMIT)
        t1 = time.perf_counter()
        try:
            try:
                decode_limited(12000, data, reg)
            except Hang:
                return None
            except BaseException:      # noqa
                pass
        finally:
            signal.setitimer(signal.ITIMER_REAL, 0)
        return time.perf_counter() - t1

    def best(data):
        b = None
        for _ in range(5):
            t1 = time.perf_counter()
            try:
                decode_limited(12000, data, reg)
            except BaseException:      # noqa
                pass
            d = time.perf_counter() - t1
            b = d if b is None else min(b, d)
        return b
    scal = []
    for name, mk in shapes.items():
        n = 4096
        if name in guarded_shapes:
            n = 4096 if T else 1024       # (their cost at the cap of 16384 elements is taken by operation count in container_cost)
            # first one watched run of the large input: a decode that has to be stopped needs no repetition
            first = timed(mk(4 * n))
            if first is None:
                run.oracle_violation("hang", {"family": "scaling-" + name, "n": 4 * n, "len": len(mk(4 * n)), "bytes": mk(4 * n)[:600]},
                                     "serializable.py:deserialize_value")
                continue
        t1, t4 = best(mk(n)), best(mk(4 * n))
        scal.append("%s %.1fx" % (name, t4 / max(t1, 1e-9)))
        run.count("scaling_shapes")
        confirmed = t4 > 7 * t1 + 0.003
        for _ in range(3):
            if not confirmed:
                break
            # timing is noisy on a loaded machine: a violation must reproduce in three fresh measurements
            t1b, t4b = min(best(mk(n)), best(mk(n))), min(best(mk(4 * n)), best(mk(4 * n)))
            confirmed = t4b > 7 * t1b + 0.003
            t1, t4 = min(t1, t1b), max(min(t4, t4b), 0)
        if confirmed:
            run.oracle_violation("superlinear-time", {"family": "scaling-" + name, "n": n, "t_n": round(t1, 5), "t_4n": round(t4, 5)},
                                 "serializable.py:deserialize_value")
    run.notes.append("MEASURED (not proved): time(4n)/time(n) per shape, n = 4096 elements (container:* shapes: %d): " % (4096 if T else 1024) + ", ".join(scal))

    lap('scaling')
    # ---- the two handshake receivers of the server
    with SL.StateGuard() as g:
        hs_run(run, hello, shello)
        d = g.diff()
        if d:
            run.oracle_violation("process-state-changed", {"family": "hs-receivers (all inputs)", "changed": d[:6]}, "connection.py:_recvClientHello/_recvChallengeResponse")
    lap("handshake")
    SL.registry_unit(run, 400 if run.thorough() else 80)
    run.rules.append(RULE)


# ------------------------------------------------------------------ cost of hostile containers, by operation count
def container_cost(run, reg):
    """every container kind x every element kind at n, 4n and (seven hash containers of class instances / enum members / strings;
    all shapes in the thorough tier) at the cap of 16384 elements: the number of python-level operations
    (serlib.count_ops: deterministic, independent of the machine's load) is at most OPS_PER_BYTE*|bs| + OPS_CONST and grows
    by at most OPS_SCALE when the element count grows 4x.  -> names of the shapes that violated it"""
    T = run.thorough()
    site = "serializable.py:deserialize_value"
    bad = set()
    reported = [0]

    def violation(what, case):
        # (one seeded change typically breaks dozens of shapes at once: the first few are reported, all are counted)
        reported[0] += 1
        run.count("container_cost_violations")
        if reported[0] <= 8:
            run.oracle_violation(what, case, site)
    n1 = 64
    worst = (0.0, None)
    worst_pb = (0.0, None)
    for name, hashable, mk in hostile_containers():
        d1, d4 = mk(n1), mk(4 * n1)
        o1, x1, _ = ops_of(d1, reg, OPS_PER_BYTE * len(d1) + OPS_CONST)
        o4, x4, _ = ops_of(d4, reg, OPS_PER_BYTE * len(d4) + OPS_CONST)
        run.count("container_cost_shapes")
        run.evaluations += 2
        run.nt(("container-cost", name))
        if x1 or x4:
            d, n = (d1, n1) if x1 else (d4, 4 * n1)
            violation("too-many-operations", {"family": "container-cost", "shape": name, "n": n, "len": len(d),
                                                         "operations": ">%d" % (OPS_PER_BYTE * len(d) + OPS_CONST),
                                                         "bound": "%d*len+%d" % (OPS_PER_BYTE, OPS_CONST), "bytes": d[:4000]})
            bad.add(name)
            continue
        if o4 > OPS_SCALE * o1 + OPS_CONST:
            violation("superlinear-operations", {"family": "container-cost", "shape": name, "n": n1, "ops_n": o1, "ops_4n": o4,
                                                            "len": len(d4), "bytes": d4[:8000]})
            bad.add(name)
            continue
        worst = max(worst, (o4 / max(o1, 1), name))
        worst_pb = max(worst_pb, (o4 / len(d4), name))
        cont, el = name.split("/")
        at_cap = T or name in ("set/obj-point", "map-key/obj-challenge", "set/enum-any-int", "map-key/enum-str", "set/str",
                               "obj-field-set/obj-low", "map-key/obj-point-one-field-differs")
        if at_cap:
            big = mk(SL.MAXA)
            ob, xb, _ = ops_of(big, reg, OPS_PER_BYTE * len(big) + OPS_CONST)
            run.count("container_cost_at_cap")
            if xb:
                violation("too-many-operations", {"family": "container-cost", "shape": name, "n": SL.MAXA, "len": len(big),
                                                             "operations": ">%d" % (OPS_PER_BYTE * len(big) + OPS_CONST),
                                                             "bound": "%d*len+%d" % (OPS_PER_BYTE, OPS_CONST), "bytes": big[:600]})
                bad.add(name)
            else:
                worst_pb = max(worst_pb, (ob / len(big), name))
    run.notes.append("MEASURED (not proved): hostile containers, python-level operations: worst ops(4n)/ops(n) = %.2f at %s "
                     "(allowed %.1f); worst operations per byte = %.1f at %s (allowed %d)"
                     % (worst[0], worst[1], OPS_SCALE, worst_pb[0], worst_pb[1], OPS_PER_BYTE))
    return bad


# ------------------------------------------------------------------ hostile persistent streams (Serializable.load_persistant)
def persist_blob(v, mapping):
    """the stream store_persistant writes in a process whose classes carry the ids of `mapping`"""
    with SL.IdAssignment(mapping):
        st = io.BytesIO()
        v.store_persistant(st)
    return st.getvalue()


def persist_hostile(run):
    """load_persistant decodes a stream that brings its own id -> class-name table; the table is attacker controlled like
    everything else in the stream.  Same clauses as for loadb: terminates, documented exception kinds, a result made of
    base types and registered classes, operations bounded by the input size — and the process's own tables untouched."""
    r = run.rng
    T = run.thorough()
    site = "serializable.py:Serializable.load_persistant"
    greg = dict(S.SerializableType.registry)
    gclasses = set(greg.values())
    H = struct.pack
    PID = SL.VfPoint.type_id

    def val(x):
        st = io.BytesIO()
        S.serialize_value(st, x)
        return st.getvalue()
    objs = []
    o = SL.VfBag()
    o.pt = SL.VfPoint()
    o.anyv = [SL.VfLow(), SL.VfColor(2), {SL.VfName("bee"): SL.VfPoint()}, SL.CHAL()]
    objs.append(o)
    for _ in range(40 if T else 6):
        objs.append(SL.gen_obj(r, 2))
    blobs = []
    for v in objs:
        for _ in range(3):
            kind, mapping = SL.gen_id_assignment(r, sorted(SL.ids_in(v)))
            try:
                blobs.append(persist_blob(v, mapping))
            except Exception:       # noqa  (a generated object may hold a value outside the encoder's domain)
                pass
    cases = [("persist-valid", b) for b in blobs]
    b0 = blobs[0]
    cases += [("persist-trunc", b0[:k]) for k in (range(len(b0)) if T else list(range(0, len(b0), 3)) + list(range(len(b0) - 80, len(b0))))]
    pos = range(len(b0)) if T else sorted(set([0, 1, 2, 3, 4, 5, 6, 7, 8, 9, 10] + [r.randrange(len(b0)) for _ in range(120)] + list(range(len(b0) - 60, len(b0)))))
    cases += [("persist-flip", f) for f in flips(b0, pos)]
    # crafted tables: count x id x name, followed by a body that uses the id
    names = ["VfPoint", "VfColor", "VfHigh", "HandshakeClientChallengeResponseMessage", "HandshakeClientHelloMessage", "PacketType"]
    body_for = lambda tid: H(">H", tid & 0xFFFF) + b"\x00\x03\x01\x00\x03\x05"
    counts = [val(n) for n in (0, 1, 2, 3, 127, 128, 2 ** 14, 2 ** 14 + 1, 2 ** 20 + 1, 2 ** 31, 2 ** 63 - 1, -1, -2 ** 63)] + \
        [b"\x00\x01\x01", b"\x00\x0f", H(">Hf", 11, 2.0), val("2"), val(b"\x02"), b"\x00\x10\x00\x03\x00", b"\x00\x08\x02", b""]
    ids = [val(n) for n in (128, PID, 200, 65535, 65536, 0, 3, 13, 15, 16, 18, -1, 2 ** 40)] + \
        [b"\x00\x01\x01", H(">Hd", 12, float(PID)), val(str(PID)), b"\x00\x0f", b"\x00\x10\x00\x03\x00", val(b"ab"),
         H(">H", SL.VfColor.type_id) + b"\x00\x03\x01", SL.VfPoint().dumpb()]
    nms = [val(n) for n in names] + [val("NoSuchClass"), val(""), val("x" * 300), val(7), b"\x00\x0f", b"\x00\x10\x00\x03\x00",
                                     val(b"VfPoint"), H(">H", SL.VfName.type_id) + val("VfPoint"), b"\x00\x0d\x00\x03\x05Vf"]
    for c in counts:
        for i in (ids if T else ids[:4] + r.sample(ids[4:], 5)):
            for nm in (nms if T else nms[:3] + r.sample(nms[3:], 4)):
                cases.append(("persist-crafted", c + (i + nm) * 2 + body_for(PID)))
    for i in ids:
        for nm in nms:
            cases.append(("persist-crafted", val(1) + i + nm + body_for(PID)))
            cases.append(("persist-crafted", val(2) + val(PID) + val("VfPoint") + i + nm + body_for(PID)))
    # the same id under two names, one name under many ids, a long table, a table naming every class under one id
    allnames = [c.__name__ for c in greg.values()]
    cases.append(("persist-crafted", val(2) + val(PID) + val("VfPoint") + val(PID) + val("VfColor") + body_for(PID)))
    cases.append(("persist-crafted", val(300) + b"".join(val(1000 + k) + val("VfPoint") for k in range(300)) + body_for(1299)))
    cases.append(("persist-crafted", val(len(allnames)) + b"".join(val(PID) + val(nm) for nm in allnames) + body_for(PID)))
    cases.append(("persist-crafted", val(2 ** 14) + b"".join(val(128 + k) + val("VfPoint") for k in range(2 ** 14)) + body_for(130)))
    for _ in range(20000 if T else 1500):
        n = r.choice([0, 1, 2, 3, 5, 8, 12, 20, 40, 100, 300])
        cases.append(("persist-random", biased_random(r, n) if r.random() < 0.8 else bytes(r.getrandbits(8) for _ in range(n))))
    fp0 = SL.table_fingerprint()
    hangs = 0
    maxops = (0.0, None)
    with SL.StateGuard() as guard, SL.KeyOracle() as ko:
        for fam, data in cases:
            if hangs >= 3:
                break
            run.count(fam)
            run.evaluations += 1
            ko.table.clear()
            n = len(data)
            case = {"family": fam, "len": n, "bytes": data[:2000]}
            signal.setitimer(signal.ITIMER_REAL, WALL_LIMIT)
            exc, value = None, None
            try:
                try:
                    value = S.Serializable.load_persistant(data)
                except Exception as e:      # noqa
                    exc = e
            except Hang:
                run.oracle_violation("hang", case, site)
                hangs += 1
                guard.restore()
                continue
            finally:
                signal.setitimer(signal.ITIMER_REAL, 0)
            code = SL.exc_code(exc) if exc is not None else None
            pk_codes = set(c for _, c in ko.wire() if c != 0)
            if exc is not None and code not in DOCUMENTED and code not in pk_codes:
                run.oracle_violation("undocumented-exception", dict(case, exception=type(exc).__name__, code=code), site)
            if exc is None and not closed_over(value, gclasses):
                run.oracle_violation("result-not-closed", dict(case, value_type=type(value).__name__), site)
            if SL.table_fingerprint() != fp0:
                run.oracle_violation("process-state-changed", dict(case, changed=guard.diff()[:6]), site)
                guard.restore()
            ops, exceeded, _ = SL.count_ops(lambda: S.Serializable.load_persistant(data), OPS_PER_BYTE * n + OPS_CONST)
            if exceeded:
                run.oracle_violation("too-many-operations", dict(case, operations=">%d" % (OPS_PER_BYTE * n + OPS_CONST),
                                                                 bound="%d*len+%d" % (OPS_PER_BYTE, OPS_CONST)), site)
            elif n >= 16:
                maxops = max(maxops, (ops / n, fam))
            if SL.table_fingerprint() != fp0:
                guard.restore()
            run.count("persist_ok" if exc is None else "persist_err_%d" % code)
            run.nt(("persist", data))
        d = guard.diff()
        if d:
            run.oracle_violation("process-state-changed", {"family": "persist (all inputs)", "changed": d[:6]}, site)
    run.notes.append("MEASURED (not proved): load_persistant, python-level operations per input byte (inputs >= 16 B): max %.1f at %s"
                     % (maxops[0], maxops[1]))


# ------------------------------------------------------------------ handshake receivers
class Reached(Exception):
    pass


def hs_limited(frames, fn, data):
    """run conn._recvXxx(data) with `frames` model frames available to deserialize_value: the receiver and
    Serializable.loadb take two frames more than a direct call, and loadb wraps the bytes in a plain
    io.BytesIO whose read() is a C call (the model's stream read costs a frame: one fewer is needed)"""
    F = frames - SL.frame_offset() + 2 - 1
    old = sys.getrecursionlimit()
    sys.setrecursionlimit(SL._depth() + F)
    exc = None
    signal.signal(signal.SIGALRM, _alarm)
    signal.setitimer(signal.ITIMER_REAL, HS_WALL_LIMIT)
    try:
        try:
            fn(data)
        except Exception as e:      # noqa
            exc = e
        except Hang:
            exc = HangDetected("receiver did not terminate within %.1f s" % HS_WALL_LIMIT)
            _HANGS.append((getattr(fn, "__name__", "receiver"), bytes(data)))
    finally:
        signal.setitimer(signal.ITIMER_REAL, 0)
        sys.setrecursionlimit(old)
    return exc


def hs_run(run, hello, shello):
    from harness import connsim
    from mpgameserver.context import ServerContext
    M = run.model
    r = run.rng
    T = run.thorough()
    greg = dict(S.SerializableType.registry)
    gregw = SL.wire_registry(greg)
    gclasses = set(greg.values())
    tokw = [[tid, c._fields.index("token")] for tid, c in greg.items()
            if not SL.is_enum_cls(c) and c is not SL.HELLO and "token" in c._fields]
    ctxt = ServerContext(connsim.Handler(), connsim.root_key())
    addr = ("10.9.9.9", 4242)
    conn = CN.ServerClientConnection(ctxt, addr)
    other = CN.ServerClientConnection(ctxt, addr)
    EXPECT = 0x41234567
    other.token = EXPECT
    ctxt.temp_connections[addr] = other
    state = {}

    def get_token():
        raise Reached()
    ctxt.get_token = get_token
    ctxt._onConnect = lambda c: state.__setitem__("connected", True)
    FR = 900

    # -- inputs
    hcases = [hello, hello_bytes(2), hello_bytes(0), shello]
    hcases += [hello[:k] for k in (range(len(hello)) if T else list(range(0, 120)) + [500, len(hello) - 1])]
    head = 2 + 2 + 3 + 91 + 3 + 2
    hcases += list(flips(hello, None if T else list(range(head)) + [r.randrange(head, len(hello)) for _ in range(6)]))
    hcases += [hello + b"x", hello[:-1] + b"", b""]
    # the version field replaced by other values (bool, float 1.0, enum, str, list, None, big ints)
    vpos = hello.index(b"\x00\x03\x01", 90)
    pad = hello[vpos + 3:]
    for ver in (b"\x00\x01\x01", b"\x00\x01\x00", struct.pack(">Hf", 11, 1.0), struct.pack(">Hd", 12, 1.0), b"\x00\x0f",
                struct.pack(">H", SL.VfColor.type_id) + b"\x00\x03\x01", b"\x00\x0d\x00\x03\x01\x31", b"\x00\x10\x00\x03\x00",
                struct.pack(">Hq", 6, 1), struct.pack(">Hl", 5, 1), struct.pack(">Hh", 4, 1), b"\x00\x08\x01", b"\x00\x03\x02"):
        cut = len(ver) - 3
        hcases.append(hello[:vpos] + ver + (pad[cut:] if cut >= 0 else b"\x00" * (-cut) + pad))
    # other registered types and junk sent as a hello
    for cls in SL.OBJS + [SL.CHAL]:
        hcases.append(cls().dumpb())
    hcases += [b"\x00\x0f", b"\x00\x03\x01", b"\x00\x10\x00\x03\x00", struct.pack(">H", SL.VfColor.type_id) + b"\x00\x03\x01"]
    hcases += [biased_random(r, r.choice([2, 3, 5, 9, 30, 200])) for _ in range(3000 if T else 400)]
    # deep enum nesting inside a datagram-sized hello: the frames a server thread really has (~990)
    enum_tid = struct.pack(">H", CN.PacketType.type_id)
    for d in (10, 300, 440, 447, 448, 449, 450, 700):
        hcases.append(enum_tid * d + b"\x00\x03\x01")

    # datagram-sized containers of class instances / enum members / strings where the hello is expected
    HC = {name: mk for name, _, mk in hostile_containers()}
    for name in ("set/obj-challenge", "map-key/obj-point", "set/enum-any-int", "map-key/enum-str", "set/str", "seq/obj-mix",
                 "obj-field-set/obj-low", "set/obj-equal-fields"):
        n = 8
        while len(HC[name](n + 1)) <= 1380:
            n += 1
        hcases.append(HC[name](n))
    hs_containers = hcases[-8:]
    hs_ops = [0, None]

    def ops_clause(fn, fam, data, site):
        """python-level operations of one receiver call: a small multiple of the datagram size"""
        lim = OPS_PER_BYTE * len(data) + HS_OPS_CONST
        ops, exceeded, _ = SL.count_ops(lambda: fn(data), lim)
        if exceeded:
            run.oracle_violation("too-many-operations", {"family": fam, "len": len(data), "bytes": data[:2000], "operations": ">%d" % lim,
                                                         "bound": "%d*len+%d" % (OPS_PER_BYTE, HS_OPS_CONST)}, site)
        elif ops - 8 * len(data) > hs_ops[0]:
            hs_ops[0], hs_ops[1] = ops - 8 * len(data), (fam, len(data))

    impl, args = [], []
    with SL.KeyOracle() as ko:
        for data in hcases:
            if len(_HANGS) >= 3:
                break          # reported below as oracle violations; do not wait for more
            ko.table.clear()
            exc = hs_limited(FR, conn._recvClientHello, data)
            if isinstance(exc, Reached):
                out = [0]
            elif exc is None:
                out = [2]
            else:
                out = [1, SL.exc_code(exc)]
                if out[1] not in DOCUMENTED and out[1] not in set(c for _, c in ko.wire() if c):
                    run.oracle_violation("undocumented-exception", {"family": "hs-hello", "exception": type(exc).__name__,
                                                                    "bytes": data[:300], "len": len(data)},
                                         "connection.py:_recvClientHello")
            impl.append(out)
            args.append([gregw, ko.wire(), FR, 1, data])
            ops_clause(conn._recvClientHello, "hs-hello", data, "connection.py:_recvClientHello")
            run.count("hs_hello_%s" % ("accept" if out[0] == 0 else "ignore" if out[0] == 2 else "raise_%d" % out[1]))
            run.nt(("hs-hello", data))
    mres = [m[:1] if m[0] == 0 else m for m in M.call_many("hs_hello", args)]
    run.compare("hs_hello", hcases, impl, mres, describe=lambda c: lib.jsonable({"bytes": c[:300], "len": len(c)}))

    # -- challenge response
    ccases = [challenge_bytes(EXPECT), challenge_bytes(EXPECT + 1), challenge_bytes(0), challenge_bytes(-1), challenge_bytes(2 ** 40)]
    good = ccases[0]
    ccases += [good[:k] for k in range(len(good))] + list(flips(good)) + [good + b"\x00"]
    tid = struct.pack(">H", SL.CHAL.type_id)
    for tokv in (b"\x00\x01\x01", b"\x00\x0f", struct.pack(">Hd", 12, float(EXPECT)), struct.pack(">Hf", 11, float(EXPECT)),
                 struct.pack(">H", SL.VfColor.type_id) + struct.pack(">Hl", 5, EXPECT), b"\x00\x0d\x00\x03\x01\x31",
                 struct.pack(">Hq", 6, EXPECT), struct.pack(">HL", 10, EXPECT), b"\x00\x10\x00\x03\x00"):
        ccases.append(tid + b"\x00\x03\x01" + tokv)
    ccases += [tid + b"\x00\x03\x00", tid + b"\x00\x03\x02" + struct.pack(">Hl", 5, EXPECT) * 2, tid + b"\x00\x0f", shello, hello]
    for cls in SL.OBJS:
        ccases.append(cls().dumpb())
    ccases += [biased_random(r, r.choice([2, 3, 5, 9, 30])) for _ in range(2000 if T else 300)]
    ccases += hs_containers
    impl, args = [], []
    with SL.KeyOracle() as ko:
        for data in ccases:
            if len(_HANGS) >= 3:
                break
            ko.table.clear()
            state.clear()
            conn.status = CN.ConnectionStatus.CONNECTING
            exc = hs_limited(FR, conn._recvChallengeResponse, data)
            if exc is None:
                out = [0] if state.get("connected") and conn.status == CN.ConnectionStatus.CONNECTED else [2]
            else:
                out = [1, SL.exc_code(exc)]
                if out[1] not in DOCUMENTED and out[1] != 103 and out[1] not in set(c for _, c in ko.wire() if c):
                    run.oracle_violation("undocumented-exception", {"family": "hs-challenge", "exception": type(exc).__name__,
                                                                    "bytes": data[:300], "len": len(data)},
                                         "connection.py:_recvChallengeResponse")
            impl.append(out)
            args.append([gregw, ko.wire(), FR, tokw, EXPECT, data])
            conn.status = CN.ConnectionStatus.CONNECTING
            ops_clause(conn._recvChallengeResponse, "hs-challenge", data, "connection.py:_recvChallengeResponse")
            run.count("hs_chal_%s" % ("accept" if out[0] == 0 else "ignore" if out[0] == 2 else "raise_%d" % out[1]))
            run.nt(("hs-chal", data))
    mres = [m[:1] if m[0] == 0 else m for m in M.call_many("hs_challenge", args)]
    run.compare("hs_challenge", ccases, impl, mres, describe=lambda c: lib.jsonable({"bytes": c[:300], "len": len(c)}))
    run.notes.append("MEASURED (not proved): handshake receivers, python-level operations - 8*|datagram|: max %d at %s (allowed %d*|datagram| + %d)"
                     % (hs_ops[0], hs_ops[1], OPS_PER_BYTE, HS_OPS_CONST))
    for name, data in _HANGS[:3]:
        run.oracle_violation("hang", {"family": "hs-receiver", "receiver": name, "bytes": data[:300], "len": len(data)},
                             "connection.py:" + name)
    del _HANGS[:]


def replay(run, data):
    """./check C14 --replay f : decode the recorded bytes on the current /repo tree and re-measure
    (wall time, tracemalloc peak, exception kind)."""
    import json
    f = data.get("failure") or {}
    case = f.get("case") or {}
    b = case.get("bytes") or case.get("datagram") or ""
    if not (isinstance(b, str) and b.startswith("hex:")):
        print(json.dumps(data, indent=1)[:3000])
        return 0
    bs = bytes.fromhex(b[4:])
    if case.get("len") is not None and case["len"] != len(bs):
        print("recorded input was %d bytes, only the first %d are in the replay file" % (case["len"], len(bs)))
    tracemalloc.start()
    t0 = time.time()
    try:
        out = ["value", type(S.deserialize_value(io.BytesIO(bs))).__name__]
    except Exception as e:      # noqa
        out = ["raises", type(e).__name__]
    dt = time.time() - t0
    _, peak = tracemalloc.get_traced_memory()
    tracemalloc.stop()
    allowed_ops = OPS_PER_BYTE * len(bs) + OPS_CONST
    ops, exceeded, _ = SL.count_ops(lambda: S.deserialize_value(io.BytesIO(bs)), allowed_ops)
    bad = peak > ALLOC_CONST + ALLOC_PER_BYTE * len(bs) or dt > WALL_LIMIT or exceeded
    print(json.dumps({"recorded": f.get("what"), "len": len(bs), "outcome": out, "seconds": round(dt, 4),
                      "tracemalloc_peak": peak, "allowed_peak": ALLOC_CONST + ALLOC_PER_BYTE * len(bs),
                      "operations": (">%d" % allowed_ops) if exceeded else ops, "allowed_operations": allowed_ops, "violates": bad}))
    return 1 if bad else 0
