"""C04 — at-most-once delivery: duplicates, replays and retransmissions are dropped.

Correspondence: (a) every endpoint history below is replayed event by event on the Conn.v
model with full private-state snapshots (unit conn_run_seq = conn_run with the sender's
counters preset, so that histories can start next to the ring wrap); (b) the drop / accept
decision of the real _recv_datagram for every arriving copy, and the delivered / not delivered
outcome of every APP message, are compared with the abstract windows of the theorems
(unit w_flags = RecvHist.w_hist over the TRUE datagram / message indices).

Oracle (implementation only): an adversarial network duplicates / replays / delays datagrams
of real UdpClient <-> ServerClientConnection sessions; every application payload is unique, so
"delivered twice" is observable.  A ghost window over true indices (written here, independent
of the Coq text and of BitField) classifies every copy as inside / outside the receiver's
window on arrival: inside => the copy must be dropped whole (deep snapshot equality except
stats.dropped, see props/C01.py) and nothing may be delivered again; a duplicate accepted or
delivered OUTSIDE the window is the known finding D16, INSIDE it is a violation.

At-most-once UP TO THE APPLICATION (handler_worlds): the hand-over from incoming_messages to
EventHandler.handle_message in the real server loop (UdpServerThread.run behind every front door, harness/srvx.py)
with handlers that raise in every kind of event: calls of handle_message per unique payload <= 1, messages out of
UdpClient.getMessages per unique payload <= 1, one stats.dropped per copy; the same worlds are replayed on Server.v
(unit srv_run)."""
import struct, random, logging
from harness import lib
from harness import connsim as S
from harness import netsim as N
from harness.props import C01 as P1

RULE = ("adversarial schedules over real endpoint pairs: immediate duplicates, replays of any earlier datagram after "
        "g newer datagrams (g around 32/33) and after M newer messages (M around 256/257), retransmissions under "
        "blocked acks, random duplication/reordering/replay; both directions; sender counters started at 0 and next "
        "to the ring wrap (65535); non-trivial = (direction, start offsets, datagram gap, message gap, copy "
        "inside/outside each window, retransmitted or replayed, fragmented or not)")
ASSUMPTIONS = [
    "half-range hypothesis: every copy arrives while the receiver's newest index is fewer than 32767 ahead (stated in the theorems; "
    "the property's own quantifier)",
    "C04_exact / C04_partial speak about authentic datagrams carrying data messages (APP, APP_FRAGMENT with a complete 6-byte "
    "fragment header, KEEP_ALIVE, DISCONNECT) on a connection that holds a key — the traffic of an established connection",
]
TRUSTED = ["harness/props/C04.py ghost window (true-index bookkeeping used to classify copies as inside/outside the window)",
           "harness/srvx.py (front doors of the stepped server; ScriptedSocket stands for the OS socket under _UdpServer.run)"]
HANDLER_RULE = ("server-loop worlds (harness/srvx.py, every front door): 1-3 real UdpClients, 0-5 unique messages per client and tick (several per "
                "datagram, all retry modes), every datagram possibly duplicated back to back, recent datagrams replayed (always well inside the "
                "32-datagram window), server datagrams duplicated towards the clients, an application whose handler raises with probability "
                "0 / 0.15 / 0.4 / 0.7 in connect, handle_message, disconnect (and a quarter of that in update) and echoes from inside handle_message; "
                "observed at EventHandler.handle_message, UdpClient.getMessages and stats.dropped; non-trivial = world with >= 10 hand-overs, "
                ">= 5 copies and at least one exception raised by handle_message")

T = S.TICKS
RING, HALF = 65535, 32767


def wire(n):
    return (n - 1) % RING + 1


class Ghost:
    """abstract receive window over true indices (the property's own notion of 'seen before')"""
    def __init__(self, nb):
        self.nb, self.newest, self.seen = nb, None, set()
        self.history, self.flags = [], []

    def flagged(self, n):
        return self.newest is not None and n in self.seen and n <= self.newest and self.newest - n <= self.nb

    def present(self, n):
        f = self.flagged(n)
        self.history.append(n)
        self.flags.append(f)
        if not f:
            self.seen.add(n)
        self.newest = n if self.newest is None else max(self.newest, n)
        return f

    def gap(self, n):
        return None if self.newest is None else self.newest - n


OUTSIDE_RECORDS = [0]


def report(run, case, site):
    """file an oracle failure; copies OUTSIDE the window (the known class D16) are recorded at most 12
    times per run and counted beyond that, so that lib's cap of 50 records can never hide an
    inside-window violation"""
    if case["window"] == "outside":
        run.count("outside_window_duplicates_%s" % case["level"])
        OUTSIDE_RECORDS[0] += 1
        if OUTSIDE_RECORDS[0] > 12:
            return
    run.oracle_violation("duplicate accepted", case, site)


class Stream:
    """one direction sender -> receiver of a real endpoint pair under an adversarial network"""

    def __init__(self, run, rng, sender, start_seq=0, start_mseq=0, label=""):
        from mpgameserver.connection import SeqNum
        self.run, self.rng, self.label = run, rng, label
        self.net = N.Net(run, rng, {"tick": 300}, key=7)
        self.sender, self.receiver = sender, self.net.other(sender)
        self.start = (start_seq, start_mseq)
        sc = self.net.ep(sender).impl.conn
        sc.seq_sending = SeqNum(start_seq)
        sc.seq_message = SeqNum(start_mseq)
        self.true_m = start_mseq if start_mseq else 0          # true index of the newest message handed out
        self.last_wire_m = start_mseq
        self.gp, self.gm = Ghost(32), Ghost(256)
        self.count = {}            # payload -> deliveries
        self.msg_of = {}           # emitted datagram idx -> [(true msg index, type, payload)]
        self.app_expect = []       # (true msg index, flagged, delivered) for APP messages of accepted datagrams
        self.impl_drop = []        # per arriving copy: dropped by the implementation?
        self.back_block = False    # drop the receiver's datagrams (acks) instead of delivering them
        self.back_seen = 0
        self.fwd_seen = 0
        self.copies = 0

    # ---- application + clocks
    def advance(self, dt=300):
        self.net.advance(dt)

    def app_send(self, length, retry=0):
        assert length >= 9          # netsim payloads are unique from 9 bytes on (8-digit id + separator)
        conn = self.net.ep(self.sender).impl.conn
        mid = self.net.send(self.sender, length, retry, with_cb=False)
        neww = int(conn.seq_message)
        self.true_m += (neww - self.last_wire_m) % RING
        self.last_wire_m = neww
        return mid

    def tick_sender(self):
        """sender update; returns the indices of the datagrams it emitted"""
        self.net.tick(self.sender)
        em = self.net.emitted[self.sender]
        new = list(range(self.fwd_seen, len(em)))
        self.fwd_seen = len(em)
        for idx in new:
            msgs = S.decode_msgs_py(em[idx]["hdr"][4], em[idx]["hdr"][6], bytes(em[idx]["payload"])) or []
            out = []
            for (ws, ty, p) in msgs:
                j = self.true_m - ((wire(self.true_m) - ws) % RING) if self.true_m else ws
                out.append((j, ty, bytes(p)))
            self.msg_of[idx] = out
        return new

    def tick_receiver(self):
        """receiver update; its datagrams (acks, keep-alives) go back unless blocked"""
        self.net.tick(self.receiver)
        em = self.net.emitted[self.receiver]
        new = list(range(self.back_seen, len(em)))
        self.back_seen = len(em)
        if not self.back_block:
            for idx in new:
                ep = self.net.ep(self.sender)
                ep.apply(("recv", self.net.t, em[idx]["raw"], [7]))
                conn = ep.impl.conn
                if conn.incoming_messages:
                    ep.apply(("getmsgs",))

    def true_n(self, idx):
        return self.start[0] + idx + 1

    # ---- one copy of datagram idx reaches the receiver
    def deliver(self, idx, why="first"):
        run = self.run
        rec = self.net.emitted[self.sender][idx]
        ep = self.net.ep(self.receiver)
        impl = ep.impl
        conn = impl.conn
        n = self.true_n(idx)
        gap_p = self.gp.gap(n)
        f_pkt = self.gp.flagged(n)
        seen_pkt = n in self.gp.seen
        msgs = self.msg_of[idx]
        self.copies += 1
        before = P1.snap(impl) if f_pkt else None
        dropped0, received0 = conn.stats.dropped, conn.stats.received
        outs = ep.apply(("recv", self.net.t, rec["raw"], [7]))
        ret = [o[1] for o in outs if o[0] == 2]
        accepted = conn.stats.received == received0 + 1
        self.impl_drop.append(not accepted)
        delivered = [bytes(p) for (_, p) in conn.incoming_messages]
        site = "ConnectionBase._recv_datagram / BitField.insert"
        base = {"direction": "%s->%s" % (self.sender, self.receiver), "start": list(self.start), "scenario": self.label,
                "datagram_index": n, "datagram_gap": gap_p, "copy": why}
        self.gp.present(n)
        run.evaluations += 1
        # --- datagram level
        if f_pkt:
            after = P1.snap(impl)
            whole = (before == after and conn.stats.dropped == dropped0 + 1 and ret == [0] and not delivered)
            if not whole:
                report(run, dict(base, level="datagram", window="inside", diff=P1.first_diff(before, after)), site)
            run.nt(("dup-inside", self.sender, self.start, gap_p, why))
        elif seen_pkt:
            # a copy of a datagram accepted before, outside the datagram window
            if accepted:
                report(run, dict(base, level="datagram", window="outside"), site)
            run.nt(("dup-outside", self.sender, self.start, min(gap_p, 300), why))
        # --- message level (the message window only sees datagrams that were accepted)
        flags = {}
        if not f_pkt:
            for (j, ty, p) in msgs:
                gap_m = self.gm.gap(j)
                seen_m = j in self.gm.seen
                f = self.gm.present(j)
                flags[j] = (f, seen_m, gap_m)
                if ty == 6:
                    self.app_expect.append((j, f, p in delivered))
                if seen_m:
                    run.nt(("msg-copy", self.sender, self.start, "inside" if f else "outside", min(gap_m, 400), why, ty))
        for p in delivered:
            k = self.count.get(p, 0)
            self.count[p] = k + 1
            if k >= 1:
                own = [(j, ty) for (j, ty, q) in msgs if q == p] or [(j, ty) for (j, ty, q) in msgs if ty == 7]
                inside = f_pkt or (own and all(flags.get(j, (True,))[0] for j, _ in own))
                gaps = [flags[j][2] for j, _ in own if j in flags]
                report(run, dict(base, level="message", window="inside" if inside else "outside",
                                 message_indices=[j for j, _ in own], message_gap=gaps,
                                 fragmented=any(ty == 7 for _, ty in own), payload=p[:24], deliveries=k + 1), site)
        if conn.incoming_messages:
            ep.apply(("getmsgs",))
        return accepted


    # ---- an UNAUTHENTIC variant of datagram idx reaches the receiver (attacker: mangled replay)
    def inject_mangled(self, idx, mode, delta=0):
        run = self.run
        raw = bytearray(self.net.emitted[self.sender][idx]["raw"])
        if mode == "seq":          # header sequence number rewritten (the header is authenticated: the tag no longer matches)
            raw[8:10] = struct.pack(">H", wire(self.true_n(idx) + delta))
        elif mode == "tag":
            raw[-1] ^= 0x01
        else:
            raw[min(len(raw) - 1, 23)] ^= 0x40
        ep = self.net.ep(self.receiver)
        impl, conn = ep.impl, ep.impl.conn
        before = P1.snap(impl)
        dropped0 = conn.stats.dropped
        outs = ep.apply(("recv", self.net.t, bytes(raw), [7]))
        ret = [o[1] for o in outs if o[0] == 2]
        after = P1.snap(impl)
        run.evaluations += 1
        self.mangled = getattr(self, "mangled", 0) + 1
        if not (before == after and conn.stats.dropped == dropped0 + 1 and ret == [0] and not conn.incoming_messages):
            run.oracle_violation("unauthentic datagram changed the receiver",
                                 {"direction": "%s->%s" % (self.sender, self.receiver), "start": list(self.start),
                                  "scenario": self.label, "mode": mode, "delta": delta, "datagram_index": self.true_n(idx),
                                  "diff": P1.first_diff(before, after)}, "ConnectionBase._recv_datagram")
        if conn.incoming_messages:
            ep.apply(("getmsgs",))

    # ---- closing: correspondence
    def finish(self):
        run = self.run
        try:
            # (a) both endpoints against the model, event by event
            cases, diffs = [], []
            for e in (self.net.A, self.net.B):
                cases.append(("endpoint", self.label, e.role))
                diffs.append(check_model_seq(run, e, self.net.env, self.start if e.role == self.sender else (0, 0)))
            run.compare("conn_run_seq", cases, [None, None], diffs)
            # (b) the implementation's decisions against the abstract windows of the theorems
            r = run.model.call_many("w_flags", [[32, self.gp.history], [256, self.gm.history]])
            run.compare("w_flags", [("datagrams", self.label, len(self.gp.history))],
                        [[1 if x else 0 for x in self.impl_drop]], [r[0][0]])
            mflags = dict()
            for j, f in zip(self.gm.history, r[1][0]):
                mflags.setdefault(j, []).append(f)
            seenk = {}
            exp, got = [], []
            for (j, f, was_delivered) in self.app_expect:
                i = seenk.get(j, 0)
                seenk[j] = i + 1
                exp.append(0 if mflags[j][i] else 1)
                got.append(1 if was_delivered else 0)
            run.compare("w_flags", [("app-messages", self.label, len(exp))], [got], [exp])
            # the ghost used for classification agrees with the model's abstract window
            if [1 if x else 0 for x in self.gp.flags] != r[0][0] or [1 if x else 0 for x in self.gm.flags] != r[1][0]:
                raise RuntimeError("ghost window of the harness disagrees with RecvHist.w_hist")
        finally:
            self.net.close()


def check_model_seq(run, e, env, start):
    init = [1 if e.role == "server" else 0, e.key, 2, e.now0, start[0], start[1]]
    reply = run.model.call("conn_run_seq", [env, init, e.mevs, 1])
    for n, i in enumerate(e.index):
        a = e.itrace[n]
        b = [S.canon(reply[i][0]), reply[i][1]]
        if a[0] != b[0]:
            return {"endpoint": e.role, "event": n, "ev": lib.jsonable(e.events[n])[:3], "what": "outputs",
                    "impl": lib.jsonable(a[0])[:6], "model": lib.jsonable(b[0])[:6]}
        if a[1] is not None and a[1] != b[1]:
            diff = [j for j, (x, y) in enumerate(zip(a[1], b[1])) if x != y]
            return {"endpoint": e.role, "event": n, "ev": lib.jsonable(e.events[n])[:3], "what": "state fields %s" % diff,
                    "impl": lib.jsonable([a[1][j] for j in diff])[:4], "model": lib.jsonable([b[1][j] for j in diff])[:4]}
    return None


# ------------------------------------------------------------------ scenarios

def split_counts(total, parts, rng):
    """`parts` non-negative message counts summing to `total`, each at most 20"""
    base = [total // parts] * parts
    for i in rng.sample(range(parts), total - sum(base)):
        base[i] += 1
    return base


def sc_replay(run, rng, sender, start, g, per, copies=1, label=None, frag=False):
    """datagram #1 (one message, or a fragmented one), then g newer datagrams carrying `per` messages each
    (per: int or list), then datagram #1 again"""
    st = Stream(run, rng, sender, start[0], start[1], label or "replay g=%d" % g)
    counts = per if isinstance(per, list) else [per] * g
    st.advance()
    st.app_send(3000 if frag else 12)
    first = []
    while True:
        st.advance()
        new = st.tick_sender()
        for idx in new:
            st.deliver(idx)
        first += new
        st.tick_receiver()
        if not st.net.ep(sender).impl.conn.outgoing_messages:
            break
    extra = 0
    for c in counts:
        st.advance()
        for _ in range(c):
            st.app_send(rng.choice([9, 10, 17, 33]))
        new = st.tick_sender()
        for idx in new:
            st.deliver(idx)
        st.tick_receiver()
    for _ in range(copies):
        st.advance(30)
        for idx in first:
            st.deliver(idx, "replay")
    st.tick_receiver()
    st.finish()
    return st


def sc_immediate(run, rng, sender, start, n):
    """every datagram arrives two or three times, back to back or one step late"""
    st = Stream(run, rng, sender, start[0], start[1], "immediate duplicates")
    prev = []
    for i in range(n):
        st.advance()
        for _ in range(rng.randrange(0, 4)):
            st.app_send(rng.choice([9, 12, 20, 200]), rng.choice([0, 1, -1]))
        if rng.random() < 0.1:
            st.app_send(rng.choice([1500, 2500]), rng.choice([0, -1]))
        new = st.tick_sender()
        for idx in new:
            st.deliver(idx)
            for _ in range(rng.randrange(1, 3)):
                st.deliver(idx, "duplicate")
        for idx in prev:
            st.deliver(idx, "late duplicate")
        prev = new
        st.tick_receiver()
    st.finish()
    return st


def sc_retransmit(run, rng, sender, start, filler, per):
    """guaranteed / best-effort sends whose acks are blocked: the sender retransmits the same
    message sequence numbers in fresh datagrams; `filler` newer messages are pushed in between"""
    st = Stream(run, rng, sender, start[0], start[1], "retransmission filler=%d" % filler)
    st.back_block = True
    for _ in range(3):
        st.app_send(rng.choice([9, 30]), rng.choice([1, -1]))
    st.advance()
    for idx in st.tick_sender():
        st.deliver(idx)
    st.tick_receiver()
    sent = 0
    steps = 0
    while sent < filler or steps < 80:
        st.advance()
        k = min(per, max(filler - sent, 0))
        for _ in range(k):
            st.app_send(9)
        sent += k
        for idx in st.tick_sender():
            st.deliver(idx)
        st.tick_receiver()
        steps += 1
        if steps > 400:
            break
    st.back_block = False
    for _ in range(10):
        st.advance()
        for idx in st.tick_sender():
            st.deliver(idx)
        st.tick_receiver()
    st.finish()
    return st


def sc_random(run, rng, sender, start, steps, max_delay, p_dup, p_replay):
    """random adversary: loss, delay (reordering), duplication, replay of any earlier datagram"""
    st = Stream(run, rng, sender, start[0], start[1], "random adversary")
    due = {}
    emitted = []
    for i in range(steps):
        st.advance()
        for _ in range(rng.choice([0, 1, 1, 2, 5, 12])):
            st.app_send(rng.choice([9, 11, 40]), rng.choice([0, 0, 1, -1]))
        if rng.random() < 0.05:
            st.app_send(rng.choice([1500, 3000]), rng.choice([0, -1]))
        for idx in st.tick_sender():
            emitted.append(idx)
            if rng.random() < 0.1:
                continue
            d = rng.randrange(0, max_delay) if rng.random() < 0.3 else 0
            due.setdefault(i + d, []).append((idx, "first"))
            if rng.random() < p_dup:
                due.setdefault(i + rng.randrange(0, max_delay), []).append((idx, "duplicate"))
        if emitted and rng.random() < p_replay:
            due.setdefault(i, []).append((rng.choice(emitted), "replay"))
        for idx, why in due.pop(i, []):
            st.deliver(idx, why)
        st.back_block = rng.random() < 0.3
        st.tick_receiver()
    st.finish()
    return st


STARTS = [(0, 0), (65535 - 20, 65535 - 150), (65535 - 3, 65535 - 2), (65500, 65535 - 300)]


def sc_mangled(run, rng, sender, start, g, per):
    """genuine traffic; then mangled (unauthentic) copies whose header names a sequence number far ahead / behind /
    equal; then verbatim replays of everything: the mangled copies must change nothing, the replays must be dropped
    exactly as if the mangled copies had never arrived"""
    st = Stream(run, rng, sender, start[0], start[1], "mangled copies then replays g=%d" % g)
    allidx = []
    st.advance()
    st.app_send(12)
    for i in range(g):
        st.advance()
        for _ in range(per):
            st.app_send(rng.choice([9, 10, 17]))
        new = st.tick_sender()
        for idx in new:
            st.deliver(idx)
            if rng.random() < 0.3:
                st.inject_mangled(idx, rng.choice(["tag", "body"]))
        allidx += new
        st.tick_receiver()
    last = allidx[-1]
    for delta in (1, 33, 40, 300, 20000, -1, -33, -300):
        st.inject_mangled(last, "seq", delta)
    st.inject_mangled(allidx[0], "seq", 5000)
    st.advance(30)
    for idx in allidx:
        st.deliver(idx, "replay after mangled")
    st.tick_receiver()
    st.finish()
    return st



# ------------------------------------------------------------------ at-most-once up to the application's handler

def handler_world(run, rng, idx, front, steps, p_raise):
    """the hand-over from the connection to the application: real UdpClients around the real server loop
    (harness/srvsim.py stepping, harness/srvx.py front doors), every application payload unique, several messages
    per datagram, a network that duplicates datagrams back to back / one tick late / replays recent ones, in both
    directions, and an application whose handler RAISES in every kind of event (connect, message, disconnect,
    update).  Observed where the property says: calls of EventHandler.handle_message per payload (at most one),
    messages returned by UdpClient.getMessages per payload (at most one), stats.dropped (one per copy)."""
    from harness import srvsim as V, srvx as X
    T_ = S.TICKS
    raised_at = []

    def policy(sim, n, ev):
        acts = []
        if ev[0] == 4 and rng.random() < 0.5:
            for c in sim.ctxt.connections.values():
                if sim.cid(c) == ev[1]:
                    acts.append([1, V.av(c.addr), b"echo:" + ev[3][:200], rng.choice([0, 1, -1]), -1])
        r = ev[0] in (2, 3, 4, 5) and rng.random() < (p_raise if ev[0] != 2 else p_raise / 4)
        if r:
            raised_at.append((len(sim.steps) - 1, ev[0]))
        return acts, r
    w = X.WorldX(run, rng, cfg=(5 * T_, 2 * T_, 1536, T_), policy=policy, full=True, front=front)
    sim = w.sim
    addrs = [("10.4.%d.%d" % (idx % 200, i + 1), 5000 + i) for i in range(rng.choice([1, 2, 3]))]
    copies = {a: 0 for a in addrs}
    copy_log = {}
    down_copies = [0]
    last_down = {}

    def down(addr, data):
        out = [data]
        if rng.random() < 0.25:
            out.append(data)
            down_copies[0] += 1
        if addr in last_down and rng.random() < 0.15:
            out.append(last_down[addr])
            down_copies[0] += 1
        last_down[addr] = data
        return out
    w.down = down
    sent = {}
    recent = {a: [] for a in addrs}
    try:
        recs = [w.add_client(a) for a in addrs]
        serial = 0
        for st in range(steps):
            for i, rec in enumerate(recs):
                hc = rec["hc"]
                if hc.status() == 2:
                    for _ in range(rng.choice([0, 1, 2, 3, 5])):
                        serial += 1
                        p = b"w%d-c%d-%d-" % (idx, i, serial) + bytes(rng.randrange(256) for _ in range(rng.choice([0, 2, 30])))
                        sent[p] = (rec["addr"], st)
                        hc.client.send(p, retry=rng.choice([0, 0, 1, -1]))
            extra = []
            for a in addrs:
                if sim.ctxt.connections.get(a) is None:
                    continue
                if recent[a] and rng.random() < 0.3:
                    d = rng.choice(recent[a][-12:])       # a recent datagram again (well inside the 32-datagram window)
                    extra.append((a, d))
                    copies[a] += 1
                    copy_log.setdefault(st, []).append([list(a), "replay", S.unpack_header(d)[2]])

            def transform(batch, st=st):
                out = []
                for (a, d) in batch:
                    out.append((a, d))
                    genuine = a in copies and len(d) >= 20 and d[12] not in (1, 3) and sim.ctxt.connections.get(a) is not None
                    if genuine and d not in recent[a]:
                        recent[a].append(d)
                        if rng.random() < 0.3:
                            out.append((a, d))
                            copies[a] += 1
                            copy_log.setdefault(st, []).append([list(a), "duplicate", S.unpack_header(d)[2]])
                return out
            if not w.step(rng.choice([150, 300, 300, 600]), extra, transform=transform):
                break
        w.finish()
        if sim.internal:
            raise RuntimeError("harness-internal problem: %s" % sim.internal[:3])
        diff = sim.check_model()
        # ---- oracle: at most one hand-over per payload, at the handler
        seen = {}
        step = 0
        for i, o in enumerate(sim.log):
            if o == [0, [2]]:
                step += 1
            if o[0] == 0 and o[1][0] == 4:
                pl = bytes(o[1][3])
                seen.setdefault(pl, []).append(step)
        base = {"scenario": "server-loop hand-over", "world": idx, "front": front, "p_raise": p_raise, "clients": len(addrs)}
        for pl, where in seen.items():
            if len(where) > 1:
                k = where[1]
                case = dict(base, level="handler", window="inside", payload=pl[:40], deliveries=len(where), ticks=where[:4],
                            handler_raised_before=[list(x) for x in raised_at if x[0] <= k][-3:],
                            copies_in_tick=copy_log.get(k - 1, [])[:4],
                            datagrams_in_tick=[[list(a), S.unpack_header(d)[2], d[12]] for a, d in sim.steps[k][1] if len(d) >= 20 and a in copies][:6]
                            if k < len(sim.steps) else [])
                run.oracle_violation("message handed to the application more than once", case, "UdpServerThread.run -> EventHandler.handle_message")
            if pl not in sent:
                run.oracle_violation("handler received a payload nobody sent", dict(base, payload=pl[:40]), "UdpServerThread.run")
        # ---- the other direction: UdpClient.getMessages
        for i, rec in enumerate(recs):
            cnt = {}
            for g in rec["hc"].got:
                cnt[g] = cnt.get(g, 0) + 1
            for g, c in cnt.items():
                if c > 1:
                    run.oracle_violation("message handed to the application more than once",
                                         dict(base, level="client getMessages", window="inside", payload=g[:40], deliveries=c), "UdpClient.getMessages")
        # ---- every copy counted as dropped (all copies are well inside the datagram window)
        for a in addrs:
            objs = [c for c in sim.keep if getattr(c, "addr", None) == a and hasattr(c, "stats")]
            got = sum(c.stats.dropped for c in objs)
            if objs and not sim.died and got != copies[a]:
                run.oracle_violation("duplicate datagram not counted as dropped exactly once",
                                     dict(base, level="datagram", window="inside", addr=list(a), copies=copies[a], dropped=got),
                                     "ConnectionBase._recv_datagram")
        run.evaluations += len(seen)
        run.count("handler_worlds")
        run.count("handler_world_payloads_handed_over", len(seen))
        run.count("handler_world_datagram_copies", sum(copies.values()))
        run.count("handler_world_handler_exceptions", len(raised_at))
        run.count("handler_world_downstream_copies", down_copies[0])
        kinds = set(k for _, k in raised_at)
        if len(seen) >= 10 and sum(copies.values()) >= 5 and 4 in kinds:
            run.nt(("handler-world", idx, front, len(seen), tuple(sorted(kinds))))
        return {"world": idx, "front": front, "steps": len(sim.steps), "raised_kinds": sorted(kinds),
                "first_difference": lib.jsonable(diff)}, diff
    finally:
        w.close()


def handler_worlds(run, rng, n, steps):
    from harness import srvx as X
    cases, impl, mod = [], [], []
    for i in range(n):
        with X.logging_enabled():
            c, diff = handler_world(run, rng, i, X.FRONTS[i % len(X.FRONTS)], steps, [0.15, 0.4, 0.7, 0.0][(i // len(X.FRONTS)) % 4])
        cases.append(c)
        impl.append("agree")
        mod.append("agree" if not diff else "differ")
    run.compare("srv_run", cases, impl, mod)
    if run.dist.get("handler_world_handler_exceptions", 0) == 0 or run.dist.get("handler_world_datagram_copies", 0) == 0:
        raise RuntimeError("no raising handler / no duplicate in the server-loop worlds: the harness is not exercising the property")

def run(run):
    logging.disable(logging.CRITICAL)
    OUTSIDE_RECORDS[0] = 0
    rng = run.rng
    thorough = run.thorough()
    streams = []
    for si, start in enumerate(STARTS):
        for sender in ("client", "server"):
            # datagram window boundary: messages stay inside the message window
            for g in ([1, 2, 16, 30, 31, 32, 33, 34, 35, 48, 64] if thorough else [1, 31, 32, 33, 34]):
                streams.append(sc_replay(run, rng, sender, start, g, 1, copies=2, label="datagram gap %d" % g))
            # message window boundary with the datagram outside its window
            for M in ([200, 254, 255, 256, 257, 258, 300] if thorough else [255, 256, 257]):
                streams.append(sc_replay(run, rng, sender, start, 40, split_counts(M, 40, rng), label="message gap %d" % M))
            # inside the datagram window although more than 256 newer messages exist
            streams.append(sc_replay(run, rng, sender, start, 30, 10, label="datagram gap 30, 300 newer messages"))
            streams.append(sc_replay(run, rng, sender, start, 33, 8, frag=True, label="fragmented, 264 newer messages"))
            streams.append(sc_replay(run, rng, sender, start, 20, 3, frag=True, label="fragmented, inside"))
            streams.append(sc_immediate(run, rng, sender, start, 60 if thorough else 25))
            streams.append(sc_mangled(run, rng, sender, start, 12, 2))
            streams.append(sc_mangled(run, rng, sender, start, 3, 100))
            streams.append(sc_retransmit(run, rng, sender, start, 40, 4))
            streams.append(sc_retransmit(run, rng, sender, start, 300, 12))
            for _ in range(12 if thorough else 2):
                streams.append(sc_random(run, rng, sender, start, 600 if thorough else 150, 45, 0.3, 0.2))
            if thorough:
                streams.append(sc_random(run, rng, sender, start, 1500, 300, 0.4, 0.3))
    handler_worlds(run, rng, 96 if thorough else 12, 80 if thorough else 50)
    run.rules.append(HANDLER_RULE)
    copies = sum(s.copies for s in streams)
    dup_in = sum(1 for s in streams for f in s.gp.flags if f)
    run.count("streams", len(streams))
    run.count("datagram_copies_delivered", copies)
    run.count("copies_inside_datagram_window", dup_in)
    run.count("message_copies_inside_window", sum(1 for s in streams for f in s.gm.flags if f))
    run.count("unauthentic_copies_injected", sum(getattr(s, "mangled", 0) for s in streams))
    run.count("payloads_delivered_once", sum(1 for s in streams for v in s.count.values() if v == 1))
    run.count("payloads_delivered_more_than_once", sum(1 for s in streams for v in s.count.values() if v > 1))
    if dup_in == 0:
        raise RuntimeError("no duplicate inside the window was generated: the harness is not exercising the property")
    run.sample({"oracle": "deliveries per unique payload + ghost window over true indices",
                "streams": len(streams), "copies": copies, "inside_window_duplicates": dup_in})
    run.rules.append(RULE)
